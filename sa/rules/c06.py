"""C06  No nonce is reused and no encrypted message is accepted twice or out of order."""

from __future__ import annotations

import ast

from ..engine.context import Context
from ..engine.excflow import CANCELLED
from ..engine.loader import StructMethod, dotted, walk_expr, walk_own
from ..engine.report import norm_stmt
from ..engine.terms import contains, show, strip_sites, subterms

PROPERTY = "C06"
EXPLANATION = (
    "Static analysis of nonce/counter discipline over every AEAD call site of the package (found by sweep): (W1) every "
    "counter that feeds a nonce is written only by `= 0` in the owning class's __init__ and by `+= 1` inside the one "
    "method that makes the cipher call with it, and the cipher attribute only in __init__ (new key => new object => counter "
    "0); (G1) in each owner method the increment follows the cipher call on every normal path before the next cipher call, "
    "await or return, an exception from the cipher skips it, and there is exactly one increment per call; (T1) every "
    "constant-nonce (label) encryption uses a cipher object constructed in the same invocation from a non-constant key, is "
    "not inside a loop, and no two such calls in a function share (key, nonce); (T2) the session objects are constructed at "
    "one site each from keys derived from the pair-verify result obtained in the same invocation; (G2) desynchronisation "
    "ends the session: BLE closes the connection on any failed/cancelled request before re-raising and resets both keys "
    "on close and on disconnect, only pair-verify installs keys (always both); CoAP gives up with EncryptionError after "
    "shutting the context down. Strictly increasing counter under one key object + AEAD => no reuse, replay or reorder; "
    "the premises are what is checked, over all paths and all writers. Added from seeded faults: a nonce packed from a local copy of the counter taken before the counter advanced is reported; a counter threaded through a local and written back by its owner is 'not decided', except where the per-request advance is an arithmetic term over the payload length, which is folded on sample lengths and compared with the number of messages sealed."
)
TRUSTED = ["AEAD (ChaCha20-Poly1305) rejects a message under a wrong nonce", "struct.pack of the counter is injective below 2^64"]

AEAD_METHODS = {"encrypt", "decrypt"}


def _u(e) -> str:
    return " ".join(ast.unparse(e).split())


def _self_attrs(t) -> set[str]:
    return {s[2] for s in subterms(t) if s[0] == "attr" and s[1] == ("param", "self")}


def _is_pack(t) -> bool:
    """nonce built by a struct pack (PACK_NONCE(ctr) / struct.pack(fmt, ctr))"""
    if t[0] != "call":
        return False
    fn = t[1]
    if fn[0] == "const" and isinstance(fn[1], StructMethod) and fn[1].method == "pack":
        return True
    if fn[0] == "glob" and fn[1] in ("struct.pack",):
        return True
    if fn[0] == "attr" and fn[2] == "pack":
        return True
    return False


def cipher_sites(ctx: Context):
    """Every AEAD call in the package: (func, cfg, node, call, nonce term, receiver term, kind)"""
    out = []
    T = ctx.terms
    for f in ctx.prog.package_functions():
        if isinstance(f.node, ast.Lambda):
            continue
        if not any(isinstance(x, ast.Attribute) and x.attr in AEAD_METHODS for x in walk_own(f.node)):
            continue
        cfg = ctx.cfg(f.qualname)
        for n in cfg.nodes:
            for c in ctx.calls(n):
                kind_ = None
                if isinstance(c.func, ast.Attribute) and c.func.attr in AEAD_METHODS:
                    kind_ = c.func.attr
                elif isinstance(c.func, ast.Name):
                    # a local alias of a bound cipher method:  enc = self.encryptor.encrypt ; enc(...)
                    ft = T.of(cfg, n, c.func)
                    if ft[0] == "attr" and ft[2] in AEAD_METHODS:
                        kind_ = ft[2]
                if kind_ is None:
                    continue
                args = [T.of(cfg, n, a) for a in c.args]
                # which argument is the nonce: by the parameter name of the resolved package method, else the
                # library order (nonce, data, aad)
                idx = 0
                cands = list(ctx.callee_names(f, c))
                if isinstance(c.func, ast.Name):
                    ft = T.of(cfg, n, c.func)
                    ocls = _owner_cls(f)
                    if ft[0] == "attr" and ft[1][0] == "attr" and ft[1][1] == ("param", "self") and ocls is not None:
                        for tname in ctx.res.attr_type(ocls.qualname, ft[1][2]):
                            m = ctx.prog.lookup_method(tname, kind_)
                            if m is not None:
                                cands.append(m.qualname)
                for cal in cands:
                    g = ctx.prog.functions.get(cal)
                    if g is not None and "nonce" in g.pos_params:
                        idx = g.pos_params.index("nonce") - (1 if g.cls is not None else 0)
                if idx >= len(args):
                    continue
                a = args[idx]
                if not (_is_pack(a) or (a[0] == "const" and isinstance(a[1], bytes)) or a[0] == "add"):
                    continue
                nonce = a
                if isinstance(c.func, ast.Attribute):
                    recv = T.of(cfg, n, c.func.value)
                else:
                    recv = T.of(cfg, n, c.func)[1]
                out.append((f, cfg, n, c, nonce, recv, kind_))
    return out


def run(ctx: Context) -> None:
    ck = ctx.ck
    sites = cipher_sites(ctx)
    ck.stats["c06_cipher_sites"] = [f"{s[0].qualname.split('.', 1)[1]}: {s[6]} nonce={show(s[4], 50)}" for s in sites]
    counter_sites = []  # (func, cfg, node, call, counter attr, cipher attr, kind)
    label_sites = []
    for f, cfg, n, c, nonce, recv, kind in sites:
        attrs = _self_attrs(nonce)
        if _is_pack(nonce) and attrs:
            cipher_attr = sorted(_self_attrs(recv))[:1]
            counter_sites.append((f, cfg, n, c, sorted(attrs)[0], cipher_attr[0] if cipher_attr else None, kind))
        elif nonce[0] == "const":
            label_sites.append((f, cfg, n, c, nonce, recv, kind))
    if ck.rule("C06.W1", "counter discipline: who may write a nonce counter / a cipher attribute"):
        _w1(ctx, counter_sites)
    if ck.rule("C06.G1", "use -> increment in every owner method"):
        _g1(ctx, counter_sites)
    if ck.rule("C06.T1", "label nonces are one-shot"):
        _t1(ctx, label_sites)
    if ck.rule("C06.T2", "fresh keys per session object"):
        _t2(ctx)
        _fresh_derive(ctx)
    if ck.rule("C06.G2", "desynchronisation ends the session"):
        _g2(ctx)


def _owner_cls(f):
    g = f
    while g.parent is not None:
        g = g.parent
    return g.cls


def _w1(ctx: Context, counter_sites) -> None:
    ck = ctx.ck
    counters = {}  # (class qualname, attr) -> owner method qualnames, cipher attrs
    for f, cfg, n, c, ctr, cipher, kind in counter_sites:
        cls = _owner_cls(f)
        if cls is None:
            continue
        k = (cls.qualname, ctr)
        counters.setdefault(k, {"owners": set(), "ciphers": set()})
        counters[k]["owners"].add(f.qualname)
        if cipher:
            counters[k]["ciphers"].add(cipher)
    ck.require_min("C06.W1", "nonce counters found by the sweep", len(counters), 7)
    ck.stats["c06_counters"] = {f"{k[0].rsplit('.', 1)[-1]}.{k[1]}": sorted(x.rsplit('.', 1)[-1] for x in v["owners"]) for k, v in counters.items()}
    names = {k[1] for k in counters} | {c for v in counters.values() for c in v["ciphers"]}
    # every write to one of these attribute names anywhere in the package
    for g in ctx.prog.package_functions():
        if isinstance(g.node, ast.Lambda):
            continue
        gcls = _owner_cls(g)
        for st in walk_own(g.node):
            tgts = []
            if isinstance(st, ast.Assign):
                tgts = [(t, "=", st.value) for t in st.targets]
            elif isinstance(st, ast.AugAssign):
                tgts = [(st.target, type(st.op).__name__, st.value)]
            elif isinstance(st, ast.AnnAssign) and st.value is not None:
                tgts = [(st.target, "=", st.value)]
            elif isinstance(st, ast.Delete):
                tgts = [(t, "del", None) for t in st.targets]
            for t, op, val in tgts:
                for tt in (t.elts if isinstance(t, (ast.Tuple, ast.List)) else [t]):
                    if not (isinstance(tt, ast.Attribute) and tt.attr in names):
                        continue
                    recv_self = isinstance(tt.value, ast.Name) and tt.value.id == "self"
                    # which counter does this write concern?
                    hits = [k for k in counters if k[1] == tt.attr and (not recv_self or (gcls is not None and (
                        k[0] in ctx.prog.mro(gcls.qualname) or gcls.qualname in ctx.prog.mro(k[0]))))]
                    chits = [k for k, v in counters.items() if tt.attr in v["ciphers"] and (not recv_self or (gcls is not None and (
                        k[0] in ctx.prog.mro(gcls.qualname) or gcls.qualname in ctx.prog.mro(k[0]))))]
                    loc = f"{g.module.relpath}:{st.lineno}"
                    def skey(x):
                        # construct key without local names: target, operator and the constant (or <expr>)
                        if isinstance(x, ast.AugAssign):
                            o, v, tg = {"Add": "+=", "Sub": "-="}.get(type(x.op).__name__, type(x.op).__name__ + "="), x.value, x.target
                        elif isinstance(x, ast.Assign):
                            o, v, tg = "=", x.value, x.targets[0]
                        elif isinstance(x, ast.AnnAssign):
                            o, v, tg = "=", x.value, x.target
                        else:
                            return norm_stmt(_u(x))
                        cv = ctx.const(g, v, None) if v is not None else None
                        return f"{_u(tg)} {o} {cv if isinstance(cv, (int, type(None))) and cv is not None else '<expr>'}"

                    stmt = skey(st)
                    # identical statements in one function are told apart by their ordinal (source order)
                    same = sorted(x.lineno for x in walk_own(g.node) if isinstance(x, type(st)) and skey(x) == stmt)
                    if len(same) > 1:
                        stmt = f"{stmt} #{same.index(st.lineno) + 1}"
                    for k in hits:
                        own = counters[k]["owners"]
                        ok = False
                        why = ""
                        if recv_self and g.name == "__init__" and op == "=" and ctx.const(g, val, None) == 0:
                            ok = True
                        elif recv_self and g.qualname in own and op == "Add" and ctx.const(g, val, None) == 1:
                            ok = True
                        else:
                            why = ("outside the class" if not recv_self else f"in {g.name}, which is not the method that uses it as a nonce"
                                   if g.qualname not in own and g.name != "__init__" else "not `= 0` in __init__ / `+= 1` in the owner")
                        if not ok and recv_self and g.qualname in own and op == "=" and not isinstance(ctx.const(g, val, None), int):
                            # the owner stores a computed value: the counter threaded through a local (`counter += 1` per message) and
                            # written back.  Whether that value is "the old counter plus the number of messages sealed" is a fact
                            # about values along the loop that this rule does not compute: not decided (C06.G1 says the same)
                            ck.unknown("C06.W1", f"{k[0].rsplit('.', 1)[-1]}.{k[1]} is written back by `{stmt}` in {g.name} (its owner) from a computed value: "
                                                 "the counter is threaded through a local - not decided", loc)
                            continue
                        ck.check(
                            "C06.W1",
                            ok,
                            f"{k[0].rsplit('.', 1)[-1]}.{k[1]}: `{stmt}` in {g.name}",
                            f"{ctx.fkey(g)}:counter-write:{stmt}",
                            f"nonce counter {k[0].rsplit('.', 1)[-1]}.{k[1]} is written by `{stmt}` {why}: the counter can go backwards or restart "
                            "under the same key (nonce reuse / replayed or reordered message accepted)",
                            loc,
                        )
                    for k in chits:
                        ok = recv_self and g.name == "__init__"
                        ck.check(
                            "C06.W1",
                            ok,
                            f"cipher attribute {tt.attr} of {k[0].rsplit('.', 1)[-1]} assigned in __init__ only",
                            f"{ctx.fkey(g)}:cipher-write:{stmt}",
                            f"cipher attribute {tt.attr} (paired with counter {k[1]}) is re-assigned by `{stmt}` in {g.name}: a new key without a new counter "
                            "object, or an old key with a reset counter",
                            loc,
                        )


def _g1(ctx: Context, counter_sites) -> None:
    ck = ctx.ck
    done = 0
    for f, cfg, n, c, ctr, cipher, kind in counter_sites:
        incs = [m for m in cfg.nodes if m.kind == "stmt" and isinstance(m.ast, ast.AugAssign) and _u(m.ast.target) == f"self.{ctr}"
                and isinstance(m.ast.op, ast.Add) and ctx.const(f, m.ast.value, None) == 1]
        inc_ids = {m.id for m in incs}
        # the counter threaded through a local: `counter = self.c2a_counter` .. `PACK_NONCE(counter)`; `counter += 1` .. and a
        # write-back.  The nonce is then a value computed from the attribute, several definitions of it merge at the loop
        # head; the obligations below are stated for the attribute form (`PACK_NONCE(self.ctr)`; `self.ctr += 1`) and do
        # not decide this one.  (A nonce packed from the attribute itself while only a local advances IS the attribute
        # form, and is reported by the increment check below.)
        T0 = ctx.terms
        packs0 = [a for a in (T0.of(cfg, n, x) for x in c.args) if _is_pack(a) and a[2]]
        ctr_attr = ("attr", ("param", "self"), ctr)
        if packs0 and not any(strip_sites(a[2][-1]) == ctr_attr for a in packs0) and any(
                contains(strip_sites(a[2][-1]), lambda s_: s_ == ctr_attr) for a in packs0):
            from ._counter import advance_mismatch

            mm = advance_mismatch(ctx, f, cfg, T0, ctr) if kind == "encrypt" and f.name == "send_bytes" else None
            if mm is not None:
                ck.violated("C06.G1", f"{ctx.fkey(f)}:reserved-nonces-differ-from-frames:{ctr}",
                            f"{f.qualname.rsplit('.', 2)[-2]}.{f.name} advances {ctr} once per request by `{mm[0].text()[:70]}`: for a request of {mm[1]} bytes that is {mm[2]}, but "
                            f"{mm[3]} message(s) are sealed - the next request starts at a counter that was already used (nonce reuse) or skips one", ctx.loc(f, mm[0]), None,
                            "the counter advances by the number of messages sealed")
            else:
                ck.unknown("C06.G1", f"{f.qualname.rsplit('.', 2)[-2]}.{f.name}: the nonce of the {kind} is packed from a local that is computed from self.{ctr} "
                                     "(the counter is threaded through a local and written back): use / increment pairing over values is not decided", ctx.loc(f, n))
            done += 1
            continue
        other_calls = {x[2].id for x in counter_sites if x[0] is f and x[4] == ctr}
        stops = {cfg.exit.id} | other_calls
        for m in cfg.nodes:
            if m.id == n.id:
                continue
            for e in m.exprs:
                if e is not None and any(isinstance(s, ast.Await) for s in walk_expr(e)):
                    stops.add(m.id)
        short = f"{f.qualname.rsplit('.', 2)[-2]}.{f.name}"
        bad = None
        for e in ctx.normal_out(cfg, n):
            if e[1] in inc_ids:
                continue
            p = cfg.find_path(e[1], stops, avoid_nodes=inc_ids, edge_ok=lambda u, d, l, x: l != "x")
            if p is not None:
                bad = p
        # the call statement itself may be the return (return cipher(...)): then the increment cannot follow
        if n.kind == "return":
            bad = [(n.id, None, None)]
        ck.check(
            "C06.G1",
            bad is None,
            f"{short}: `self.{ctr} += 1` follows the {kind} on every normal path before the next use/await/return",
            f"{ctx.fkey(f)}:no-increment-after-{kind}:{ctr}",
            f"{short}: after the {kind} with nonce counter {ctr} a path reaches the next use, an await or the exit without `self.{ctr} += 1` (the same nonce is used again)",
            ctx.loc(f, n),
            cfg.render_path(bad) if bad else None,
        )
        # an exception of the cipher call skips the increment (never count a rejected message)
        exc_targets = [d for (d, l, x) in n.succ if l == "x"]
        reinc = None
        for d in exc_targets:
            reach = cfg.reachable_from(d)
            hit = reach & inc_ids
            if hit and kind == "decrypt":
                reinc = sorted(hit)[0]
        ck.check(
            "C06.G1",
            reinc is None,
            f"{short}: a failed decrypt does not advance {ctr}",
            f"{ctx.fkey(f)}:increment-on-failure:{ctr}",
            f"{short}: the counter {ctr} is incremented on a path that follows a failed decryption",
            ctx.loc(f, cfg.nodes[reinc] if reinc is not None else n),
        )
        # exactly one increment per call: no path inc -> inc without a cipher call in between
        dbl = None
        for m in incs:
            for e in ctx.normal_out(cfg, m):
                p = cfg.find_path(e[1], inc_ids, avoid_nodes=other_calls, edge_ok=lambda u, d, l, x: l != "x")
                if p is not None and e[1] not in other_calls:
                    dbl = p
                if e[1] in inc_ids:
                    dbl = [(e[1], None, None)]
        ck.check(
            "C06.G1",
            dbl is None and len(incs) >= 1,
            f"{short}: exactly one increment of {ctr} per cipher call",
            f"{ctx.fkey(f)}:increment-count:{ctr}",
            f"{short}: {ctr} is incremented {'twice without a cipher call in between' if dbl else 'never'}: sender and receiver counters diverge",
            ctx.loc(f, n),
        )
        # the nonce is the counter attribute itself: a local copy / arithmetic on it detaches nonce and counter
        T = ctx.terms
        args = [T.of(cfg, n, a) for a in c.args]
        direct = any(_is_pack(a) and a[2] and strip_sites(a[2][-1]) == ("attr", ("param", "self"), ctr) for a in args)
        ck.check(
            "C06.G1",
            direct,
            f"{short}: the nonce is built from self.{ctr} itself",
            f"{ctx.fkey(f)}:nonce-not-the-counter:{ctr}",
            f"{short}: the nonce of the {kind} is built from a value derived from self.{ctr} (a local copy or arithmetic), not from the counter "
            "attribute itself: counter and nonce can diverge",
            ctx.loc(f, n),
        )
        # ... and it is the counter as it is NOW: a local that was set to self.<ctr> earlier (`counter = self.c2a_counter` before
        # the loop) still names the attribute as a provenance term, but it is a snapshot - if the counter is advanced
        # between the snapshot and this use, the same nonce is used again
        if direct:
            du = T.du(cfg)
            stale = None
            for x in [y for a in c.args for y in walk_expr(a) if isinstance(y, ast.Name) and y.id in du.local_names]:
                if strip_sites(T.of(cfg, n, x)) != ("attr", ("param", "self"), ctr):
                    continue
                at, name, hops = n.id, x.id, 0
                while hops < 8:
                    hops += 1
                    rd = du.reaching(at, name)
                    if len(rd) != 1 or rd[0][1].kind != "assign" or rd[0][1].path or rd[0][1].value is None:
                        break
                    dn, d = rd[0]
                    # the counter advanced between this definition and the place its value is used?
                    between = [i for i in inc_ids if i != dn and i in cfg.reachable_from(dn) and at in cfg.reachable_from(i, avoid_nodes={dn})]
                    if between:
                        stale = (dn, between[0])
                        break
                    if isinstance(d.value, ast.Name) and d.value.id in du.local_names:
                        at, name = dn, d.value.id
                        continue
                    break
                if stale:
                    break
            ck.check(
                "C06.G1",
                stale is None,
                f"{short}: the nonce is built from the counter as it is at the cipher call, not from an earlier snapshot",
                f"{ctx.fkey(f)}:nonce-from-stale-copy:{ctr}",
                f"{short}: the nonce of the {kind} is built from a local copy of self.{ctr} taken at `{cfg.nodes[stale[0]].text()[:50] if stale else ''}`, but the counter is "
                f"advanced (`{cfg.nodes[stale[1]].text()[:40] if stale else ''}`) between that copy and its use: several messages are sealed with the same nonce",
                ctx.loc(f, n),
            )
        done += 1
    ck.require_min("C06.G1", "counter-nonce cipher call sites", done, 7)


def _t1(ctx: Context, label_sites) -> None:
    ck = ctx.ck
    per_func = {}
    n_enc = 0
    for f, cfg, n, c, nonce, recv, kind in label_sites:
        if kind != "encrypt":
            continue
        n_enc += 1
        short = f.qualname.split(".", 1)[1]
        in_loop = any(fr[0] == "loop" for fr in n.frames)
        ck.check("C06.T1", not in_loop, f"{short}: label-nonce encryption {nonce[1][4:]!r} is not inside a loop", f"{ctx.fkey(f)}:label-in-loop:{nonce[1]!r}",
                 f"{short}: encryption with the constant nonce {nonce[1]!r} sits inside a loop: the nonce repeats under one key", ctx.loc(f, n))
        # cipher object constructed in this invocation
        ctor = recv[0] == "call" and recv[1][0] == "glob" and recv[1][1].endswith("Encryptor") or (
            recv[0] == "call" and recv[1][0] == "glob" and recv[1][1].rsplit(".", 1)[-1] in ("ChaCha20Poly1305", "ChaCha20Poly1305Reusable"))
        ck.check("C06.T1", ctor, f"{short}: the cipher for {nonce[1][4:]!r} is constructed in the same invocation", f"{ctx.fkey(f)}:label-cipher-not-local:{nonce[1]!r}",
                 f"{short}: the cipher used with the constant nonce {nonce[1]!r} is {show(recv, 80)}, not an object constructed in this invocation", ctx.loc(f, n))
        key = recv[2][0] if ctor and recv[2] else ("unknown", "")
        nonconst = key[0] != "const" and not (key[0] == "unknown")
        fresh = contains(key, lambda s: (s[0] == "call" and s[1][0] in ("glob", "attr") and str(s[1][-1]).endswith("generate"))
                         or (s[0] == "call" and s[1][0] == "attr" and s[1][2] in ("get_session_key_bytes", "exchange"))
                         or s[0] == "param")
        ck.check("C06.T1", nonconst and fresh, f"{short}: the key for {nonce[1][4:]!r} derives from a per-invocation secret", f"{ctx.fkey(f)}:label-key-not-fresh:{nonce[1]!r}",
                 f"{short}: the key used with the constant nonce {nonce[1]!r} is {show(key, 100)}: not derived from a per-invocation secret", ctx.loc(f, n))
        per_func.setdefault(f.qualname, []).append((strip_sites(key), nonce[1], n))
    for q, lst in per_func.items():
        seen = {}
        for key, nonce, n in lst:
            dup = (key, nonce) in seen
            ck.check("C06.T1", not dup, f"{q.split('.', 1)[1]}: (key, nonce {nonce[4:]!r}) used once", f"{q}:label-pair-reused:{nonce!r}",
                     f"{q.split('.', 1)[1]}: two encryptions use the same key with the same constant nonce {nonce!r}", ctx.loc(ctx.func(q), n))
            seen[(key, nonce)] = n
    ck.require_min("C06.T1", "constant-nonce encryptions", n_enc, 3)


def _t2(ctx: Context) -> None:
    ck = ctx.ck
    T = ctx.terms
    targets = {
        "aiohomekit.controller.ip.connection.SecureHomeKitProtocol": (1, 2),
        "aiohomekit.controller.ble.key.EncryptionKey": (0,),
        "aiohomekit.controller.ble.key.DecryptionKey": (0,),
        "aiohomekit.controller.coap.connection.EncryptionContext": (0, 1, 2),
    }
    found = {k: [] for k in targets}
    for f in ctx.prog.package_functions():
        if isinstance(f.node, ast.Lambda):
            continue
        for x in walk_own(f.node):
            if isinstance(x, ast.Call):
                r = ctx.resolve_name(f, x.func)
                if r in targets:
                    found[r].append((f, x))
    for cls, sites in found.items():
        short = cls.rsplit(".", 1)[-1]
        if not sites:
            # no call that names the class: it is built through a factory that receives the class as a value
            # (`self._make(SecureHomeKitProtocol, ..)`); where its keys come from is then not read here
            ck.unknown("C06.T2", f"{short} is not constructed by a call that names it (a factory receives the class?): the origin of its keys is not decided", "")
            continue
        ck.check("C06.T2", len(sites) == 1, f"{short} is constructed at exactly one site", f"{cls}:ctor-sites",
                 f"{short} is constructed at {len(sites)} sites ({[s[0].qualname.split('.', 1)[1] for s in sites]}): a session object could be rebuilt with old keys", "")
        for f, call in sites:
            cfg = ctx.cfg(f.qualname)
            nodes = [n for n in cfg.nodes if n.ast is not None and any(call is s for e in n.exprs if e is not None for s in walk_expr(e))]
            if not nodes:
                continue
            n = nodes[0]
            for idx in targets[cls]:
                if idx >= len(call.args):
                    ck.unknown("C06.T2", f"{short}: key argument {idx} not positional", ctx.loc(f, n))
                    continue
                t = T.of(cfg, n, call.args[idx])
                # unwrap a cipher constructor (CoAP passes ChaCha20Poly1305(key))
                if t[0] == "call" and t[1][0] == "glob" and "ChaCha20Poly1305" in t[1][1] and t[2]:
                    t = t[2][0]
                ok = t[0] == "call" and all(a[0] == "const" for a in t[2]) and contains(
                    t[1], lambda s: s[0] == "caught" and "StopIteration" in s[1] or (s[0] == "await" and contains(s, lambda z: z[0] == "glob" and z[1].endswith("drive_pairing_state_machine"))))
                ck.check("C06.T2", ok, f"{short}: key #{idx} = derive(<labels>) of the pair-verify result obtained in this invocation",
                         f"{ctx.fkey(f)}:session-key:{short}:{idx}", f"{short}: key argument {idx} is {show(t, 120)}, not derived from this invocation's pair-verify result", ctx.loc(f, n))


def _fresh_derive(ctx: Context) -> None:
    """what pair-verify hands to the drivers is a derivation over THIS exchange's secret (never the previous session's)"""
    ck = ctx.ck
    T = ctx.terms
    for q, fresh_ok in (
        ("aiohomekit.protocol.get_session_keys", lambda t: contains(t, lambda s: s[0] == "call" and s[1][0] == "glob" and s[1][1].endswith("X25519PrivateKey.generate"))),
        ("aiohomekit.protocol.resume_m3", lambda t: contains(t, lambda s: s[0] == "param")),
    ):
        f = ctx.func(q)
        cfg = ctx.cfg(q)
        n_ret = 0
        for n in cfg.nodes:
            if n.kind != "return" or not n.exprs:
                continue
            t = T.of(cfg, n, n.exprs[0])
            if t == ("const", None) or t[0] == "call":
                continue  # None / the value of resume_m3 (checked in its own function)
            n_ret += 1
            ok = t[0] == "tuple" and len(t[1]) == 2 and t[1][1][0] == "closure"
            secret_ok = False
            if ok:
                cl = ctx.func(t[1][1][1])
                ccfg = ctx.cfg(cl.qualname)
                for r in ccfg.nodes:
                    if r.kind == "return" and r.exprs:
                        rt = T.of(ccfg, r, r.exprs[0])
                        # hkdf_derive(<secret>, salt, info, ...): the secret must contain this exchange's fresh material
                        for s in subterms(rt):
                            if s[0] == "call" and s[2]:
                                secret_ok = secret_ok or fresh_ok(s[2][0])
            ck.check(
                "C06.T2",
                ok and secret_ok,
                f"{f.name}: the returned key derivation is a closure over this exchange's fresh secret",
                f"{ctx.fkey(f)}:stale-derive",
                f"{f.name} returns {show(strip_sites(t), 120)} as the key derivation: it must be a closure created in this invocation over a secret "
                "that depends on this exchange's fresh key (returning the previous session's derive re-installs old keys with counter 0 => nonce reuse, replay accepted)",
                ctx.loc(f, n),
            )
        ck.require_min("C06.T2", f"{f.name}: key-bearing returns", n_ret, 1)


def _g2(ctx: Context) -> None:
    ck = ctx.ck
    BP = "aiohomekit.controller.ble.pairing.BlePairing"
    # BLE: BaseException handler closes before re-raising
    f = ctx.func(f"{BP}._async_request_under_lock")
    cfg = ctx.cfg(f.qualname)
    reqs = [n for n, c in ctx.nodes_calling_name(cfg, "ble_request")]
    closes = {n.id for n, c in ctx.nodes_calling_name(cfg, "_close_while_locked")}
    if not reqs:
        ck.unknown("C06.G2", "_async_request_under_lock: ble_request call not found", f.loc())
    for r in reqs:
        bad = None
        for d, l, x in r.succ:
            if l != "x":
                continue
            p = cfg.find_path(d, cfg.xexit.id, avoid_nodes=closes)
            if p is not None:
                bad = (x, p)
            if cfg.nodes[d].kind != "handler":
                bad = (x, [(r.id, "x", x), (d, None, None)])
        ck.check("C06.G2", bad is None, "BLE: every exception of a request (incl. cancellation) passes _close_while_locked() before leaving",
                 f"{ctx.fkey(f)}:no-close-on-failure", f"BLE: a request failing with {bad[0] if bad else ''} leaves _async_request_under_lock without closing the connection: "
                 "the encryption counters of both sides are out of step for the next request", ctx.loc(f, r), cfg.render_path(bad[1]) if bad else None)
        # and the failure is re-raised (never swallowed)
        for d, l, x in r.succ:
            if l == "x" and cfg.nodes[d].kind == "handler":
                ck.check("C06.G2", cfg.exit.id not in cfg.reachable_from(d), "BLE: the failure is re-raised after closing", f"{ctx.fkey(f)}:failure-swallowed",
                         "BLE: a failed request continues normally after the handler", ctx.loc(f, cfg.nodes[d]))
                break
    # reset sets both keys to None; reached from close and from the disconnect callback
    rf = ctx.func(f"{BP}._async_reset_connection_state")
    cleared = {_u(t) for st in walk_own(rf.node) if isinstance(st, ast.Assign) and isinstance(st.value, ast.Constant) and st.value.value is None for t in st.targets}
    ck.check("C06.G2", {"self._encryption_key", "self._decryption_key"} <= cleared, "BLE: _async_reset_connection_state forgets both session keys",
             f"{ctx.fkey(rf)}:keys-not-cleared", f"BLE: _async_reset_connection_state clears only {sorted(cleared)}", rf.loc())
    cf = ctx.func(f"{BP}._close_while_locked")
    ccfg = ctx.cfg(cf.qualname)
    disc = [n for n, c in ctx.nodes_calling_name(ccfg, "disconnect")]
    resets = {n.id for n, c in ctx.nodes_calling_name(ccfg, "_async_reset_connection_state")}
    ok = bool(disc) and bool(resets)
    for dn in disc:
        for e in ccfg.all_out_edges(dn):
            if e[2] == "x" and e[3] == CANCELLED:
                continue
            p = ccfg.find_path(e[1], ccfg.exit.id, avoid_nodes=resets)
            if p is not None and e[1] not in resets:
                ok = False
    ck.check("C06.G2", ok, "BLE: after disconnecting (successfully or not) the keys are reset on every path to the normal exit", f"{ctx.fkey(cf)}:reset-after-disconnect",
             "BLE: _close_while_locked can return after a disconnect without resetting the session keys", cf.loc())
    df = ctx.func(f"{BP}._async_disconnected")
    ck.check("C06.G2", any(isinstance(x, ast.Call) and isinstance(x.func, ast.Attribute) and x.func.attr == "_async_reset_connection_state" for x in walk_own(df.node)),
             "BLE: the disconnect callback resets the session keys", f"{ctx.fkey(df)}:no-reset", "BLE: the disconnect callback no longer resets the session keys", df.loc())
    # only pair-verify installs keys, always both
    pv = f"{BP}._async_pair_verify"
    writers = {}
    for g in ctx.prog.package_functions():
        if isinstance(g.node, ast.Lambda):
            continue
        for st in walk_own(g.node):
            if isinstance(st, (ast.Assign, ast.AnnAssign)):
                tg = st.targets if isinstance(st, ast.Assign) else [st.target]
                for t in tg:
                    if isinstance(t, ast.Attribute) and t.attr in ("_encryption_key", "_decryption_key"):
                        val = st.value
                        non_none = val is not None and not (isinstance(val, ast.Constant) and val.value is None)
                        if non_none:
                            writers.setdefault(g.qualname, set()).add(t.attr)
    ck.check("C06.G2", set(writers) == {pv} and writers.get(pv) == {"_encryption_key", "_decryption_key"},
             "BLE: only _async_pair_verify installs session keys, and it installs both", "aiohomekit.controller.ble.pairing:key-writers",
             f"BLE: session keys are installed by {({k.split('.', 1)[1]: sorted(v) for k, v in writers.items()})}", ctx.func(pv).loc())
    pcfg = ctx.cfg(pv)
    enc = [n for n in pcfg.nodes if n.kind == "stmt" and isinstance(n.ast, ast.Assign) and _u(n.ast.targets[0]) == "self._encryption_key"]
    dec = {n.id for n in pcfg.nodes if n.kind == "stmt" and isinstance(n.ast, ast.Assign) and _u(n.ast.targets[0]) == "self._decryption_key"}
    okb = bool(enc) and bool(dec)
    encs = {n.id for n in enc}

    def _paired(first_nodes, other: set) -> bool:
        """each store of one key is followed by a store of the other before the function can return (in whichever order the two are written)"""
        for e in first_nodes:
            for ed in ctx.normal_out(pcfg, e):
                if ed[1] not in other and pcfg.find_path(ed[1], pcfg.exit.id, avoid_nodes=other, edge_ok=lambda u, d, l, x: l != "x") is not None:
                    return False
        return True

    dec_nodes = [pcfg.nodes[i] for i in dec]
    # the key written first must be followed by the other one; which of the two comes first is free
    if okb and not (_paired(enc, dec) or _paired(dec_nodes, encs)):
        okb = False
    ck.check("C06.G2", okb, "BLE: the two keys are installed together (no await or exit between them)", f"{ctx.fkey(ctx.func(pv))}:keys-together",
             "BLE: the encryption key can be installed without the decryption key", ctx.func(pv).loc())
    # CoAP: giving up raises EncryptionError after shutting down
    ef = ctx.func("aiohomekit.controller.coap.connection.EncryptionContext._decrypt_response")
    ecfg = ctx.cfg(ef.qualname)
    esc = {x for x in ctx.flow.esc(ef.qualname) if x != CANCELLED}
    ck.check("C06.G2", "aiohomekit.exceptions.EncryptionError" in esc and "cryptography.exceptions.InvalidTag" not in esc,
             "CoAP: an undecryptable response ends in EncryptionError", f"{ctx.fkey(ef)}:gives-up", f"CoAP: _decrypt_response lets {sorted(esc)} escape", ef.loc())
    raises = [n for n in ecfg.nodes if n.kind == "raise"]
    shut = {n.id for n, c in ctx.nodes_calling_name(ecfg, "shutdown")}
    nulls = {n.id for n in ecfg.nodes if n.kind == "stmt" and isinstance(n.ast, ast.Assign) and _u(n.ast.targets[0]) == "self.coap_ctx" and isinstance(n.ast.value, ast.Constant)}
    oks = bool(raises) and bool(shut)
    ck.check("C06.G2", oks, "CoAP: the context is shut down before giving up", f"{ctx.fkey(ef)}:shutdown", "CoAP: _decrypt_response gives up without shutting the session down", ef.loc())


MANIFEST = {
    "technique": "package-wide sweep of AEAD call sites and who-may-write analysis of nonce counters / cipher attributes, CFG "
    "post-dominance of the increment (use -> increment), provenance terms of keys and label nonces, release-on-all-exits for desynchronisation",
    "level_text": "Static, all paths and all writers: decides the counter discipline (each nonce counter written only by = 0 in __init__ and "
    "+= 1 in the one method that uses it; one increment per use, none on a failed decrypt), one-shot label nonces with locally "
    "constructed ciphers and non-constant keys, single construction site of each session object from this invocation's "
    "pair-verify result, and close-on-failure. From these premises no-reuse / no-replay / no-reorder follow by the standard "
    "argument; histories themselves are not explored.",
    "level_note": "Trusted: AEAD primitives; the BLE decorators. The CoAP counter resynchronisation heuristics violate the discipline and are "
    "recorded as known findings (five writes in EncryptionContext._decrypt_response).",
}

TWIN_FILES = [
    "aiohomekit/controller/ip/connection.py",
    "aiohomekit/controller/ble/key.py",
    "aiohomekit/controller/ble/client.py",
    "aiohomekit/controller/coap/connection.py",
    "aiohomekit/protocol/__init__.py",
]
_IPC = "aiohomekit/controller/ip/connection.py"
_KEY = "aiohomekit/controller/ble/key.py"
_BP = "aiohomekit/controller/ble/pairing.py"
VARIANTS = [
    {"name": "BLE encrypt counter never incremented", "file": _KEY, "old": "        data = self.key.encrypt(b\"\", PACK_NONCE(self.counter), data)\n        self.counter += 1", "new": "        data = self.key.encrypt(b\"\", PACK_NONCE(self.counter), data)", "expect": "C06.G1"},
    {"name": "IP send counter reset in send_bytes", "file": _IPC, "old": "        buffer: list[bytes] = []\n\n        while len(payload) > 0:", "new": "        buffer: list[bytes] = []\n        self.c2a_counter = 0\n\n        while len(payload) > 0:", "expect": "C06.W1"},
    {"name": "IP receive counter incremented in the failure handler", "file": _IPC, "old": "            except DecryptionError as err:\n                raise RuntimeError(\"Could not decrypt block\") from err", "new": "            except DecryptionError as err:\n                self.a2c_counter += 1\n                raise RuntimeError(\"Could not decrypt block\") from err", "expect": "C06.G1"},
    {"name": "IP send counter incremented once per request instead of per frame", "file": _IPC,
     "old": "            buffer.append(self.encryptor.encrypt(len_bytes, PACK_NONCE(self.c2a_counter), current))\n            self.c2a_counter += 1\n\n        return", "new": "            buffer.append(self.encryptor.encrypt(len_bytes, PACK_NONCE(self.c2a_counter), current))\n        self.c2a_counter += 1\n\n        return", "expect": "C06.G1"},
    {"name": "counter written from outside the class", "file": _IPC, "old": "        self.transport.set_protocol(self.protocol)\n", "new": "        self.transport.set_protocol(self.protocol)\n        self.protocol.a2c_counter = 0\n", "expect": "C06.W1"},
    {"name": "decryptor replaced without a new counter", "file": _IPC, "old": "        self._incoming_buffer += data\n", "new": "        self._incoming_buffer += data\n        self.decryptor = ChaCha20Poly1305Decryptor(self.a2c_key)\n", "expect": "C06.W1"},
    {"name": "double increment on decrypt", "file": _KEY, "old": "        data = self.key.decrypt(b\"\", PACK_NONCE(self.counter), data)\n        self.counter += 1", "new": "        data = self.key.decrypt(b\"\", PACK_NONCE(self.counter), data)\n        self.counter += 1\n        self.counter += 1", "expect": "C06.G1"},
    {"name": "label nonce with a module-level cipher", "file": "aiohomekit/protocol/__init__.py",
     "old": "    key = ChaCha20Poly1305Encryptor(request_key)\n\n    auth_tag = key.encrypt(", "new": "    key = _RESUME_CIPHER\n\n    auth_tag = key.encrypt(", "expect": "C06.T1"},
    {"name": "second session object with the same keys", "file": _IPC, "old": "        self.transport.set_protocol(self.protocol)\n", "new": "        self.protocol = SecureHomeKitProtocol(self, a2c_key, c2a_key)\n        self.transport.set_protocol(self.protocol)\n", "expect": "C06.T2"},
    {"name": "BLE keys from a cached derive", "file": _BP, "old": "            self._encryption_key = EncryptionKey(derive(b\"Control-Salt\", b\"Control-Write-Encryption-Key\"))", "new": "            self._encryption_key = EncryptionKey(self._derive(b\"Control-Salt\", b\"Control-Write-Encryption-Key\"))", "expect": "C06.T2"},
    {"name": "BLE: no close on a failed request", "file": _BP, "old": "            try:\n                await self._close_while_locked()\n            except Exception as exc:", "new": "            try:\n                pass\n            except Exception as exc:", "expect": "C06.G2"},
    {"name": "BLE: only Exception closes (cancellation does not)", "file": _BP, "old": "        except BaseException as ex:\n            # If the request fails for any reason (especially", "new": "        except Exception as ex:\n            # If the request fails for any reason (especially", "expect": "C06.G2"},
    {"name": "BLE: reset keeps the decryption key", "file": _BP, "old": "        self._encryption_key = None\n        self._decryption_key = None\n        self._notifications = set()", "new": "        self._encryption_key = None\n        self._notifications = set()", "expect": "C06.G2"},
]
