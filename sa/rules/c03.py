"""C03  Pair-setup returns pairing data only after a fully authenticated exchange."""

from __future__ import annotations

import ast

from ..engine.context import Context
from ..engine.loader import walk_expr, walk_own
from ..engine.terms import contains, show, strip_sites, subterms
from ..spec import hap
from . import _pairing as pp
from ._pairing import attr, call, const, glob, hkdf, reply, sub
from .c01 import _norm_ctor, _sub_tlv_ok, driver_check
from .c02 import session_key_chain

PROPERTY = "C03"
EXPLANATION = (
    "Static analysis of pair-setup (HAP 5.6): (G1) part 1 returns (salt, accessory SRP key) of the M2 reply only after the "
    "yield, the M2 step check and the presence of both fields; (G2) every path to the return of part 2 passes, as edges: "
    "yield(M3), step check M4, Proof present, the TRUE outcome of the SRP server-proof verification, yield(M5), step check "
    "M6, EncryptedData present, successful AEAD decrypt (PS-Msg06), Signature/Identifier/PublicKey present in the sub-TLV, "
    "successful Ed25519 verify; (T1) M5: iOSDeviceX = HKDF(K, Controller-Sign labels), signed info = X | controller id | "
    "fresh long-term public key, sub-TLV [Identifier, PublicKey, Signature] under HKDF(K, Encrypt labels) with PS-Msg05, K = "
    "session key of the one SRP client built from ('Pair-Setup', pin) and fed the salt/key parameters; M1/M3 request shapes; "
    "(T2) M6: decrypt under the same key with PS-Msg06, verify key = the sub-TLV's PublicKey, message = HKDF(K, "
    "Accessory-Sign labels) | sub-TLV Identifier | sub-TLV PublicKey; (T3) the returned record is the authenticated one: "
    "AccessoryPairingID/AccessoryLTPK are the verified identifier/key terms, iOSDeviceLTSK is the private half of the SAME key "
    "object (value number) whose public half is iOSDeviceLTPK and was sent in M5; (X1) the drivers on IP, BLE and CoAP build "
    "the pairing only from the finished state machine and let no failure continue. Quantifier: all paths / all exits."
)
TRUSTED = ["cryptography (Ed25519, HKDF), the ChaCha20-Poly1305 library, SRP arithmetic (C02)", "TLV decoding (C15)"]

P1 = f"{pp.P}.perform_pair_setup_part1"
P2 = f"{pp.P}.perform_pair_setup_part2"
SRP = "aiohomekit.crypto.srp.SrpClient"


def run(ctx: Context) -> None:
    ck = ctx.ck
    if ck.rule("C03.G1", "part 1: salt and key only from a checked M2"):
        _g1(ctx)
    if ck.rule("C03.G2", "part 2: gates of the authenticated exchange"):
        _g2(ctx)
    if ck.rule("C03.T1", "M1 / M3 / M5 requests"):
        _t1(ctx)
    if ck.rule("C03.K1", "the key M3's proof and M5's seal are made from is the specification's K = H(PAD384(S))"):
        # T1 compares the M3/M5 requests with `get_session_key_bytes()` taken as given; what that helper returns is C02's
        # subject, and the three obligations of C02.T2 about it are run here under this id: with any other K a conformant
        # accessory rejects the controller's own exchange message (positive clause of the property)
        session_key_chain(ctx, "C03.K1")
    if ck.rule("C03.T2", "M6 verification"):
        _t2(ctx)
    if ck.rule("C03.T3", "the returned record is the authenticated one"):
        _t3(ctx)
    if ck.rule("C03.X1", "drivers"):
        _x1(ctx)


def _g1(ctx: Context) -> None:
    ck = ctx.ck
    f = ctx.func(P1)
    cfg = ctx.cfg(P1)
    T = pp.terms(ctx)
    rets = [n for n in cfg.nodes if n.kind == "return" and n.exprs]
    ys = pp.yield_nodes(ctx, cfg, T)
    if len(rets) != 1 or len(ys) != 1:
        ck.unknown("C03.G1", f"part1: expected 1 return / 1 yield, found {len(rets)}/{len(ys)}", f.loc())
        return
    r0 = reply(0)
    is_r0 = lambda t: t == r0  # noqa: E731
    for name, edges in (
        ("yield (M1 sent, M2 received)", ctx.normal_out(cfg, ys[0][1])),
        ("handle_state_step(M2)", pp.step_edges(ctx, cfg, T, 0, hap.M[2])),
        ("M2 carries PublicKey", pp.presence_edges(ctx, cfg, T, hap.TLV_PUBLIC_KEY, is_r0)),
        ("M2 carries Salt", pp.presence_edges(ctx, cfg, T, hap.TLV_SALT, is_r0)),
    ):
        ctx.must_pass("C03.G1", cfg, rets[0], name, edges, desc=f"part1 returns only after: {name}")
    t = pp.get_as_item(strip_sites(T.of(cfg, rets[0], rets[0].exprs[0])))
    ck.check("C03.G1", t == ("tuple", (sub(r0, const(hap.TLV_SALT)), sub(r0, const(hap.TLV_PUBLIC_KEY)))), "part1 returns (M2 salt, M2 public key)", f"{ctx.fkey(f)}:return",
             f"part1 returns {show(t, 120)}", ctx.loc(f, rets[0]))
    # its consumers unpack in the same order
    okm = False
    yt = strip_sites(T.of(cfg, ys[0][1], ys[0][2].value))
    if yt[0] == "tuple" and yt[1][0][0] == "list" and len(yt[1][0][1]) == 2:
        a, b = yt[1][0][1]
        m = b[1][1] if b[0] == "tuple" else None
        okm = a == ("tuple", (const(hap.TLV_STATE), const(hap.M[1]))) and b[1][0] == const(hap.TLV_METHOD) and m is not None and m[0] == "ifexp" and m[1] == ("param", f.pos_params[0]) and m[2] == const(bytes([hap.METHOD_PAIR_SETUP_WITH_AUTH])) and m[3] == const(bytes([hap.METHOD_PAIR_SETUP]))
        WA, PS = const(bytes([hap.METHOD_PAIR_SETUP_WITH_AUTH])), const(bytes([hap.METHOD_PAIR_SETUP]))
        if not okm and a == ("tuple", (const(hap.TLV_STATE), const(hap.M[1]))) and b[1][0] == const(hap.TLV_METHOD) and m is not None and m[0] == "phi" and set(m[1]) == {WA, PS}:
            # the method chosen by an if statement into a local: the store of WithAuth is reached only through the true outcome
            # of a test of the with_auth parameter, the store of PairSetup only through its false outcome
            tests = [n for n in cfg.nodes if n.kind == "test" and strip_sites(T.of(cfg, n, n.exprs[0])) == ("param", f.pos_params[0])]
            t_edges = [e for n in tests for e in cfg.out_edges(n, ("T",))]
            f_edges = [e for n in tests for e in cfg.out_edges(n, ("F",))]
            stores = {WA: [], PS: []}
            for n in cfg.nodes:
                if n.kind == "stmt" and isinstance(n.ast, ast.Assign):
                    v_ = strip_sites(T.of(cfg, n, n.ast.value))
                    if v_ in stores:
                        stores[v_].append(n)
            okm = bool(tests) and bool(stores[WA]) and bool(stores[PS]) \
                and all(cfg.find_path(cfg.entry.id, n.id, avoid_edges=t_edges) is None for n in stores[WA]) \
                and all(cfg.find_path(cfg.entry.id, n.id, avoid_edges=f_edges) is None for n in stores[PS])
    ck.check("C03.G1", okm, "M1 = [(State, M1), (Method, PairSetupWithAuth if with_auth else PairSetup)]", f"{ctx.fkey(f)}:m1", f"part1: M1 is {show(yt, 160)}", ctx.loc(f, ys[0][1]))


def _vocab(ctx: Context):
    f = ctx.func(P2)
    cfg = ctx.cfg(P2)
    T = pp.terms(ctx)
    pin, cid, salt, spk = [("param", p) for p in f.pos_params[:4]]
    srp = call(glob(f"{SRP}.__init__"), const("Pair-Setup"), pin)
    K = call(attr(srp, "get_session_key_bytes"))
    skey = hkdf(K, *hap.HKDF_LABELS["setup-encrypt"])
    r0, r1 = reply(0), reply(1)
    dec = call(attr(call(glob(f"{pp.DEC}.__init__"), skey), "decrypt"), const(b""), const(hap.NONCES["PS-Msg06"]), sub(r1, const(hap.TLV_ENCRYPTED_DATA)))
    ltsk = call(glob(f"{pp.ED_PRIV}.generate"))
    ltpk = pp.raw_public_bytes(ltsk)
    return f, cfg, T, pin, cid, salt, spk, srp, K, skey, r0, r1, dec, ltsk, ltpk


def _n(t):
    """normalise constructor spellings (SrpClient(...), Decryptor(...)) to their __init__"""
    t = pp.get_as_item(_norm_ctor(t))

    def rec(x):
        if not isinstance(x, tuple):
            return x
        if x and x[0] == "const":
            return x
        if x and x[0] == "call" and x[1] == ("glob", SRP):
            x = ("call", ("glob", SRP + ".__init__")) + x[2:]
        return tuple(rec(y) if isinstance(y, tuple) else y for y in x)

    return rec(t)


def _g2(ctx: Context) -> None:
    ck = ctx.ck
    f, cfg, T, pin, cid, salt, spk, srp, K, skey, r0, r1, dec, ltsk, ltpk = _vocab(ctx)
    rets = [n for n in cfg.nodes if n.kind == "return" and n.exprs]
    ys = pp.yield_nodes(ctx, cfg, T)
    if len(rets) != 1 or len(ys) != 2:
        ck.unknown("C03.G2", f"part2: expected 1 return / 2 yields, found {len(rets)}/{len(ys)}", f.loc())
        return
    ret = rets[0]
    is_r0 = lambda t: t == r0  # noqa: E731
    is_r1 = lambda t: t == r1  # noqa: E731
    is_sub = lambda t: _sub_tlv_ok(_n(t), dec)  # noqa: E731
    proof_edges = []
    for n in cfg.nodes:
        if n.kind == "test":
            t = _n(strip_sites(T.of(cfg, n, n.exprs[0])))
            if t == call(attr(srp, "verify_servers_proof_bytes"), sub(r0, const(hap.TLV_PROOF))):
                proof_edges += cfg.out_edges(n, ("T",))
    decs = [n for n, c, recv, args in pp.method_calls(ctx, cfg, T, "decrypt") if len(args) == 3 and args[1] == const(hap.NONCES["PS-Msg06"])]
    vers = [n for n, c, recv, args in pp.method_calls(ctx, cfg, T, "verify")]
    gates = [
        ("yield (M3 sent, M4 received)", ctx.normal_out(cfg, ys[0][1])),
        ("handle_state_step(M4)", pp.step_edges(ctx, cfg, T, 0, hap.M[4])),
        ("M4 carries Proof", pp.presence_edges(ctx, cfg, T, hap.TLV_PROOF, is_r0)),
        ("the accessory's SRP proof verified (true outcome)", proof_edges),
        ("yield (M5 sent, M6 received)", ctx.normal_out(cfg, ys[1][1])),
        ("handle_state_step(M6)", pp.step_edges(ctx, cfg, T, 1, hap.M[6])),
        ("M6 carries EncryptedData", pp.presence_edges(ctx, cfg, T, hap.TLV_ENCRYPTED_DATA, is_r1)),
        ("AEAD decrypt of M6 succeeded (PS-Msg06)", [e for n in decs for e in ctx.normal_out(cfg, n)]),
        ("sub-TLV carries Signature", pp.presence_edges(ctx, cfg, T, hap.TLV_SIGNATURE, is_sub)),
        ("sub-TLV carries Identifier", pp.presence_edges(ctx, cfg, T, hap.TLV_IDENTIFIER, is_sub)),
        ("sub-TLV carries PublicKey", pp.presence_edges(ctx, cfg, T, hap.TLV_PUBLIC_KEY, is_sub)),
        ("Ed25519 verify returned", [e for n in vers for e in ctx.normal_out(cfg, n)]),
    ]
    for name, edges in gates:
        ctx.must_pass("C03.G2", cfg, ret, name, edges, desc=f"part2 returns pairing data only after: {name}")
    # the gate's method is the exact comparison (its formula is C02's subject; its acceptance condition is this property's)
    from . import c02

    T2 = c02._terms(ctx)
    for q, want_desc in ((f"{c02.CLI}.verify_servers_proof_bytes", "verify_servers_proof(int(M bytes))"), (f"{c02.CLI}.verify_servers_proof", "int(H(A_b | M1 | K)) == M")):
        g = ctx.func(q)
        gcfg = ctx.cfg(q)
        rets_g = [n for n in gcfg.nodes if n.kind == "return" and n.exprs]
        got = [strip_sites(T2.of(gcfg, n, n.exprs[0])) for n in rets_g]
        K_ = c02.meth("get_session_key_bytes")
        if q.endswith("_bytes"):
            wants = [c02.meth("verify_servers_proof", c02.big(("param", g.pos_params[1])))]
        else:
            acc = c02.big(c02.meth("digest", c02.S("A_b"), c02.meth("get_proof_bytes"), K_))
            wants = [("cmp", ("Eq",), (acc, ("param", g.pos_params[1]))), ("cmp", ("Eq",), (("param", g.pos_params[1]), acc))]
        fexp = c02.make_expander(ctx, T2)
        ck.check("C03.G2", len(got) == 1 and fexp(c02._norm(got[0])) in [fexp(c02._norm(w)) for w in wants], f"the accessory-proof gate is the exact comparison: {want_desc}", f"{ctx.fkey(g)}:proof-gate-exact",
                 f"{g.name} accepts {[show(x, 200) for x in got]}: the M4 gate must accept exactly the correct proof (a suffix/prefix/length-tolerant comparison accepts proofs "
                 "from a peer that does not know the setup code)", g.loc())
    # M5 (which reveals the controller's long-term key) is sent only after the accessory proved knowledge of the code
    p = cfg.find_path(cfg.entry.id, ys[1][1].id, avoid_edges=proof_edges)
    ck.check("C03.G2", p is None, "M5 is sent only after the accessory's SRP proof verified", f"{ctx.fkey(f)}:m5-before-proof",
             "part2 sends M5 on a path where the accessory's proof was not verified", ctx.loc(f, ys[1][1]))
    # failure classes
    wrong = [e for n in cfg.nodes if n.kind == "test" for e in cfg.out_edges(n, ("F",)) if any(e2[0] == n.id for e2 in proof_edges)]
    for e in wrong:
        reach = cfg.reachable_from(e[1])
        classes = {x for (s, l, x) in cfg.xexit.pred if s in reach and l == "x"}
        ck.check("C03.G2", cfg.exit.id not in reach and classes == {"aiohomekit.exceptions.AuthenticationError"}, "a wrong accessory proof ends in AuthenticationError",
                 f"{ctx.fkey(f)}:wrong-proof-class", f"part2: a wrong accessory proof leads to {sorted(classes)} / continues: {cfg.exit.id in reach}", ctx.loc(f, cfg.nodes[e[0]]))
    for nodes, want, what in ((decs, "aiohomekit.exceptions.IllegalData", "M6 auth tag"), (vers, "aiohomekit.exceptions.InvalidSignatureError", "accessory signature")):
        for n in nodes:
            for d, l, x in n.succ:
                if l == "x":
                    reach = cfg.reachable_from(d)
                    classes = {e for (s, lab, e) in cfg.xexit.pred if s in reach and lab == "x"}
                    ck.check("C03.G2", cfg.exit.id not in reach and classes == {want}, f"a bad {what} ends in {want.rsplit('.', 1)[-1]}", f"{ctx.fkey(f)}:{what}-failure",
                             f"part2: a bad {what} leads to {sorted(classes)} / continues: {cfg.exit.id in reach}", ctx.loc(f, n))


def _t1(ctx: Context) -> None:
    ck = ctx.ck
    f, cfg, T, pin, cid, salt, spk, srp, K, skey, r0, r1, dec, ltsk, ltpk = _vocab(ctx)
    ys = pp.yield_nodes(ctx, cfg, T)
    if len(ys) != 2:
        ck.unknown("C03.T1", "part2: two yields expected", f.loc())
        return
    # SRP client fed before its values are taken
    sets = {}
    for name, want in (("set_salt", salt), ("set_server_public_key", spk)):
        ms = [(n, recv, args) for n, c, recv, args in pp.method_calls(ctx, cfg, T, name)]
        ok = len(ms) == 1 and _n(ms[0][1]) == srp and ms[0][2] == [want]
        sets[name] = ms[0][0] if ms else None
        ck.check("C03.T1", ok, f"the SRP client built from ('Pair-Setup', pin) gets {name}(<parameter>)", f"{ctx.fkey(f)}:{name}", f"part2: {name} is not called once on the SRP client with the value from M2", f.loc())
    takes = [n for meth in ("get_public_key_bytes", "get_proof_bytes", "get_session_key_bytes") for n, c, recv, args in pp.method_calls(ctx, cfg, T, meth)]
    okb = all(s is not None for s in sets.values()) and all(cfg.find_path(cfg.entry.id, t.id, avoid_nodes=[s.id]) is None for t in takes for s in sets.values() if s is not None)
    ck.check("C03.T1", okb and bool(takes), "salt and accessory key are set before any SRP value is taken", f"{ctx.fkey(f)}:srp-order", "part2 takes SRP values before the salt / accessory key were set", f.loc())
    # M3
    y0 = _n(strip_sites(T.of(cfg, ys[0][1], ys[0][2].value)))
    want_m3 = ("list", (("tuple", (const(hap.TLV_STATE), const(hap.M[3]))), ("tuple", (const(hap.TLV_PUBLIC_KEY), call(attr(srp, "get_public_key_bytes")))),
                        ("tuple", (const(hap.TLV_PROOF), call(attr(srp, "get_proof_bytes"))))))
    ck.check("C03.T1", y0[0] == "tuple" and y0[1][0] == want_m3, "M3 = [(State, M3), (PublicKey, A bytes), (Proof, M1 bytes)] of that client", f"{ctx.fkey(f)}:m3",
             f"part2: M3 is {show(y0[1][0] if y0[0] == 'tuple' else y0, 240)}", ctx.loc(f, ys[0][1]))
    # M5
    ss = pp.method_calls(ctx, cfg, T, "sign")
    if len(ss) != 1:
        ck.unknown("C03.T1", f"part2: expected one sign call, found {len(ss)}", f.loc())
        return
    sn, sc, srecv, sargs = ss[0]
    raw_recv = T.of(cfg, sn, sc.func.value)
    ck.check("C03.T1", srecv == ltsk and pp.fresh_in_function(raw_recv, f.name), "the controller's long-term key is generated inside this invocation", f"{ctx.fkey(f)}:fresh-ltsk",
             f"part2 signs with {show(srecv, 100)}: the long-term key must be a fresh Ed25519 key of this pairing", ctx.loc(f, sn))
    cid_b = call(attr(cid, "encode"))
    X = hkdf(K, *hap.HKDF_LABELS["setup-controller-sign"])
    want_info = ("add", (X, cid_b, ltpk))
    ck.check("C03.T1", len(sargs) == 1 and _n(sargs[0]) == _n(want_info), "signed iOSDeviceInfo = HKDF(K, Controller-Sign) | controller id | long-term public key", f"{ctx.fkey(f)}:m5-info",
             f"part2 signs {show(sargs[0] if sargs else ('unknown', ''), 300)}", ctx.loc(f, sn))
    sig = call(attr(ltsk, "sign"), want_info)
    want_pt = call(glob("aiohomekit.protocol.tlv.TLV.encode_list"), ("list", (("tuple", (const(hap.TLV_IDENTIFIER), cid_b)), ("tuple", (const(hap.TLV_PUBLIC_KEY), ltpk)), ("tuple", (const(hap.TLV_SIGNATURE), sig)))))
    es = [(n, recv, args) for n, c, recv, args in pp.method_calls(ctx, cfg, T, "encrypt")]
    oke = False
    enc_t = None
    for n, recv, args in es:
        if len(args) == 3 and args[1] == const(hap.NONCES["PS-Msg05"]):
            oke = _n(recv) == call(glob(f"{pp.ENC}.__init__"), skey) and args[0] == const(b"") and _n(args[2]) == _n(want_pt)
            enc_t = call(attr(_n(recv), "encrypt"), *[_n(a) for a in args])
    ck.check("C03.T1", oke, "M5 sub-TLV [Identifier, PublicKey, Signature] encrypted under HKDF(K, Encrypt labels) with nonce PS-Msg05", f"{ctx.fkey(f)}:m5-encrypt",
             "part2: the M5 sub-TLV / key / nonce differ from the specification", f.loc())
    y1 = _n(strip_sites(T.of(cfg, ys[1][1], ys[1][2].value)))
    okr = enc_t is not None and y1[0] == "tuple" and y1[1][0] == ("list", (("tuple", (const(hap.TLV_STATE), const(hap.M[5]))), ("tuple", (const(hap.TLV_ENCRYPTED_DATA), enc_t))))
    ck.check("C03.T1", okr, "M5 = [(State, M5), (EncryptedData, <that ciphertext>)]", f"{ctx.fkey(f)}:m5", "part2: the M5 request is not [State=M5, EncryptedData]", ctx.loc(f, ys[1][1]))
    # the public key sent is the public half of the signing key object (same value number)
    same = False
    for n, c, recv, args in pp.method_calls(ctx, cfg, T, "public_key"):
        if T.of(cfg, n, c.func.value) == raw_recv:
            same = True
    ck.check("C03.T1", same, "the public key sent in M5 is the public half of the very key object that signs", f"{ctx.fkey(f)}:same-key-object",
             "part2: the public key sent is not taken from the key object that signs (two different generated keys)", ctx.loc(f, sn))


def _t2(ctx: Context) -> None:
    ck = ctx.ck
    f, cfg, T, pin, cid, salt, spk, srp, K, skey, r0, r1, dec, ltsk, ltpk = _vocab(ctx)
    ds = [(n, recv, args) for n, c, recv, args in pp.method_calls(ctx, cfg, T, "decrypt")]
    okd = any(_n(call(attr(recv, "decrypt"), *args)) == _n(dec) for n, recv, args in ds)
    ck.check("C03.T2", okd, "M6 sub-TLV = decrypt under HKDF(K, Encrypt labels), nonce PS-Msg06, reply[EncryptedData]", f"{ctx.fkey(f)}:m6-decrypt",
             "part2: M6 is not decrypted under the exchange key with PS-Msg06", f.loc())
    vs = pp.method_calls(ctx, cfg, T, "verify")
    if len(vs) != 1:
        ck.unknown("C03.T2", f"part2: expected one verify call, found {len(vs)}", f.loc())
        return
    n, c, recv, args = vs[0]
    recv = _n(recv)
    okk = recv[0] == "call" and recv[1] == glob(f"{pp.ED_PUB}.from_public_bytes") and len(recv[2]) == 1 and recv[2][0][0] == "sub" and recv[2][0][2] == const(hap.TLV_PUBLIC_KEY) and _sub_tlv_ok(recv[2][0][1], _n(dec))
    ck.check("C03.T2", okk, "verify key = the long-term key the accessory presents inside the authenticated sub-TLV", f"{ctx.fkey(f)}:verify-key", f"part2 verifies with {show(recv, 200)}", ctx.loc(f, n))
    ok = False
    if len(args) == 2 and okk:
        sig, msg = _n(args[0]), _n(args[1])
        subt = recv[2][0][1]
        X = hkdf(K, *hap.HKDF_LABELS["setup-accessory-sign"])
        ok = sig == sub(subt, const(hap.TLV_SIGNATURE)) and msg == ("add", (_n(X), sub(subt, const(hap.TLV_IDENTIFIER)), sub(subt, const(hap.TLV_PUBLIC_KEY))))
    ck.check("C03.T2", ok, "verified message = HKDF(K, Accessory-Sign) | sub-TLV Identifier | sub-TLV PublicKey, signature from the sub-TLV", f"{ctx.fkey(f)}:verify-message",
             f"part2: the accessory signature is checked over {show(_n(args[1]) if len(args) == 2 else ('unknown', ''), 300)}", ctx.loc(f, n))


def _t3(ctx: Context) -> None:
    ck = ctx.ck
    f, cfg, T, pin, cid, salt, spk, srp, K, skey, r0, r1, dec, ltsk, ltpk = _vocab(ctx)
    rets = [n for n in cfg.nodes if n.kind == "return" and n.exprs]
    vs = pp.method_calls(ctx, cfg, T, "verify")
    ss = pp.method_calls(ctx, cfg, T, "sign")
    rn, rdict = ctx.deref(cfg, rets[0], rets[0].exprs[0]) if len(rets) == 1 else (None, None)
    if len(rets) != 1 or len(vs) != 1 or len(ss) != 1 or not isinstance(rdict, ast.Dict):
        ck.unknown("C03.T3", "part2: return dict / verify / sign not found", f.loc())
        return
    raw = {ctx.const(f, k, None): T.of(cfg, rn, v) for k, v in zip(rdict.keys, rdict.values) if k is not None}
    rec = {k: _n(strip_sites(v)) for k, v in raw.items()}
    vrecv = _n(vs[0][2])
    subt = vrecv[2][0][1] if vrecv[0] == "call" and vrecv[2] and vrecv[2][0][0] == "sub" else None
    want = {
        "AccessoryPairingID": call(attr(sub(subt, const(hap.TLV_IDENTIFIER)), "decode")),
        "AccessoryLTPK": call(attr(call(glob("binascii.hexlify"), sub(subt, const(hap.TLV_PUBLIC_KEY))), "decode")),
        "iOSPairingId": cid,
        "iOSDeviceLTPK": call(attr(ltpk, "hex")),
    }
    alt = {"AccessoryLTPK": call(attr(sub(subt, const(hap.TLV_PUBLIC_KEY)), "hex"))}
    for k, w in want.items():
        ck.check("C03.T3", rec.get(k) == w or rec.get(k) == alt.get(k), f"record[{k}] is the authenticated / own term", f"{ctx.fkey(f)}:record:{k}",
                 f"part2 returns {k} = {show(rec.get(k, ('unknown', 'missing')), 200)}", ctx.loc(f, rn))
    ck.check("C03.T3", set(rec) == {"AccessoryPairingID", "AccessoryLTPK", "iOSPairingId", "iOSDeviceLTSK", "iOSDeviceLTPK"}, "the record has exactly the five pairing fields",
             f"{ctx.fkey(f)}:record-keys", f"part2 returns keys {sorted(map(str, rec))}", ctx.loc(f, rn))
    # LTSK: private bytes (raw, unencrypted) of the SAME key object (value number) that signed and whose public half was sent
    sign_recv_raw = T.of(cfg, ss[0][0], ss[0][1].func.value)
    lt = raw.get("iOSDeviceLTSK", ("unknown", ""))
    ok = False
    if lt[0] == "call" and lt[1][0] == "attr" and lt[1][2] == "hex":
        pb = lt[1][1]
        if pb[0] == "call" and pb[1][0] == "attr" and pb[1][2] == "private_bytes":
            kw = dict(strip_sites(pb)[3])
            ok = pb[1][1] == sign_recv_raw and kw.get("encoding") == glob("cryptography.hazmat.primitives.serialization.Encoding.Raw") and kw.get("format") == glob(
                "cryptography.hazmat.primitives.serialization.PrivateFormat.Raw") and kw.get("encryption_algorithm") == call(glob("cryptography.hazmat.primitives.serialization.NoEncryption"))
    ck.check("C03.T3", ok, "record[iOSDeviceLTSK] = raw private bytes of the very key object that signed M5", f"{ctx.fkey(f)}:record:iOSDeviceLTSK",
             f"part2 returns iOSDeviceLTSK = {show(strip_sites(lt), 200)}: it must be the private half of the key whose public half was sent and stored", ctx.loc(f, rn))
    ltpk_raw = raw.get("iOSDeviceLTPK", ("unknown", ""))
    okp = contains(ltpk_raw, lambda s: s == sign_recv_raw)
    ck.check("C03.T3", okp, "record[iOSDeviceLTPK] is the public half of that same key object", f"{ctx.fkey(f)}:record:ltpk-object",
             "part2: the stored public key does not belong to the stored private key", ctx.loc(f, rn))


DRIVERS = [
    "aiohomekit.controller.ip.discovery.IpDiscovery.async_start_pairing",
    "aiohomekit.controller.ip.discovery.IpDiscovery.async_start_pairing.<locals>.finish_pairing",
    "aiohomekit.controller.coap.connection.CoAPHomeKitConnection.do_pair_setup",
    "aiohomekit.controller.coap.connection.CoAPHomeKitConnection.do_pair_setup_finish",
]


def _x1(ctx: Context) -> None:
    ck = ctx.ck
    n = 0
    for q in DRIVERS:
        cls = "aiohomekit.controller.ip.pairing.IpPairing" if q.endswith("finish_pairing") else None
        n += driver_check(ctx, "C03.X1", q, cls)
    ck.require_min("C03.X1", "pair-setup drivers with their own send loop", n, 4)
    # which generator each driver runs, with which arguments
    T = ctx.terms
    exp = {
        DRIVERS[0]: P1, DRIVERS[1]: P2, DRIVERS[2]: P1, DRIVERS[3]: P2,
        "aiohomekit.controller.ble.discovery.BleDiscovery._async_start_pairing": P1,
        "aiohomekit.controller.ble.discovery.BleDiscovery.async_start_pairing.<locals>.finish_pairing": P2,
    }
    for q, gen in exp.items():
        f = ctx.func(q)
        found = [x for x in walk_own(f.node) if isinstance(x, ast.Call) and ctx.resolve_name(f, x.func) == gen]
        ck.check("C03.X1", len(found) == 1, f"{q.split('.', 1)[1]}: drives {gen.rsplit('.', 1)[-1]}", f"{ctx.fkey(f)}:generator", f"{q}: does not drive {gen.rsplit('.', 1)[-1]} exactly once", f.loc())
        if found and gen == P2:
            # salt / accessory key come from part 1's result, in this order (arguments 3 and 4)
            a = found[0].args
            names = [ast.unparse(x) for x in a[2:4]] if len(a) >= 4 else []
            ck.check("C03.X1", len(names) == 2 and names[0] != names[1], f"{q.split('.', 1)[1]}: part 2 receives (salt, accessory key) of part 1", f"{ctx.fkey(f)}:part2-args",
                     f"{q}: part 2 is called with {names}", f.loc())
    # BLE: the pairing record is what the shared driver returned for part 2
    q = "aiohomekit.controller.ble.discovery.BleDiscovery.async_start_pairing.<locals>.finish_pairing"
    f = ctx.func(q)
    cfg = ctx.cfg(q)
    okb = False
    for nd in cfg.nodes:
        for c in ctx.calls(nd):
            if (ctx.resolve_name(f, c.func) or "").endswith("ble.pairing.BlePairing") and len(c.args) >= 2:
                t = T.of(cfg, nd, c.args[1])
                okb = contains(t, lambda s: s[0] == "await" and contains(s, lambda z: z[0] == "glob" and z[1].endswith("drive_pairing_state_machine")))
    ck.check("C03.X1", okb, "BLE: the pairing is built from the value awaited from drive_pairing_state_machine", f"{ctx.fkey(f)}:ble-record",
             "BLE finish_pairing builds the pairing from something other than the finished state machine's result", f.loc())
    # unpack order of part 1's result at the drivers: salt first
    for q in (DRIVERS[0], DRIVERS[2]):
        f = ctx.func(q)
        oku = False
        ucfg = ctx.cfg(q)

        def _is_stop_value(t) -> bool:
            if t[0] == "phi":
                return all(_is_stop_value(a) for a in t[1])
            if t[0] == "await":
                return _is_stop_value(t[1])
            return t[0] == "attr" and t[2] == "value" and t[1][0] == "caught" and any(str(c).endswith("StopIteration") for c in t[1][1])

        for nd in ucfg.nodes:
            x = nd.ast
            if nd.kind == "stmt" and type(x) is ast.Assign and isinstance(x.targets[0], ast.Tuple) and len(x.targets[0].elts) == 2:
                # by value: the unpacked object is the caught StopIteration's value, through any temporaries / helper
                if _is_stop_value(strip_sites(T.of(ucfg, nd, x.value))):
                    oku = True
        ck.check("C03.X1", oku, f"{q.split('.', 1)[1]}: unpacks (salt, key) from the StopIteration value", f"{ctx.fkey(f)}:unpack", f"{q}: result of part 1 is not unpacked from StopIteration.value", f.loc())


MANIFEST = {
    "technique": "CFG must-pass-through with gates as edges (4 + 12 + drivers), provenance terms with value numbering (same key object) matched "
    "against HAP 5.6 patterns, constant tables from the specification",
    "level_text": "Static, all paths: decides that pairing data is returned only through every authentication gate (SRP proof true-outcome, "
    "AEAD decrypt, field presence, Ed25519 verify; failures can only raise with the documented class), the exact transcripts of "
    "M5/M6 and their keys/nonces, that the returned record consists of the authenticated terms and of the two halves of one key "
    "object, and that the three transports' drivers build a pairing only from a finished state machine. Bit-level behaviour "
    "of the primitives is delegated to them.",
    "level_note": "Trusted: cryptography, ChaCha20-Poly1305, the SRP arithmetic (decided separately in C02), TLV decoding (C15). That a conformant "
    "accessory accepts M3/M5 is decided only as shape/label agreement with the specification.",
}

TWIN_FILES = [
    "aiohomekit/protocol/__init__.py",
    "aiohomekit/controller/ip/discovery.py",
    "aiohomekit/controller/ble/discovery.py",
    "aiohomekit/controller/coap/connection.py",
]
_PF = "aiohomekit/protocol/__init__.py"
VARIANTS = [
    {"name": "K hashed over the unpadded S (leading-zero sessions differ from a conformant accessory)", "file": "aiohomekit/crypto/srp.py", "old": "        return pad_left(Srp.to_byte_array(self.get_shared_secret()), HK_KEY_LENGTH)", "new": "        return bytes(Srp.to_byte_array(self.get_shared_secret()))", "expect": "C03.K1"},
    {"name": "session key cached from the raw S bytes", "file": "aiohomekit/crypto/srp.py", "old": "self._session_key = self.digest(self.get_shared_secret_bytes())", "new": "self._session_key = self.get_shared_secret_bytes()", "expect": "C03.K1"},
    {"name": "SRP proof check deleted", "file": _PF, "old": "    if not srp_client.verify_servers_proof_bytes(response_tlv[TLV.kTLVType_Proof]):\n        raise AuthenticationError(\"Step #5: wrong proof!\")\n", "new": "", "expect": "C03.G2"},
    {"name": "SRP proof check inverted", "file": _PF, "old": "    if not srp_client.verify_servers_proof_bytes(response_tlv[TLV.kTLVType_Proof]):", "new": "    if srp_client.verify_servers_proof_bytes(response_tlv[TLV.kTLVType_Proof]):", "expect": "C03.G2"},
    {"name": "M6 decrypt failure ignored", "file": _PF, "old": "    except DecryptionError:\n        raise IllegalData(\"step 7\")", "new": "    except DecryptionError:\n        decrypted_data = b\"\"", "expect": "C03.G2"},
    {"name": "M6 signature failure only logged", "file": _PF, "old": "    except cryptography_exceptions.InvalidSignature:\n        raise InvalidSignatureError(\"step #7\")", "new": "    except cryptography_exceptions.InvalidSignature:\n        logger.debug(\"bad signature\")", "expect": "C03.G2"},
    {"name": "M6 step check removed", "file": _PF, "old": "    response_tlv = dict(response_tlv)\n    handle_state_step(response_tlv, TLV.M6)\n", "new": "    response_tlv = dict(response_tlv)\n", "expect": ["C03.G2", "C03.T2"]},
    {"name": "part1 does not require the salt", "file": _PF, "old": "    if TLV.kTLVType_Salt not in response_tlv:\n        raise InvalidError(\"M2: Accessory did not send salt\")\n", "new": "", "expect": "C03.G1"},
    {"name": "part1 returns (key, salt)", "file": _PF, "old": "    return response_tlv[TLV.kTLVType_Salt], response_tlv[TLV.kTLVType_PublicKey]", "new": "    return response_tlv[TLV.kTLVType_PublicKey], response_tlv[TLV.kTLVType_Salt]", "expect": "C03.G1"},
    {"name": "controller-sign labels swapped with encrypt labels", "file": _PF,
     "old": "        b\"Pair-Setup-Controller-Sign-Salt\",\n        b\"Pair-Setup-Controller-Sign-Info\",", "new": "        b\"Pair-Setup-Encrypt-Salt\",\n        b\"Pair-Setup-Encrypt-Info\",", "expect": "C03.T1"},
    {"name": "iOSDeviceInfo without the controller id", "file": _PF, "old": "    ios_device_info = ios_device_x + ios_device_pairing_id + ios_device_public_bytes", "new": "    ios_device_info = ios_device_x + ios_device_public_bytes", "expect": "C03.T1"},
    {"name": "PS-Msg06 used for M5", "file": _PF, "old": "        b\"\", NONCE_PADDING + b\"PS-Msg05\", bytes(sub_tlv_b)", "new": "        b\"\", NONCE_PADDING + b\"PS-Msg06\", bytes(sub_tlv_b)", "expect": "C03.T1"},
    {"name": "signature made with a second generated key", "file": _PF, "old": "    ios_device_signature = ios_device_ltsk.sign(ios_device_info)", "new": "    ios_device_signature = ed25519.Ed25519PrivateKey.generate().sign(ios_device_info)", "expect": ["C03.T1", "C03.T3"]},
    {"name": "PS-Msg05 used for decrypting M6", "file": _PF, "old": "            NONCE_PADDING + b\"PS-Msg06\",", "new": "            NONCE_PADDING + b\"PS-Msg05\",", "expect": ["C03.T2", "C03.G2"]},
    {"name": "accessory info in the wrong order", "file": _PF, "old": "    accessory_info = accessory_x + accessory_pairing_id + accessory_ltpk", "new": "    accessory_info = accessory_x + accessory_ltpk + accessory_pairing_id", "expect": "C03.T2"},
    {"name": "accessory-sign labels replaced by controller-sign labels", "file": _PF, "old": "        b\"Pair-Setup-Accessory-Sign-Salt\",\n        b\"Pair-Setup-Accessory-Sign-Info\",", "new": "        b\"Pair-Setup-Controller-Sign-Salt\",\n        b\"Pair-Setup-Controller-Sign-Info\",", "expect": "C03.T2"},
    {"name": "private bytes of a different key stored", "file": _PF, "old": "    ios_device_ltsk_private_bytes = ios_device_ltsk.private_bytes(", "new": "    ios_device_ltsk_private_bytes = ed25519.Ed25519PrivateKey.generate().private_bytes(", "expect": "C03.T3"},
    {"name": "identifier of the outer (unauthenticated) TLV stored", "file": _PF,
     "old": "    response_tlv = TLV.decode_bytearray(bytearray(decrypted_data))\n    response_tlv = dict(response_tlv)\n", "new": "    outer_tlv = response_tlv\n    response_tlv = TLV.decode_bytearray(bytearray(decrypted_data))\n    response_tlv = dict(response_tlv)\n",
     "expect": []},
    {"name": "stored accessory key taken from the M2 SRP key parameter", "file": _PF, "old": "        \"AccessoryLTPK\": hexlify(accessory_ltpk).decode(),", "new": "        \"AccessoryLTPK\": hexlify(server_public_key).decode(),", "expect": "C03.T3"},
    {"name": "IP driver swallows protocol errors in part 2", "file": "aiohomekit/controller/ip/discovery.py",
     "old": "                    pairing = result.value\n                    break\n", "new": "                    pairing = result.value\n                    break\n                except Exception:\n                    pairing = {}\n                    break\n", "expect": "C03.X1"},
    {"name": "CoAP part-1 driver continues after an error", "file": "aiohomekit/controller/coap/connection.py",
     "old": "                logger.debug(\"Pair setup 1/2 failed!\")\n                await self.pair_setup_client.shutdown()\n                raise", "new": "                logger.debug(\"Pair setup 1/2 failed!\")\n                await self.pair_setup_client.shutdown()\n                return None, None", "expect": "C03.X1"},
]
VARIANTS = [v for v in VARIANTS if v["expect"]]
