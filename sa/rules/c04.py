"""C04  An accessory error or out-of-sequence reply never completes as success."""

from __future__ import annotations

import ast

from ..engine.context import Context, compare_parts, is_membership
from ..engine.loader import dotted, walk_expr
from ..engine.report import norm_stmt
from ..engine.terms import contains, show, strip_sites, subterms
from ..spec.hap import ERROR_TABLE, ERROR_DEFAULT, TLV_ERROR, TLV_STATE, M

PROPERTY = "C04"
EXPLANATION = (
    "Static gate/decision-table analysis of the pairing error handling: (G1) in handle_state_step every path to a "
    "normal exit passes the error-TLV test on its 'absent' outcome and the 'present' outcome can only raise; "
    "a present-but-wrong state can only raise InvalidError; (G2) error_handler has no normal exit; (K1) the "
    "code->exception decision table, obtained by constant-propagating each error code through error_handler's CFG, "
    "equals the HAP table; (G3) after every yield of the three pairing generators, handle_state_step(reply, M(k+1)) "
    "is passed before the reply is read and before the next yield/return; (G4) add/remove pairing on IP and BLE "
    "reach a normal exit only through the state test and the error test, whose failing outcomes can only raise "
    "library errors; (G5) the filter through which the IP and CoAP transports decode a reply cannot hide the State or "
    "Error item: every list of expected items yielded by the generators names both, and the decoder skips an item outside "
    "the list instead of ending the parse (leaving the loop on that outcome only under a test on the remaining length). Quantifier covered: all CFG paths / all exits / all codes 0x00-0xff - not sampled inputs."
)
TRUSTED = ["TLV byte decoding itself (C15)"]

P = "aiohomekit.protocol"
HK_EXC = "aiohomekit.exceptions.HomeKitException"

GENERATORS = [
    (f"{P}.perform_pair_setup_part1", [1]),
    (f"{P}.perform_pair_setup_part2", [3, 5]),
    (f"{P}.get_session_keys", [1, 3]),
]
PAIRING_MGMT = [
    "aiohomekit.controller.ip.pairing.IpPairing.add_pairing",
    "aiohomekit.controller.ip.pairing.IpPairing.remove_pairing",
    "aiohomekit.controller.ble.pairing.BlePairing.add_pairing",
    "aiohomekit.controller.ble.pairing.BlePairing.remove_pairing",
]


def reach_all(cfg, start: int) -> set[int]:
    return cfg.reachable_from(start)


def branch_always_raises(cfg, edge) -> tuple[bool, set[str]]:
    """All paths continuing over ``edge`` end in an exception leaving the function."""
    _s, dst, _l, _e = edge
    reach = cfg.reachable_from(dst)
    ok = cfg.exit.id not in reach
    classes = set()
    for src, lab, exc in cfg.xexit.pred:
        if src in reach and lab == "x":
            classes.add(exc)
    return ok, classes


def error_tests(ctx: Context, cfg, container_ok=None):
    """Test nodes that ask whether the error TLV is present -> [(node, present_label, absent_label)]."""
    out = []
    for n in cfg.nodes:
        if n.kind != "test":
            continue
        e = n.exprs[0]
        m = is_membership(e)
        if m is not None:
            k, d, positive = m
            if ctx.const(cfg.func, k) == TLV_ERROR:
                if container_ok is None or container_ok(n, d):
                    out.append((n, "T" if positive else "F", "F" if positive else "T"))
                continue
        # truthiness / None test of d.get(Error)
        t = ctx.terms.of(cfg, n, e)
        pos = None
        if t[0] == "cmp" and len(t[1]) == 1 and t[1][0] in ("IsNot", "Is") and t[2][1] == ("const", None):
            inner = t[2][0]
            pos = t[1][0] == "IsNot"
        else:
            inner = t
            pos = True
        if (
            inner[0] == "call"
            and inner[1][0] == "attr"
            and inner[1][2] == "get"
            and inner[2]
            and inner[2][0] == ("const", TLV_ERROR)
        ):
            out.append((n, "T" if pos else "F", "F" if pos else "T"))
    return out


def is_state_get(t, default=None) -> bool:
    """term is  <dict>.get(kTLVType_State[, default])  or <dict>[kTLVType_State]"""
    if t[0] == "call" and t[1][0] == "attr" and t[1][2] == "get" and t[2] and t[2][0] == ("const", TLV_STATE):
        if len(t[2]) == 1:
            return True
        return default is not None and t[2][1] == ("const", default)
    if t[0] == "sub" and t[2] == ("const", TLV_STATE):
        return True
    return False


def run(ctx: Context) -> None:
    ck = ctx.ck
    prog = ctx.prog

    # ------------------------------------------------------------------ G2
    if ck.rule("C04.G2", "error_handler has no normal exit"):
        f = ctx.func(f"{P}.error_handler")
        cfg = ctx.cfg(f.qualname)
        path = cfg.find_path(cfg.entry.id, cfg.exit.id)
        ck.check(
            "C04.G2",
            path is None,
            "error_handler: no path from entry to a normal exit",
            f"{ctx.fkey(f)}:normal-exit",
            "error_handler can return normally: an error code would then complete as success",
            f.loc(),
            cfg.render_path(path) if path else None,
        )

    # ------------------------------------------------------------------ K1
    if ck.rule("C04.K1", "error code -> exception decision table equals the HAP table"):
        _decision_table(ctx)

    # ------------------------------------------------------------------ G1
    if ck.rule("C04.G1", "handle_state_step: error test on every normal exit; wrong state raises InvalidError"):
        f = ctx.func(f"{P}.handle_state_step")
        cfg = ctx.cfg(f.qualname)
        params = f.pos_params
        if len(params) < 2:
            ck.unknown("C04.G1", "handle_state_step no longer has (tlv_dict, expected_state) parameters", f.loc())
        else:
            tests = error_tests(ctx, cfg)
            absent_edges = []
            for n, present, absent in tests:
                absent_edges += ctx.edges(cfg, n, absent)
            ctx.must_pass("C04.G1", cfg, cfg.exit, "error-TLV test [absent outcome]", absent_edges)
            for n, present, absent in tests:
                for e in ctx.edges(cfg, n, present):
                    ok, classes = branch_always_raises(cfg, e)
                    ck.check(
                        "C04.G1",
                        ok,
                        "handle_state_step: the error-present outcome can only raise",
                        f"{ctx.fkey(f)}:error-present-falls-through",
                        "handle_state_step: with an error TLV present a normal exit is reachable",
                        ctx.loc(f, n),
                        cfg.render_path(cfg.find_path(e[1], cfg.exit.id) or []),
                    )
                    # the handler must be given the error value of the same reply
                    hs = [
                        (hn, c)
                        for hn, c in ctx.nodes_calling_name(cfg, "error_handler")
                        if hn.id in cfg.reachable_from(e[1]) | {e[1]}
                    ]
                    good = False
                    for hn, c in hs:
                        if c.args:
                            t = ctx.terms.of(cfg, hn, c.args[0])
                            if t[0] == "sub" and t[1] == ("param", params[0]) and t[2] == ("const", TLV_ERROR):
                                good = True
                            if t[0] == "call" and t[1] == ("attr", ("param", params[0]), "get") and t[2][:1] == (("const", TLV_ERROR),):
                                good = True
                    ck.check(
                        "C04.G1",
                        good,
                        "handle_state_step: error_handler receives the reply's own error value",
                        f"{ctx.fkey(f)}:error-handler-arg",
                        "handle_state_step: the error-present outcome does not hand the reply's error value to error_handler",
                        ctx.loc(f, n),
                    )
            # state test
            pass_edges = []
            mismatch_edges = []
            for n in cfg.nodes:
                if n.kind != "test":
                    continue
                t = ctx.terms.of(cfg, n, n.exprs[0])
                if t[0] != "cmp" or len(t[1]) != 1:
                    continue
                op, (l, r) = t[1][0], t[2]

                def _sv(x_):
                    # the state item, or "the state item or None" (`try: s = d[State] except KeyError: s = None`, `d[State] if State in d else None`)
                    if x_[0] == "phi":
                        rest_ = [a_ for a_ in x_[1] if a_ != ("const", None)]
                        return rest_[0] if len(rest_) == 1 else x_
                    return x_

                l, r = _sv(l), _sv(r)
                if op in ("Is", "IsNot") and r == ("const", None) and is_state_get(l):
                    # a missing state is tolerated (documented quirk): that outcome passes
                    pass_edges += ctx.edges(cfg, n, "T" if op == "Is" else "F")
                    continue
                if op in ("In", "NotIn") and l == ("const", TLV_STATE):
                    # `State not in reply` [absent]: the same tolerated outcome, asked as a membership test
                    pass_edges += ctx.edges(cfg, n, "T" if op == "NotIn" else "F")
                    continue
                exp = ("param", params[1])
                if op in ("NotEq", "Eq") and (
                    (is_state_get(l) and r == exp) or (is_state_get(r) and l == exp)
                ):
                    pass_edges += ctx.edges(cfg, n, "F" if op == "NotEq" else "T")
                    mismatch_edges += ctx.edges(cfg, n, "T" if op == "NotEq" else "F")
            ctx.must_pass("C04.G1", cfg, cfg.exit, "state test [match-or-missing outcome]", pass_edges)
            for e in mismatch_edges:
                ok, classes = branch_always_raises(cfg, e)
                ck.check(
                    "C04.G1",
                    ok and classes == {"aiohomekit.exceptions.InvalidError"},
                    "handle_state_step: a present but unexpected state raises InvalidError",
                    f"{ctx.fkey(f)}:wrong-state-class",
                    f"handle_state_step: unexpected state does not always raise InvalidError (raises {sorted(classes)}, falls through: {not ok})",
                    ctx.loc(f, cfg.nodes[e[0]]),
                )
            if not mismatch_edges:
                ck.violated(
                    "C04.G1",
                    f"{ctx.fkey(f)}:no-state-comparison",
                    "handle_state_step: no comparison of the reply's state with the expected state",
                    f.loc(),
                )

    # ------------------------------------------------------------------ G3
    if ck.rule("C04.G3", "a step check follows every yield of the pairing generators"):
        sites = 0
        for q, steps in GENERATORS:
            sites += _step_checks(ctx, q, steps)
        ck.require_min("C04.G3", "yield sites followed by a step check", sites, 5)

    # ------------------------------------------------------------------ G4
    if ck.rule("C04.G4", "add/remove pairing: state and error tests gate every normal exit"):
        n = 0
        for q in PAIRING_MGMT:
            n += _pairing_mgmt(ctx, q)
        ck.require_min("C04.G4", "pairing-management functions", n, 4)

    # ------------------------------------------------------------------ G5
    if ck.rule("C04.G5", "the reply filter cannot hide the state or the error item"):
        _reply_filter(ctx)


# ---------------------------------------------------------------------- G5
DECODER = "aiohomekit.protocol.tlv.TLV.decode_bytearray"


def _reply_filter(ctx: Context) -> None:
    """The transports decode a reply with the list of item types the generator *expects* (yielded next to the request).
    Whatever the reply carries, its State and Error items must survive that filter, otherwise handle_state_step never
    sees them: (a) every yielded list names State and Error; (b) an item outside the list does not end the parse -
    the items behind it (an Error, a State) are still decoded."""
    ck = ctx.ck
    T = ctx.terms
    n_lists = 0
    for q, steps in GENERATORS:
        f = ctx.func(q)
        cfg = ctx.cfg(q)
        for n in cfg.nodes:
            for e in n.exprs:
                if e is None:
                    continue
                for y in walk_expr(e):
                    if not isinstance(y, ast.Yield) or y.value is None:
                        continue
                    dn, tv = ctx.deref(cfg, n, y.value)
                    if not (isinstance(tv, ast.Tuple) and len(tv.elts) == 2):
                        continue  # a generator that yields no filter is decoded unfiltered
                    ln, lv = ctx.deref(cfg, dn, tv.elts[1])
                    if isinstance(lv, ast.Constant) and lv.value is None:
                        continue
                    ordinal = T.yield_ordinal(f, y)
                    if not isinstance(lv, (ast.List, ast.Tuple, ast.Set)):
                        ck.unknown("C04.G5", f"{f.name}: the filter yielded at yield #{ordinal} is not a literal list", ctx.loc(f, n))
                        continue
                    vals = set()
                    for el in lv.elts:
                        try:
                            vals.add(ctx.const(f, el))
                        except Exception:  # noqa: BLE001
                            vals.add(None)
                    n_lists += 1
                    missing = [nm for nm, v in (("State", TLV_STATE), ("Error", TLV_ERROR)) if v not in vals]
                    ck.check(
                        "C04.G5",
                        not missing,
                        f"{f.name}: the reply filter of yield #{ordinal} names State and Error",
                        f"{ctx.fkey(f)}:yield{ordinal}:filter",
                        f"{f.name}: the list of expected reply items yielded at yield #{ordinal} lacks {' and '.join(missing)}: the IP and CoAP "
                        f"transports decode the reply through this filter, so an accessory's {' / '.join(missing)} item never reaches "
                        "handle_state_step - an error reply fails with the wrong exception class (or not at all)",
                        ctx.loc(f, ln),
                    )
    ck.require_min("C04.G5", "reply filters yielded by the pairing generators", n_lists, 5)
    # (b) the decoder
    f = ctx.func(DECODER)
    cfg = ctx.cfg(DECODER)
    if len(f.pos_params) < 2:
        ck.holds("C04.G5", "decode_bytearray takes no filter any more: every reply is decoded completely", f.loc())
        return
    flt = f.pos_params[1]
    tests = []
    for n in cfg.nodes:
        if n.kind != "test":
            continue
        m = is_membership(n.exprs[0])
        if m is not None and isinstance(m[1], ast.Name) and m[1].id == flt:
            tests.append((n, "F" if m[2] else "T"))  # the outcome `item type not in the filter`
    if not tests:
        uses = [x for n in cfg.nodes for e in n.exprs if e is not None for x in walk_expr(e) if isinstance(x, ast.Name) and x.id == flt]
        if uses:
            ck.unknown("C04.G5", f"decode_bytearray uses its filter `{flt}` in a way that is not a membership test", f.loc())
        else:
            ck.holds("C04.G5", "decode_bytearray ignores its filter: every reply is decoded completely", f.loc())
        return
    for n, lab in tests:
        loops = [fr[1] for fr in n.frames if fr[0] == "loop" and fr[2] == "body"]
        heads = [h.id for h in cfg.nodes if h.kind in ("loop_head", "for") and loops and h.ast is loops[-1]]
        if not heads:
            ck.unknown("C04.G5", "decode_bytearray: the filter test is not inside the item loop", ctx.loc(f, n))
            continue
        # leaving the loop on the unwanted outcome is acceptable only under a test on what is left of the buffer
        # (a truncated unwanted item has nothing behind it); whether that arithmetic is right is C15's business
        length_edges = []
        for tn in cfg.nodes:
            if tn.kind != "test":
                continue
            # by value: `end = len(data)` held in a local is the same test
            if any(isinstance(x, ast.Call) and isinstance(x.func, ast.Name) and x.func.id == "len" for x in walk_expr(tn.exprs[0])) or contains(
                    ctx.terms.of(cfg, tn, tn.exprs[0]), lambda s_: s_[0] == "call" and s_[1] == ("glob", "len")):
                length_edges += cfg.out_edges(tn, ("T", "F"))
        bad = None
        back = False
        for e in ctx.edges(cfg, n, lab):
            p = cfg.find_path(e[1], {cfg.exit.id}, avoid_nodes=heads, avoid_edges=length_edges)
            if p is not None:
                bad = p
            back |= any(cfg.find_path(e[1], {h}) is not None for h in heads)
        if bad is None and not back:
            bad = []
        ck.check(
            "C04.G5",
            bad is None,
            "decode_bytearray: an item outside the filter is skipped, the items behind it are still decoded",
            f"{ctx.fkey(f)}:filter-ends-parse",
            "TLV.decode_bytearray stops decoding at the first item whose type is not in the filter: a State or Error item "
            "behind it is dropped, so `[<other item>, State, Error]` decodes to nothing and the step completes as success",
            ctx.loc(f, n),
            cfg.render_path(bad) if bad else None,
        )


# ---------------------------------------------------------------------- K1
def _decision_table(ctx: Context) -> None:
    ck = ctx.ck
    f = ctx.func(f"{P}.error_handler")
    cfg = ctx.cfg(f.qualname)
    if not f.pos_params:
        ck.unknown("C04.K1", "error_handler has no parameter", f.loc())
        return
    pname = f.pos_params[0]
    table: dict[int, str] = {}
    for code in range(256):
        val = bytes([code])
        cur = cfg.entry.id
        steps = 0
        result = None
        env: dict = {}  # locals bound to constants / classes by a loop over a module-level table
        iters: dict = {}  # for-statement -> remaining rows
        while steps < 2000:
            steps += 1
            n = cfg.nodes[cur]
            if n.kind == "raise":
                classes = [exc for (_d, l, exc) in n.succ if l == "x"]
                rx = n.ast.exc.func if isinstance(n.ast.exc, ast.Call) else n.ast.exc
                if isinstance(rx, ast.Name) and rx.id in env and env[rx.id][0] == "cls":
                    classes = [env[rx.id][1]]
                result = classes[0] if len(classes) == 1 else "|".join(sorted(classes))
                break
            if n.kind == "for_iter":
                rows = _table_rows(ctx, cfg.func, n.ast.iter)
                if rows is None:
                    result = None
                    break
                iters[id(n.ast)] = list(rows)
            if n.kind == "for":
                rows = iters.get(id(n.ast))
                if rows is None:
                    result = None
                    break
                if rows:
                    row = rows.pop(0)
                    tg = n.ast.target
                    names = [tg] if isinstance(tg, ast.Name) else list(tg.elts) if isinstance(tg, (ast.Tuple, ast.List)) else None
                    if names is None or not all(isinstance(x, ast.Name) for x in names) or len(names) != len(row):
                        result = None
                        break
                    for x, v in zip(names, row):
                        env[x.id] = v
                    want = "T"
                else:
                    want = "F"
                nxt = [d for (d, l, _e) in n.succ if l == want]
                if not nxt:
                    result = None
                    break
                cur = nxt[0]
                continue
            if n.kind == "exit":
                result = "<returns>"
                break
            if n.kind == "test":
                v = _eval_test(ctx, cfg, n, pname, val, env)
                if v is None:
                    result = None
                    break
                want = "T" if v else "F"
                nxt = [d for (d, l, _e) in n.succ if l == want]
                if not nxt:
                    result = None
                    break
                cur = nxt[0]
                continue
            if n.kind == "stmt" and type(n.ast) is ast.Assign and len(n.ast.targets) == 1:
                # one row of a table loop the loader spelled out: `code, exc = (K, SomeError)`  (or `x = K`)
                tg = n.ast.targets[0]
                names = [tg] if isinstance(tg, ast.Name) else list(tg.elts) if isinstance(tg, (ast.Tuple, ast.List)) else []
                if len(names) == 1 and isinstance(n.ast.value, ast.Name) and n.ast.value.id in env:
                    cells = (env[n.ast.value.id],)  # a copy of a local that already holds a constant / class
                else:
                    cells = _row_cells(ctx, cfg.func.module, n.ast.value if len(names) > 1 else ast.Tuple(elts=[n.ast.value], ctx=ast.Load()))
                if names and all(isinstance(x, ast.Name) for x in names):
                    if cells is not None and len(cells) == len(names):
                        for x, v in zip(names, cells):
                            env[x.id] = v
                    else:
                        for x in names:
                            env.pop(x.id, None)
            nxt = [d for (d, l, _e) in n.succ if l in ("n",)]
            if len(nxt) != 1:
                result = None
                break
            cur = nxt[0]
        if result is None:
            ck.unknown("C04.K1", f"cannot constant-propagate error code {code:#04x} through error_handler", f.loc())
            return
        table[code] = result
    bad = []
    for code in range(256):
        want = ERROR_TABLE.get(code, ERROR_DEFAULT)
        got = table[code]
        if got != "aiohomekit.exceptions." + want:
            bad.append((code, want, got))
    for code in sorted(set(ERROR_TABLE) | {0, 1, 8, 255}):
        want = ERROR_TABLE.get(code, ERROR_DEFAULT)
        ck.check(
            "C04.K1",
            not any(b[0] == code for b in bad),
            f"error code {code:#04x} -> {want}",
            f"{ctx.fkey(f)}:code-{code:#04x}",
            f"error_handler maps code {code:#04x} to {table[code].rsplit('.', 1)[-1]}, the HAP table says {want}",
            f.loc(),
        )
    others = [b for b in bad if b[0] not in ERROR_TABLE and b[0] not in (0, 1, 8, 255)]
    ck.check(
        "C04.K1",
        not others,
        "all 256 one-byte codes: unlisted codes map to InvalidError",
        f"{ctx.fkey(f)}:default-row",
        f"error_handler maps unlisted codes {[hex(b[0]) for b in others[:8]]} to something other than {ERROR_DEFAULT}",
        f.loc(),
    )
    # every class is a library error
    for cls in sorted(set(table.values())):
        ck.check(
            "C04.K1",
            ctx.prog.is_subclass(cls, HK_EXC),
            f"{cls.rsplit('.', 1)[-1]} derives from HomeKitException",
            f"{ctx.fkey(f)}:class-{cls}",
            f"error_handler raises {cls}, which is not a HomeKitException",
            f.loc(),
        )


def _table_rows(ctx: Context, f, it: ast.AST):
    """Rows of a module-level tuple/list literal (each row a tuple of ('c', constant) / ('cls', qualname) cells) or None."""
    d = dotted(it)
    if d is None:
        return None
    r = ctx.prog.resolve_dotted(f.module, d)
    parts = r.rsplit(".", 1)
    if not (len(parts) == 2 and parts[0] in ctx.prog.modules and parts[1] in ctx.prog.modules[parts[0]].assigns):
        return None
    lits = ctx.prog.modules[parts[0]].assigns[parts[1]]
    if len(lits) != 1 or not isinstance(lits[0], (ast.Tuple, ast.List)):
        return None
    m = ctx.prog.modules[parts[0]]
    rows = []
    for row in lits[0].elts:
        cells = _row_cells(ctx, m, row)
        if cells is None:
            return None
        rows.append(cells)
    return rows


def _row_cells(ctx: Context, m, row: ast.AST):
    """One table row as a tuple of ('c', constant) / ('cls', qualname) cells, or None."""
    cells = []
    for cell in (row.elts if isinstance(row, (ast.Tuple, ast.List)) else [row]):
        dd = dotted(cell)
        rr = ctx.prog.resolve_dotted(m, dd) if dd else None
        if rr and (rr in ctx.prog.classes or ctx.prog.known_class(rr)):
            cells.append(("cls", rr))
            continue
        try:
            c = ctx.prog.eval_const(cell, m, None)
        except Exception:  # noqa: BLE001
            return None
        cells.append(("c", bytes(c) if isinstance(c, bytearray) else c))
    return tuple(cells)


def _eval_test(ctx: Context, cfg, n, pname: str, val: bytes, env=None):
    e = n.exprs[0]
    cp = compare_parts(e)
    if cp is None:
        return None
    l, op, r = cp
    env = env or {}

    def side(x):
        if isinstance(x, ast.Name) and x.id == pname:
            return ("p", None)
        if isinstance(x, ast.Name) and x.id in env and env[x.id][0] == "c":
            return ("c", env[x.id][1])
        if isinstance(x, ast.Call) and len(x.args) == 1 and isinstance(x.func, ast.Name) and x.func.id in ("bytes", "bytearray"):
            return side(x.args[0])
        c = ctx.const(cfg.func, x, default=_NC)
        if c is _NC:
            return None
        if isinstance(c, bytearray):
            c = bytes(c)
        return ("c", c)

    ls, rs = side(l), side(r)
    if ls is None or rs is None:
        return None
    lv = val if ls[0] == "p" else ls[1]
    rv = val if rs[0] == "p" else rs[1]
    try:
        if op == "Eq":
            return lv == rv
        if op == "NotEq":
            return lv != rv
        if op == "In":
            return lv in rv
        if op == "NotIn":
            return lv not in rv
    except Exception:
        return None
    return None


class _NCType:
    pass


_NC = _NCType()


# ---------------------------------------------------------------------- G3
def _request_states(t) -> set:
    """State constants carried by a yielded request term (all phi alternatives)."""
    out = set()
    if t[0] == "phi":
        for a in t[1]:
            out |= _request_states(a)
        return out
    if t[0] == "list":
        found = False
        for item in t[1]:
            if item[0] == "tuple" and len(item[1]) == 2 and item[1][0] == ("const", TLV_STATE):
                v = item[1][1]
                out.add(v[1] if v[0] == "const" else None)
                found = True
        if not found:
            out.add(None)
        return out
    out.add(None)
    return out


def _step_checks(ctx: Context, q: str, steps: list[int]) -> int:
    ck = ctx.ck
    f = ctx.func(q)
    cfg = ctx.cfg(q)
    T = ctx.terms
    ynodes = []
    for n in cfg.nodes:
        for e in n.exprs:
            if e is None:
                continue
            for sub in walk_expr(e):
                if isinstance(sub, ast.Yield):
                    ynodes.append((n, sub))
    ynodes.sort(key=lambda x: x[0].lineno)
    good = 0
    if len(ynodes) != len(steps):
        ck.unknown("C04.G3", f"{q}: expected {len(steps)} yields, found {len(ynodes)}", f.loc())
        return 0
    stops = {n.id for n, _ in ynodes} | {n.id for n in cfg.nodes if n.kind == "return"} | {cfg.exit.id}
    for (yn, y), k in zip(ynodes, steps):
        ordinal = T.yield_ordinal(f, y)
        # what is yielded: (request, expectations)
        yt = T.of(cfg, yn, y.value) if y.value is not None else ("unknown", "bare yield")
        req = yt[1][0] if yt[0] == "tuple" and len(yt[1]) == 2 else yt
        states = _request_states(req)
        ck.check(
            "C04.G3",
            states == {M[k]},
            f"{f.name}: request yielded at step {k} carries State=M{k}",
            f"{ctx.fkey(f)}:yield{ordinal}:request-state",
            f"{f.name}: request of yield #{ordinal} carries state {sorted(map(repr, states))}, expected M{k}",
            ctx.loc(f, yn),
        )

        def is_reply(t) -> bool:
            return contains(t, lambda s: s == ("yield", ordinal))

        gate_nodes = []
        for hn, c in ctx.nodes_calling_name(cfg, "handle_state_step"):
            if len(c.args) != 2:
                continue
            a0 = T.of(cfg, hn, c.args[0])
            a1 = T.of(cfg, hn, c.args[1])
            a0s = strip_sites(a0)
            if a0s in (("yield", ordinal), ("call", ("glob", "dict"), (("yield", ordinal),), ())) and a1 == (
                "const",
                M[k + 1],
            ):
                gate_nodes.append(hn)
        pass_edges = []
        for g in gate_nodes:
            pass_edges += ctx.normal_out(cfg, g)
        ok = True
        targets = [t for t in stops if t != yn.id and t in cfg.reachable_from(yn.id)]
        # start after the yield node itself
        for tgt in sorted(targets):
            tn = cfg.nodes[tgt]
            if tn.kind == "exit":
                continue
            ok &= ctx.must_pass(
                "C04.G3",
                cfg,
                tn,
                f"handle_state_step(reply#{ordinal}, M{k + 1})",
                pass_edges,
                start=yn.id,
                desc=f"{f.name}: between yield #{ordinal} and `{tn.text()[:50]}` the step check M{k + 1} is passed",
                avoid_nodes=[s for s in stops if s not in (yn.id, tgt)],
            )
        # no read of the reply before the gate
        seen = cfg.reachable_from(yn.id, avoid_edges=pass_edges, avoid_nodes=[s for s in stops if s != yn.id])
        early = []
        gate_ids = {g.id for g in gate_nodes}
        for nid in sorted(seen):
            n = cfg.nodes[nid]
            if nid == yn.id or nid in gate_ids or n.kind in ("exit", "xexit"):
                continue
            # after the gate nothing is restricted: only nodes reachable *without* passing the gate count
            for e in n.exprs:
                if e is None:
                    continue
                for sub in walk_expr(e):
                    if isinstance(sub, ast.Name) and isinstance(sub.ctx, ast.Load):
                        t = T.var_at(cfg, n, sub.id)
                        if is_reply(t):
                            # allowed: X = dict(reply)
                            a = n.ast
                            if (
                                isinstance(a, ast.Assign)
                                and isinstance(a.value, ast.Call)
                                and isinstance(a.value.func, ast.Name)
                                and a.value.func.id == "dict"
                                and len(a.value.args) == 1
                                and a.value.args[0] is sub
                            ):
                                continue
                            # a plain copy of the name into another local (a helper's parameter) reads nothing of the reply
                            if type(a) is ast.Assign and a.value is sub and all(isinstance(t_, ast.Name) for t_ in a.targets):
                                continue
                            early.append(n)
        if gate_nodes:
            ck.check(
                "C04.G3",
                not early,
                f"{f.name}: reply #{ordinal} is not read before its step check",
                f"{ctx.fkey(f)}:yield{ordinal}:early-read:{norm_stmt(early[0].text()) if early else ''}",
                f"{f.name}: reply #{ordinal} is read before handle_state_step: `{early[0].text() if early else ''}`",
                ctx.loc(f, early[0] if early else yn),
            )
        if ok and gate_nodes:
            good += 1
    return good


# ---------------------------------------------------------------------- G4
def _pairing_mgmt(ctx: Context, q: str) -> int:
    ck = ctx.ck
    f = ctx.func(q)
    cfg = ctx.cfg(q)
    T = ctx.terms
    short = q.split(".")[-2] + "." + f.name
    # state test
    pass_edges, fail_edges = [], []
    for n in cfg.nodes:
        if n.kind != "test":
            continue
        t = T.of(cfg, n, n.exprs[0])
        if t[0] != "cmp" or len(t[1]) != 1:
            continue
        op, (l, r) = t[1][0], t[2]
        m2 = ("const", M[2])
        # `State not in reply` [absent]: a reply without a state item is tolerated, exactly as `.get(State, M2)` tolerates it
        if op in ("In", "NotIn") and l == ("const", TLV_STATE):
            pass_edges += ctx.edges(cfg, n, "T" if op == "NotIn" else "F")
            continue
        if op in ("NotEq", "Eq") and ((is_state_get(l, M[2]) and r == m2) or (is_state_get(r, M[2]) and l == m2)):
            pass_edges += ctx.edges(cfg, n, "F" if op == "NotEq" else "T")
            fail_edges += ctx.edges(cfg, n, "T" if op == "NotEq" else "F")
    ok1 = ctx.must_pass("C04.G4", cfg, cfg.exit, "state test [== M2 outcome]", pass_edges,
                        desc=f"{short}: every normal exit passes the state test")
    for e in fail_edges:
        ok, classes = branch_always_raises(cfg, e)
        lib = all(ctx.prog.is_subclass(c, HK_EXC) for c in classes)
        ck.check(
            "C04.G4",
            ok and lib and bool(classes),
            f"{short}: a wrong state can only raise a library error",
            f"{ctx.fkey(f)}:wrong-state-branch",
            f"{short}: wrong-state outcome falls through or raises a non-library error ({sorted(classes)})",
            ctx.loc(f, cfg.nodes[e[0]]),
        )
    # error test
    tests = error_tests(ctx, cfg)
    absent_edges = []
    for n, present, absent in tests:
        absent_edges += ctx.edges(cfg, n, absent)
    ok2 = ctx.must_pass("C04.G4", cfg, cfg.exit, "error-TLV test [absent outcome]", absent_edges,
                        desc=f"{short}: every normal exit passes the error test")
    for n, present, absent in tests:
        for e in ctx.edges(cfg, n, present):
            ok, classes = branch_always_raises(cfg, e)
            lib = all(ctx.prog.is_subclass(c, HK_EXC) for c in classes)
            ck.check(
                "C04.G4",
                ok and lib and bool(classes),
                f"{short}: an error reply can only raise a library error",
                f"{ctx.fkey(f)}:error-branch",
                f"{short}: error-present outcome falls through or raises a non-library error ({sorted(classes)})",
                ctx.loc(f, n),
                cfg.render_path(cfg.find_path(e[1], cfg.exit.id) or []),
            )
    return 1 if (pass_edges and tests) else 0


def run_thorough(ctx: Context) -> None:
    """Whole-package sweep: every function that tests for the error TLV must raise on the present outcome."""
    ck = ctx.ck
    if not ck.rule("C04.S1", "sweep: every reader of the error TLV in the package raises on it"):
        return
    known = {f"{P}.handle_state_step"} | set(PAIRING_MGMT)
    hits = 0
    for f in ctx.prog.package_functions():
        if isinstance(f.node, ast.Lambda):
            continue
        cfg = ctx.cfg(f.qualname)
        tests = error_tests(ctx, cfg)
        if not tests:
            continue
        hits += 1
        for n, present, absent in tests:
            for e in ctx.edges(cfg, n, present):
                ok, classes = branch_always_raises(cfg, e)
                ck.check(
                    "C04.S1",
                    ok,
                    f"{f.qualname}: error-present outcome can only raise",
                    f"{ctx.fkey(f)}:sweep-error-branch",
                    f"{f.qualname}: a reply carrying an error TLV can reach a normal exit",
                    ctx.loc(f, n),
                    cfg.render_path(cfg.find_path(e[1], cfg.exit.id) or []),
                )
    ck.require_min("C04.S1", "functions testing for the error TLV", hits, 3)

MANIFEST = {
    "technique": "CFG must-pass-through (gates as edges) + constant propagation of every one-byte error code "
    "through error_handler's CFG + def-use terms for the step checks",
    "level_text": "Static, all-paths: decides for every CFG path/exit of handle_state_step, error_handler, the three pairing "
    "generators and the four add/remove-pairing functions that an error TLV or wrong state can only raise (with the "
    "documented class for each of the 256 one-byte codes) and that a step check follows every yield before the reply is "
    "read, and that the filter through which the IP and CoAP transports decode a reply cannot hide its State or Error item "
    "(every yielded filter names both; the decoder skips an unwanted item instead of ending the parse). This is the "
    "property's whole mechanism; only TLV byte decoding proper is outside (C15).",
    "level_note": "Trusted: ast parse = what runs; TLV decoding (C15); decorators of the BLE functions treated as transparent; "
    "a reply dict is what dict(TLV.decode_*) returns. Unrecognised restructurings end in ANALYSIS-ERROR (exit 2), not a pass.",
}

TWIN_FILES = [
    "aiohomekit/protocol/__init__.py",
    "aiohomekit/controller/ip/pairing.py",
    "aiohomekit/controller/ble/pairing.py",
]
_PF = "aiohomekit/protocol/__init__.py"
VARIANTS = [
    {
        "name": "pair-verify M2 filter without Error (the pinned defect)",
        "file": _PF,
        "old": "    step2_expectations = [\n        TLV.kTLVType_State,\n        TLV.kTLVType_Error,\n        TLV.kTLVType_PublicKey,\n        TLV.kTLVType_EncryptedData,\n    ]",
        "new": "    step2_expectations = [\n        TLV.kTLVType_State,\n        TLV.kTLVType_PublicKey,\n        TLV.kTLVType_EncryptedData,\n    ]",
        "expect": "C04.G5",
    },
    {
        "name": "pair-setup M6 filter without State",
        "file": _PF,
        "old": "    step6_expectations = [\n        TLV.kTLVType_State,\n        TLV.kTLVType_Error,",
        "new": "    step6_expectations = [\n        TLV.kTLVType_Error,",
        "expect": "C04.G5",
    },
    {
        "name": "decoder stops at the first unexpected item (the pinned defect)",
        "file": "aiohomekit/protocol/tlv.py",
        "old": "                if len(tail) == 0 or len(tail) - 1 < tail[0]:\n                    break\n                tail = tail[1 + tail[0] :]\n                continue\n",
        "new": "                break\n",
        "expect": "C04.G5",
    },
    {
        "name": "missing-state shortcut before the error test (the pinned defect)",
        "file": _PF,
        "old": "    if actual_state is not None and actual_state != expected_state:\n",
        "new": "    if actual_state is None:\n        return\n    if actual_state != expected_state:\n",
        "expect": "C04.G1",
    },
    {
        "name": "error test inverted",
        "file": _PF,
        "old": "    if TLV.kTLVType_Error in tlv_dict:\n        error_handler(",
        "new": "    if TLV.kTLVType_Error not in tlv_dict:\n        error_handler(",
        "expect": "C04.G1",
    },
    {
        "name": "wrong state only logged",
        "file": _PF,
        "old": '        raise InvalidError(f"Exepected state {expected_state} but got {actual_state}")',
        "new": '        logger.debug(f"Exepected state {expected_state} but got {actual_state}")',
        "expect": "C04.G1",
    },
    {
        "name": "two rows of error_handler swapped",
        "file": _PF,
        "old": "    if error == TLV.kTLVError_Backoff:\n        raise BackoffError(stage)\n    if error == TLV.kTLVError_MaxPeers:\n        raise MaxPeersError(stage)",
        "new": "    if error == TLV.kTLVError_Backoff:\n        raise MaxPeersError(stage)\n    if error == TLV.kTLVError_MaxPeers:\n        raise BackoffError(stage)",
        "expect": "C04.K1",
    },
    {
        "name": "error_handler returns for busy",
        "file": _PF,
        "old": "    if error == TLV.kTLVError_Busy:\n        raise BusyError(stage)",
        "new": "    if error == TLV.kTLVError_Busy:\n        return",
        "expect": ["C04.G2", "C04.K1"],
    },
    {
        "name": "error constant changed in tlv.py",
        "file": "aiohomekit/protocol/tlv.py",
        "old": 'kTLVError_MaxTries = bytearray(b"\\x05")',
        "new": 'kTLVError_MaxTries = bytearray(b"\\x08")',
        "expect": "C04.K1",
    },
    {
        "name": "step check after M4 of pair-verify deleted",
        "file": _PF,
        "old": "    response_tlv = dict(response_tlv)\n    handle_state_step(response_tlv, TLV.M4)\n\n    # return function",
        "new": "    response_tlv = dict(response_tlv)\n\n    # return function",
        "expect": "C04.G3",
    },
    {
        "name": "step check of setup M2 expects M4",
        "file": _PF,
        "old": "    handle_state_step(response_tlv, TLV.M2)\n\n    if TLV.kTLVType_PublicKey not in response_tlv:\n        raise InvalidError(\"M2: Accessory did not send public key\")",
        "new": "    handle_state_step(response_tlv, TLV.M4)\n\n    if TLV.kTLVType_PublicKey not in response_tlv:\n        raise InvalidError(\"M2: Accessory did not send public key\")",
        "expect": "C04.G3",
    },
    {
        "name": "field presence checked before the step check (wrong class for error replies)",
        "file": _PF,
        "old": "    handle_state_step(response_tlv, TLV.M4)\n\n    if TLV.kTLVType_Proof not in response_tlv:\n        raise InvalidError(\"M5: not an error or a proof\")\n",
        "new": "    if TLV.kTLVType_Proof not in response_tlv:\n        raise InvalidError(\"M5: not an error or a proof\")\n\n    handle_state_step(response_tlv, TLV.M4)\n",
        "expect": "C04.G3",
    },
    {
        "name": "IP add_pairing returns before the error test",
        "file": "aiohomekit/controller/ip/pairing.py",
        "old": "        if TLV.kTLVType_Error in data:\n            error_handler(data[TLV.kTLVType_Error], \"M2\")\n\n        return True",
        "new": "        if data.get(TLV.kTLVType_State):\n            return True\n        if TLV.kTLVType_Error in data:\n            error_handler(data[TLV.kTLVType_Error], \"M2\")\n\n        return True",
        "expect": "C04.G4",
    },
    {
        "name": "BLE remove_pairing: unknown errors only logged",
        "file": "aiohomekit/controller/ble/pairing.py",
        "old": '            raise UnknownError(f"{self.name}: Remove pairing failed: unknown error")',
        "new": '            logger.debug(f"{self.name}: Remove pairing failed: unknown error")',
        "expect": "C04.G4",
    },
    {
        "name": "IP remove_pairing: state test dropped",
        "file": "aiohomekit/controller/ip/pairing.py",
        "old": '        if data.get(TLV.kTLVType_State, TLV.M2) != TLV.M2:\n            raise InvalidError("Unexpected state after removing pairing request")\n',
        "new": "",
        "expect": "C04.G4",
    },
]
