"""C07  HTTP/EVENT message parsing is independent of stream segmentation (byte accounting of the parser)."""

from __future__ import annotations

import ast

from ..engine.context import Context, single_defs
from ..engine.loader import walk_expr, walk_own
from ..engine.terms import has_unknown, show, strip_sites, subterms

PROPERTY = "C07"
EXPLANATION = (
    "Static byte accounting of the incremental HTTP/EVENT parser. The persistent buffer attribute of "
    "HttpResponse.parse is found by its role (receiver of find(delimiter)); every read, cut, put-back and return of "
    "it is classified - an unclassifiable access is an analysis error. (T1) at every split-at-delimiter site the "
    "part taken is buf[:p] and the part kept buf[p + len(D):] with the same term p = buf.find(D) computed on the "
    "current buffer (no buffer update between search, take and cut on any path), len(D) = 2 = len(CRLF), reached "
    "only through - and on every p >= 0 through - the 'found' outcome of the test on p; (T2) at every take-n site "
    "the same n bounds the part taken and the part kept: chunk data n = int(size line, 16), kept buf[n + 2:], only "
    "through the exact sufficiency test n + 2 <= len(buf) on the same buffer, the bytes taken are appended to the "
    "body; the final chunk cuts n + 2 under n == 0 on every path; a fixed-length body takes n = content_length - "
    "len(body); (T3) every path over the 'insufficient' outcome restores Concat[line, CRLF, rest] - the two halves "
    "of the split of the same iteration, in order - only there, and leaves the loop; no consumed line reaches the "
    "end of an iteration without a store into persistent state that depends on it; (G1) every path to a buffer "
    "access passes the append of the new read, only parse writes the buffer, parse returns the buffer exactly on "
    "the 'complete' outcome of is_read_completely() and an empty buffer on the other, the feed loop tests the "
    "leftover of every parse call, feeds it to the next call and renews current_response exactly on the 'complete' "
    "outcome, after the last use of the finished message; (K1) is_read_completely, evaluated over every order type "
    "of (state, content_length, len(body)) relative to the constants that occur and both values of the two flags, "
    "equals: chunked => empty chunk seen; else headers done and (content_length == initial value or len(body) == "
    "content_length), with the flags/constants bound by their role in parse. Quantifier covered: all CFG paths of "
    "parse / data_received and all abstract parser states - not sampled streams or cut points."
)
TRUSTED = [
    "bytes/bytearray semantics: find returns -1 or the first index, slices copy and clamp, + concatenates",
    "the header/status interpretation of a taken line (split(b':'), int()) is not part of byte accounting",
]

RESP = "aiohomekit.http.response.HttpResponse"
PARSE = f"{RESP}.parse"
IRC = f"{RESP}.is_read_completely"
INIT = f"{RESP}.__init__"
PROTO = "aiohomekit.controller.ip.connection.InsecureHomeKitProtocol"
FEED = f"{PROTO}.data_received"

# oracle (RFC 7230 3 / 4.1): lines end in CRLF; chunk = size-in-hex CRLF data CRLF; header names
CRLF = b"\r\n"
CHUNK_RADIX = 16
H_CONTENT_LENGTH = "Content-Length"

LOG_METHODS = {"debug", "info", "warning", "error", "exception", "critical", "log"}
PERSIST_CALLS = {"append", "extend", "add", "update", "insert", "setdefault", "appendleft"}
FLIP = {"Gt": "Lt", "Lt": "Gt", "GtE": "LtE", "LtE": "GtE", "Eq": "Eq", "NotEq": "NotEq"}
PYOP = {
    "Gt": lambda a, b: a > b,
    "Lt": lambda a, b: a < b,
    "GtE": lambda a, b: a >= b,
    "LtE": lambda a, b: a <= b,
    "Eq": lambda a, b: a == b,
    "NotEq": lambda a, b: a != b,
}


# ---------------------------------------------------------------------- term helpers
def _alts(t) -> list:
    return list(t[1]) if t[0] == "phi" else [t]


def _is_int(t) -> bool:
    return t[0] == "const" and isinstance(t[1], int) and not isinstance(t[1], bool)


def _decomp(t):
    """term -> (base, k) with term == base + k, k the folded integer constant (base None: a pure constant)."""
    if _is_int(t):
        return None, t[1]
    if t[0] == "add":
        k, rest = 0, []
        for x in t[1]:
            if _is_int(x):
                k += x[1]
            else:
                rest.append(x)
        if not rest:
            return None, k
        return (rest[0] if len(rest) == 1 else ("add", tuple(rest))), k
    if t[0] == "binop" and t[1] == "Sub" and _is_int(t[3]):
        b, k = _decomp(t[2])
        return b, k - t[3][1]
    return t, 0


def _has(t, sub) -> bool:
    return any(s == sub for s in subterms(t))


def _is_len(t, of=None) -> bool:
    return t[0] == "call" and t[1] == ("glob", "len") and len(t[2]) == 1 and not t[3] and (of is None or t[2][0] == of)


def _cmp1(t):
    """single comparison term -> (op, left, right) else None"""
    if t[0] == "cmp" and len(t[1]) == 1 and len(t[2]) == 2:
        return t[1][0], t[2][0], t[2][1]
    return None


def _parents(root: ast.AST) -> dict:
    par = {}
    for x in walk_expr(root):
        for c in ast.iter_child_nodes(x):
            par[id(c)] = x
    return par


def _path_from(cfg, x: int, targets, avoid_edges=(), avoid_nodes=()):
    """Witness path that leaves node ``x`` and reaches a target (``x`` itself may be one, round a loop) without
    using an avoided edge or passing an avoided node; None when every such path is cut."""
    ae, an = set(avoid_edges), set(avoid_nodes)
    tg = set(targets)
    for d, lab, exc in cfg.nodes[x].succ:
        if (x, d, lab, exc) in ae or d in an:
            continue
        p = cfg.find_path(d, tg, avoid_nodes=an, avoid_edges=ae)
        if p is not None:
            return [(x, lab, exc)] + p
    return None


def _between(cfg, a: int, b: int, nodes) -> list[int]:
    """Members of ``nodes`` lying strictly between the last visit of ``a`` and the next arrival at ``b``."""
    nodes = [w for w in nodes if w not in (a, b)]
    if not nodes:
        return []
    reach = cfg.reachable_from(a, avoid_nodes={b})
    return sorted(w for w in nodes if w in reach and b in cfg.reachable_from(w, avoid_nodes={a}))


# ---------------------------------------------------------------------- model of HttpResponse.parse
class _Parser:
    """Every access of the persistent buffer inside ``parse``, classified by shape (AST) and by value (terms)."""

    def __init__(self, ctx: Context):
        self.ctx = ctx
        self.T = ctx.terms
        self.f = ctx.func(PARSE)
        self.cfg = ctx.cfg(PARSE)
        self.fk = ctx.fkey(self.f)
        self.problems: list[tuple[str, str]] = []
        self.fatal = False
        self.finds: list[dict] = []
        self.slices: list[dict] = []
        self.stores: dict[int, dict] = {}
        self.ret_buf: list = []
        self.read_nodes: set[int] = set()
        self.splits: list[dict] = []
        self.takes: list[dict] = []
        pp = self.f.pos_params
        if len(pp) != 2:
            self._fatal("parse no longer has the parameters (self, part)")
            return
        self.me = ("param", pp[0])
        self.part = ("param", pp[1])
        self._find_buffer()
        if self.fatal:
            return
        self._scan()
        self._persist()
        self._derive()

    # -------------------------------------------------------------- plumbing
    def term(self, n, e):
        return self.T.of(self.cfg, n, e)

    def loc(self, n=None) -> str:
        return self.ctx.loc(self.f, n) if n is not None else self.f.loc()

    def _problem(self, msg: str, n=None) -> None:
        item = (msg, self.loc(n))
        if item not in self.problems:
            self.problems.append(item)

    def _fatal(self, msg: str) -> None:
        self.fatal = True
        self._problem(msg)

    def is_buf(self, n, e) -> bool:
        if isinstance(e, ast.Attribute) and e.attr == self.battr and self.term(n, e.value) == self.me:
            return True
        return self._is_alias_use(n, e)

    def _is_alias_use(self, n, e) -> bool:
        """`e` is a local that was bound to the buffer attribute (`buf = self.<buffer>`) and the attribute has not been
        re-assigned between that binding and this use, so the local still denotes the current buffer."""
        if not (isinstance(e, ast.Name) and isinstance(e.ctx, ast.Load) and e.id in self.aliases):
            return False
        dn = self.aliases[e.id]
        for s in self.store_nodes:
            if s.id == n.id:
                continue
            if self.cfg.find_path(dn.id, s.id) is not None and self.cfg.find_path(s.id, n.id, avoid_nodes=[dn.id]) is not None:
                self._problem(f"parse: `{e.id}` aliases the buffer across a re-assignment of self.{self.battr}: `{n.text()}`", n)
                return False
        return True

    # -------------------------------------------------------------- the buffer, by role
    def _find_buffer(self) -> None:
        names: dict[str, int] = {}
        for n in self.cfg.nodes:
            for c in self.ctx.calls(n):
                if isinstance(c.func, ast.Attribute) and c.func.attr == "find" and len(c.args) == 1 and not c.keywords:
                    recv = self.term(n, c.func.value)
                    d = self.term(n, c.args[0])
                    if recv[0] == "attr" and recv[1] == self.me and d[0] == "const" and isinstance(d[1], bytes):
                        names[recv[2]] = names.get(recv[2], 0) + 1
        if len(names) != 1:
            self._fatal(f"parse: expected one attribute of self searched with find(<bytes constant>), found {sorted(names)}")
            return
        self.battr = next(iter(names))
        self.buf = ("attr", self.me, self.battr)
        # local aliases of the buffer: `x = self.<buffer>` for a temporary x; and the nodes that re-assign the attribute
        sd = single_defs(self.f.node)
        self.aliases = {}
        self.store_nodes = []
        for n in self.cfg.nodes:
            st = n.ast
            if n.kind != "stmt" or n.copy_of:
                continue
            if isinstance(st, ast.Assign) and len(st.targets) == 1 and isinstance(st.targets[0], ast.Name) and st.targets[0].id in sd \
                    and isinstance(st.value, ast.Attribute) and st.value.attr == self.battr and self.term(n, st.value.value) == self.me:
                self.aliases[st.targets[0].id] = n
            tg = st.targets if isinstance(st, ast.Assign) else [st.target] if isinstance(st, (ast.AugAssign, ast.AnnAssign)) else []
            if any(isinstance(t, ast.Attribute) and t.attr == self.battr for t in tg):
                self.store_nodes.append(n)

    # -------------------------------------------------------------- classification of every access
    def _scan(self) -> None:
        for n in self.cfg.nodes:
            for root in n.exprs:
                if root is None:
                    continue
                par = None
                for a in walk_expr(root):
                    if (isinstance(a, ast.Attribute) and a.attr == self.battr and self.term(n, a.value) == self.me) or self._is_alias_use(n, a):
                        if par is None:
                            par = _parents(root)
                        self._classify(n, root, a, par)

    def _classify(self, n, root, a, par) -> None:
        st = n.ast
        if isinstance(a.ctx, ast.Store):
            if isinstance(st, ast.AugAssign) and st.target is a:
                self._store_aug(n, st)
            elif isinstance(st, ast.Assign) and len(st.targets) == 1 and st.targets[0] is a:
                self._store_assign(n, st)
            else:
                self._problem(f"parse: buffer written in an unrecognised way: `{n.text()}`", n)
            return
        if not isinstance(a.ctx, ast.Load):
            self._problem(f"parse: buffer deleted/modified in place: `{n.text()}`", n)
            return
        self.read_nodes.add(n.id)
        if isinstance(st, ast.Assign) and st.value is a and len(st.targets) == 1 and isinstance(st.targets[0], ast.Name) and st.targets[0].id in self.aliases \
                and self.aliases[st.targets[0].id] is n:
            uses = [x for x in walk_own(self.f.node) if isinstance(x, ast.Name) and x.id == st.targets[0].id and isinstance(x.ctx, ast.Load)]
            bare_ret = [m for m in self.cfg.nodes if m.kind == "return" and m.exprs and m.exprs[0] in uses]
            if not bare_ret:
                return  # the binding itself; every use of the alias is classified where it occurs
        if isinstance(st, ast.Assign) and st.value is a and len(st.targets) == 1 and isinstance(st.targets[0], ast.Name):
            # `tmp = self.<buffer>` where tmp is a temporary that is only ever returned bare: the same as `return self.<buffer>`
            tmp = st.targets[0].id
            if tmp in single_defs(self.f.node):
                uses = [x for x in walk_own(self.f.node) if isinstance(x, ast.Name) and x.id == tmp and isinstance(x.ctx, ast.Load)]
                nxt = [self.cfg.nodes[e[1]] for e in self.ctx.normal_out(self.cfg, n)]
                if len(uses) == 1 and len(nxt) == 1 and nxt[0].kind == "return" and nxt[0].exprs and nxt[0].exprs[0] is uses[0]:
                    self.ret_buf.append(nxt[0])
                    return
        p = par.get(id(a))
        if p is None:
            if n.kind == "return":
                self.ret_buf.append(n)
            elif n.kind != "test":
                self._problem(f"parse: bare use of the buffer: `{n.text()}`", n)
            return
        if isinstance(p, ast.Attribute) and p.value is a:
            gp = par.get(id(p))
            if p.attr == "find" and isinstance(gp, ast.Call) and gp.func is p and len(gp.args) == 1 and not gp.keywords:
                t = self.term(n, gp)
                d = self.term(n, gp.args[0])
                if t[0] == "call" and d[0] == "const" and isinstance(d[1], bytes):
                    self.finds.append({"node": n, "ast": gp, "term": t, "D": d[1]})
                    return
            self._problem(f"parse: method `{p.attr}` used on the buffer in an unrecognised way: `{n.text()}`", n)
            return
        if isinstance(p, ast.Subscript) and p.value is a:
            if isinstance(p.slice, ast.Slice) and isinstance(p.ctx, ast.Load) and p.slice.step is None:
                lo, hi = p.slice.lower, p.slice.upper
                self.slices.append(
                    {
                        "node": n,
                        "ast": p,
                        "lo_ast": lo,
                        "hi_ast": hi,
                        "lo": self.term(n, lo) if lo is not None else None,
                        "hi": self.term(n, hi) if hi is not None else None,
                        "term": self.term(n, p),
                    }
                )
                return
            self._problem(f"parse: buffer indexed / slice-assigned in an unrecognised way: `{n.text()}`", n)
            return
        if isinstance(p, ast.Call) and any(x is a for x in p.args):
            if self.term(n, p.func) == ("glob", "len") and len(p.args) == 1:
                return
            if isinstance(p.func, ast.Attribute) and p.func.attr in LOG_METHODS:
                return
            self._problem(f"parse: buffer handed to a call: `{n.text()}`", n)
            return
        if isinstance(p, ast.BinOp) and isinstance(p.op, ast.Add):
            if isinstance(st, ast.Assign) and len(st.targets) == 1 and self.is_buf(n, st.targets[0]):
                return
            self._problem(f"parse: buffer concatenated outside a store to itself: `{n.text()}`", n)
            return
        if isinstance(p, ast.Compare):
            return
        self._problem(f"parse: buffer escapes: `{n.text()}`", n)

    def _store_aug(self, n, st: ast.AugAssign) -> None:
        if isinstance(st.op, ast.Add) and self.term(n, st.value) == self.part:
            self.stores[n.id] = {"node": n, "kind": "append"}
        else:
            self.stores[n.id] = {"node": n, "kind": "other"}
            self._problem(f"parse: unrecognised in-place update of the buffer: `{n.text()}`", n)

    def _store_assign(self, n, st: ast.Assign) -> None:
        v = self.term(n, st.value)
        sl = st.value
        rec = {"node": n, "kind": "other", "value": v}
        self.stores[n.id] = rec
        if isinstance(sl, ast.Subscript) and isinstance(sl.slice, ast.Slice) and self.is_buf(n, sl.value):
            s = sl.slice
            if s.lower is not None and s.upper is None and s.step is None:
                rec.update(kind="remainder", lo_ast=s.lower, lo=self.term(n, s.lower))
            else:
                self._problem(f"parse: buffer cut with an upper bound or a step: `{n.text()}`", n)
            return
        reads_here = any(self.is_buf(n, x) for x in walk_expr(st.value))
        if v[0] == "add" and reads_here:
            parts = v[1]
            if parts == (self.buf, self.part):
                rec["kind"] = "append"
                return
            if list(parts).count(self.buf) == 1:
                rec.update(kind="concat", parts=parts)
                return
        if not _has(v, self.buf) and not has_unknown(v):
            rec["kind"] = "overwrite"
            return
        self._problem(f"parse: unrecognised update of the buffer: `{n.text()}`", n)

    # -------------------------------------------------------------- stores into other persistent state
    def _persist(self) -> None:
        """nid -> (attribute of self other than the buffer, stored value term)"""
        self.persist: dict[int, tuple[str, tuple]] = {}
        for n in self.cfg.nodes:
            st = n.ast
            if n.kind != "stmt" or st is None:
                continue
            if isinstance(st, (ast.Assign, ast.AnnAssign, ast.AugAssign)):
                if getattr(st, "value", None) is None:
                    continue
                targets = st.targets if isinstance(st, ast.Assign) else [st.target]
                flat = []
                for t in targets:
                    flat += list(t.elts) if isinstance(t, (ast.Tuple, ast.List)) else [t]
                for t in flat:
                    if isinstance(t, ast.Attribute):
                        tt = self.term(n, t)
                        if tt[0] == "attr" and tt[1] == self.me and tt[2] != self.battr:
                            self.persist[n.id] = (tt[2], self.term(n, st.value))
            elif isinstance(st, ast.Expr) and isinstance(st.value, ast.Call) and isinstance(st.value.func, ast.Attribute):
                c = st.value
                if c.func.attr in PERSIST_CALLS:
                    recv = self.term(n, c.func.value)
                    if recv[0] == "attr" and recv[1] == self.me and recv[2] != self.battr:
                        self.persist[n.id] = (recv[2], ("tuple", tuple(self.term(n, x) for x in c.args)))

    # -------------------------------------------------------------- consumption sites
    def _derive(self) -> None:
        self.store_ids = set(self.stores)
        self.appends = [r["node"] for r in self.stores.values() if r["kind"] == "append"]
        self.prefixes = []
        remainder_asts = {id(r["node"].ast.value) for r in self.stores.values() if r["kind"] == "remainder"}
        for s in self.slices:
            lo_zero = s["lo"] is None or s["lo"] == ("const", 0)
            if lo_zero and s["hi"] is not None:
                b, k = _decomp(s["hi"])
                s.update(hbase=b, hk=k)
                self.prefixes.append(s)
            elif id(s["ast"]) in remainder_asts:
                pass
            else:
                self._problem(f"parse: slice of the buffer that is neither a prefix taken nor the remainder kept: `{s['node'].text()}`", s["node"])
        find_by_term = {f["term"]: f for f in self.finds}
        for nid in sorted(self.stores):
            r = self.stores[nid]
            if r["kind"] != "remainder":
                continue
            base, k = _decomp(r["lo"])
            if base is None:
                # a constant cut reached only under the outcome n == 0 of one count is the cut at n + k
                z = self._zero_count(nid)
                if z is not None:
                    base, r["lo_ast"] = z
            r.update(base=base, k=k, nid=nid)
            if base is None or has_unknown(r["lo"]):
                self._problem(f"parse: buffer cut at a position the analysis cannot name: `{r['node'].text()}`", r["node"])
                continue
            al = _alts(base)
            hit = [find_by_term.get(x) for x in al]
            if all(h is not None for h in hit):
                r.update(
                    finds=hit,
                    fnodes={h["node"].id for h in hit},
                    D=sorted({h["D"] for h in hit}),
                )
                self.splits.append(r)
            elif not any(h is not None for h in hit):
                self.takes.append(r)
            else:
                self._problem(f"parse: cut position mixes find() results with other values: `{r['node'].text()}`", r["node"])
        for i, s in enumerate(self.splits, 1):
            s["name"] = f"split{i}"
            # what is actually taken in front of this cut (whatever its bound: T1 judges the bound)
            s["lines"] = [p["term"] for p in self.prefixes if s["nid"] in self.next_stores(p["node"].id)]
        for j, s in enumerate(self.takes, 1):
            s["name"] = f"take{j}"
            s["split"] = None
            for sp in self.splits:
                if any(_has(s["base"], ln) for ln in sp["lines"]):
                    s["split"] = sp

    def _zero_count(self, nid: int):
        """(term, ast) of the one count n whose test outcome ``n == 0`` every path from the entry to ``nid`` takes."""
        cands = {}
        for n in self.cfg.nodes:
            if n.kind != "test":
                continue
            e = n.exprs[0]
            c = _cmp1(self.term(n, e))
            if not (c and c[0] in ("Eq", "NotEq") and isinstance(e, ast.Compare) and len(e.ops) == 1):
                continue
            for t, other, a in ((c[1], c[2], e.left), (c[2], c[1], e.comparators[0])):
                if other == ("const", 0) and not _is_int(t) and not has_unknown(t):
                    lab = "T" if c[0] == "Eq" else "F"
                    cands.setdefault(t, [None, []])
                    cands[t][0] = a
                    cands[t][1] += self.cfg.out_edges(n, (lab,))
        head, _la = self.loop_of(nid)
        start = self.cfg.entry.id if head is None else head
        hit = []
        for t, (a, edges) in cands.items():
            if _path_from(self.cfg, start, {nid}, avoid_edges=edges, avoid_nodes=() if head is None else {head}) is None:
                hit.append((t, a))
        return hit[0] if len(hit) == 1 else None

    # -------------------------------------------------------------- queries
    def next_stores(self, nid: int) -> set[int]:
        """The first buffer stores executed after node ``nid`` (on any path)."""
        out, seen = set(), set()
        work = [d for d, _l, _e in self.cfg.nodes[nid].succ]
        while work:
            u = work.pop()
            if u in seen:
                continue
            seen.add(u)
            if u in self.store_ids:
                out.add(u)
                continue
            work.extend(d for d, _l, _e in self.cfg.nodes[u].succ)
        return out

    def evalsites(self, nid: int, expr: ast.AST, seen=None) -> frozenset:
        """CFG nodes at which object state (attributes, call results) feeding the value of ``expr`` at ``nid`` is
        read; locals are followed through their reaching definitions."""
        if expr is None:
            return frozenset()
        if seen is None:
            seen = set()
        du = self.T.du(self.cfg)
        out = set()
        for sub in walk_expr(expr):
            if isinstance(sub, (ast.Attribute, ast.Call)):
                out.add(nid)
            elif isinstance(sub, ast.Name) and isinstance(sub.ctx, ast.Load) and sub.id in du.local_names:
                for dn, d in du.reaching(nid, sub.id):
                    if (dn, sub.id) in seen:
                        continue
                    seen.add((dn, sub.id))
                    if d.kind in ("assign", "walrus"):
                        out |= self.evalsites(dn, d.value, seen)
                    elif d.kind == "aug":
                        out |= self.evalsites(dn, d.value, seen)
                        out |= self.evalsites(dn, ast.Name(id=sub.id, ctx=ast.Load()), seen)
                    elif d.kind != "param":
                        out.add(dn)
        return frozenset(out)

    def loop_of(self, nid: int):
        """(loop_head node id, loop ast) of the innermost loop whose body contains the node."""
        loops = [fr for fr in self.cfg.nodes[nid].frames if fr[0] == "loop" and fr[2] == "body"]
        if not loops:
            return None, None
        la = loops[-1][1]
        for n in self.cfg.nodes:
            if n.kind in ("loop_head", "for") and n.ast is la:
                return n.id, la
        return None, la

    def takes_for(self, site: dict, base) -> tuple[list, list, list]:
        """Prefix slices whose next buffer store is ``site``: (all, those bounded by exactly ``base``, look-alikes)."""
        paired = [p for p in self.prefixes if site["nid"] in self.next_stores(p["node"].id) or p["node"].id == site["nid"]]
        good = [p for p in paired if p["hk"] == 0 and p["hbase"] == base]
        near = [
            p
            for p in paired
            if p not in good and p["hk"] == 0 and p["hbase"] is not None and strip_sites(p["hbase"]) == strip_sites(base)
        ]
        return paired, good, near

    def attr_stores(self, attrs) -> set[int]:
        return {nid for nid, (a, _v) in self.persist.items() if a in attrs}


def _self_attrs(t, me) -> set[str]:
    return {s[2] for s in subterms(t) if s[0] == "attr" and len(s) == 3 and s[1] == me}


# ---------------------------------------------------------------------- shared: the part taken and the part kept
def _check_take(ctx: Context, m: _Parser, rule: str, site: dict, base, what: str) -> list:
    """The bytes in front of the cut are taken with the *same* bound on every path: returns the good take records."""
    ck, cfg = ctx.ck, m.cfg
    name = site["name"]
    s_nid = site["nid"]
    loc = m.loc(site["node"])
    paired, good, near = m.takes_for(site, base)
    if not good:
        if near:
            p = near[0]
            ln = p["node"].id
            attrs = _self_attrs(base, m.me) - {m.battr}
            offenders = [w for w in m.attr_stores(attrs) if w == ln or (ln != s_nid and _between(cfg, ln, s_nid, [w]))]
            if offenders:
                ck.violated(
                    rule,
                    f"{m.fk}:{name}:stale-bound",
                    f"parse {name}: the bound {show(base, 80)} is evaluated once for the {what} and again for the cut, and "
                    f"`{cfg.nodes[offenders[0]].text()}` changes what it reads in between: the part taken and the part kept do not meet",
                    m.loc(p["node"]),
                    None,
                    f"parse {name}: {what} and remainder are cut at the same position",
                )
            else:
                ck.unknown(rule, f"parse {name}: the {what} is bounded by a separately evaluated but look-alike expression; "
                                 "cannot establish that both bounds are the same value", loc)
        elif paired:
            p = paired[0]
            ck.violated(
                rule,
                f"{m.fk}:{name}:taken-bound",
                f"parse {name}: the part taken is buffer[:{show(p['hi'], 80)}] but the part kept starts at "
                f"{show(site['lo'], 80)}: the two bounds are not the same position (+ the bytes skipped) - bytes are lost or duplicated",
                m.loc(p["node"]),
                None,
                f"parse {name}: {what} and remainder are cut at the same position",
            )
        else:
            ck.violated(
                rule,
                f"{m.fk}:{name}:not-taken",
                f"parse {name}: the buffer is cut at {show(site['lo'], 80)} but the bytes in front of the cut are never taken",
                loc,
                None,
                f"parse {name}: the bytes in front of the cut are taken",
            )
        return []
    ck.holds(rule, f"parse {name}: {what} = buffer[:{show(base, 60)}], remainder = buffer[{show(site['lo'], 70)}:] - same term", loc)
    lids = {p["node"].id for p in good}
    events = sorted(m.store_ids | site.get("fnodes", set()) | {cfg.entry.id})
    wit = None
    if s_nid not in lids:
        for r in events:
            wit = _path_from(cfg, r, {s_nid}, avoid_nodes=lids)
            if wit is not None:
                break
    ck.check(
        rule,
        wit is None,
        f"parse {name}: every path to the cut takes the {what} first (since the last buffer update)",
        f"{m.fk}:{name}:taken-on-every-path",
        f"parse {name}: the cut `{site['node'].text()}` is reachable without the {what} having been taken from the current buffer",
        loc,
        cfg.render_path(wit) if wit else None,
    )
    es_s = m.evalsites(s_nid, site["lo_ast"])
    for p in good:
        ln = p["node"].id
        if ln == s_nid:
            continue
        es_l = m.evalsites(ln, p["hi_ast"])
        if es_l == es_s and ln not in es_l and s_nid not in es_s:
            moved = _between(cfg, ln, s_nid, set(es_l) | m.store_ids)
            ck.check(
                rule,
                not moved,
                f"parse {name}: bound and buffer are not re-evaluated between taking and cutting",
                f"{m.fk}:{name}:stale-bound",
                f"parse {name}: between taking the {what} and cutting the buffer the bound or the buffer changes "
                f"(`{cfg.nodes[moved[0]].text() if moved else ''}`)",
                loc,
            )
        else:
            attrs = _self_attrs(base, m.me) - {m.battr}
            offenders = [w for w in m.attr_stores(attrs) if w == ln or w in _between(cfg, ln, s_nid, [w])]
            offenders += _between(cfg, ln, s_nid, m.store_ids)
            ck.check(
                rule,
                not offenders,
                f"parse {name}: the separately evaluated bounds read unchanged state",
                f"{m.fk}:{name}:stale-bound",
                f"parse {name}: the bound is evaluated once for the {what} and again for the cut, and "
                f"`{cfg.nodes[offenders[0]].text() if offenders else ''}` changes what it reads in between",
                loc,
            )
    return good


def _report_problems(ctx: Context, m: _Parser, rule: str) -> None:
    if getattr(m, "_reported", False):
        return
    m._reported = True
    for msg, loc in m.problems:
        ctx.ck.unknown(rule, msg, loc)


# ---------------------------------------------------------------------- T1
def _found_pred(op: str, c: int, pos_left: bool) -> list:
    """Outcomes of ``pos op c`` that exclude find()'s -1, as [(label, exact)]; exact = taken for every position >= 0."""
    fn = PYOP.get(op)
    if fn is None:
        return []
    samples = sorted({0, 1, 2, 10**9} | {v for v in (c - 1, c, c + 1) if v >= 0})
    ev = (lambda v: fn(v, c)) if pos_left else (lambda v: fn(c, v))
    miss = ev(-1)
    hits = {ev(v) for v in samples}
    return [(lab, hits == {val}) for lab, val in (("T", True), ("F", False)) if miss != val]


def _t1(ctx: Context, m: _Parser) -> None:
    ck, cfg = ctx.ck, m.cfg
    R = "C07.T1"
    for s in m.splits:
        name, loc = s["name"], m.loc(s["node"])
        for D in s["D"]:
            ck.check(
                R,
                D == CRLF,
                f"parse {name}: lines are split at CRLF",
                f"{m.fk}:{name}:delimiter",
                f"parse {name}: the buffer is split at {D!r}; HTTP lines end in {CRLF!r}",
                loc,
            )
            ck.check(
                R,
                s["k"] == len(D),
                f"parse {name}: the remainder starts len({D!r}) = {len(D)} bytes after the position found",
                f"{m.fk}:{name}:skip-length",
                f"parse {name}: after find({D!r}) the remainder is cut at position + {s['k']} but the delimiter is {len(D)} bytes long: "
                + ("part of the delimiter stays in the buffer" if s["k"] < len(D) else "bytes after the delimiter are lost"),
                loc,
            )
        good = _check_take(ctx, m, R, s, s["base"], "line")
        # the position describes the current buffer
        for p in good:
            wit = None
            for w in sorted(m.store_ids | {cfg.entry.id}):
                wit = _path_from(cfg, w, {p["node"].id}, avoid_nodes=s["fnodes"])
                if wit is not None:
                    break
            ck.check(
                R,
                wit is None,
                f"parse {name}: the position is searched again after every buffer update before it is used",
                f"{m.fk}:{name}:stale-position",
                f"parse {name}: the line is taken with a position that was found before the buffer changed",
                m.loc(p["node"]),
                cfg.render_path(wit) if wit else None,
            )
        # found-guard: safety (never split at -1) and exactness (every position >= 0 is split)
        gates, near, inexact = [], [], []
        salts = set(_alts(s["base"]))
        for n in cfg.nodes:
            if n.kind != "test":
                continue
            c = _cmp1(m.term(n, n.exprs[0]))
            if c is None:
                continue
            op, l, r = c
            for pos_t, const_t, left in ((l, r, True), (r, l, False)):
                if _is_int(const_t) and set(_alts(pos_t)) <= salts:
                    safe = _found_pred(op, const_t[1], left)
                    if not safe:
                        near.append(n)
                    for lab, exact in safe:
                        es_ = ctx.edges(cfg, n, lab)
                        gates += es_
                        if not exact and any(e[1] == s["nid"] or s["nid"] in cfg.reachable_from(e[1], avoid_nodes=s["fnodes"]) for e in es_):
                            inexact.append(n)
        targets = {s["nid"]} | {p["node"].id for p in good}
        wit = None
        for fn_ in sorted(s["fnodes"]):
            wit = _path_from(cfg, fn_, targets, avoid_edges=gates)
            if wit is not None:
                break
        ck.check(
            R,
            wit is None,
            f"parse {name}: the split is reached only through the 'found' outcome of the test on the position",
            f"{m.fk}:{name}:found-guard",
            f"parse {name}: the buffer is split although find() may have returned -1"
            + (f" (the test `{near[0].text()}` does not exclude -1)" if near else " (no test of the position)"),
            loc,
            cfg.render_path(wit) if wit else None,
        )
        ck.check(
            R,
            not inexact,
            f"parse {name}: every position >= 0 takes the 'found' outcome",
            f"{m.fk}:{name}:found-guard-inexact",
            f"parse {name}: the test `{inexact[0].text() if inexact else ''}` also turns away positions >= 0: a delimiter found there is "
            "never split off and the parser stalls on it",
            loc,
        )
    ck.require_min(R, "split-at-delimiter sites", len(m.splits), 2)


# ---------------------------------------------------------------------- T2
def _role_content_length(ctx: Context, m: _Parser):
    """The attribute that receives int(<value>) on the 'Content-Length' outcome of a header-name test."""
    cfg = m.cfg
    gates = []
    for n in cfg.nodes:
        if n.kind != "test":
            continue
        c = _cmp1(m.term(n, n.exprs[0]))
        if c and c[0] in ("Eq", "NotEq") and (("const", H_CONTENT_LENGTH) in (c[1], c[2])):
            gates += ctx.edges(cfg, n, "T" if c[0] == "Eq" else "F")
    found = set()
    if gates:
        for nid, (attr, v) in m.persist.items():
            if v[0] == "call" and v[1] == ("glob", "int") and len(v[2]) == 1:
                if cfg.find_path(cfg.entry.id, nid, avoid_edges=gates) is None:
                    found.add(attr)
    return next(iter(found)) if len(found) == 1 else None


def _stored_take(m: _Parser, p: dict, s_nid: int, zero=()):
    """Append nodes `self.X += <the slice taken at p>` and a witness path p -> cut that avoids them."""
    cfg = m.cfg
    ln = p["node"].id
    aps = {}
    for nid, (attr, v) in m.persist.items():
        st = cfg.nodes[nid].ast
        if isinstance(st, ast.AugAssign) and isinstance(st.op, ast.Add) and v == p["term"]:
            if nid == ln or ln in m.evalsites(nid, st.value):
                aps[nid] = attr
    if ln in aps:
        return aps, None
    if not aps:
        return aps, [(ln, None, None)]
    # the bytes taken are held in a temporary: they must reach the body before that temporary is gone - the end of the
    # iteration or of the function - whether the buffer is cut before or after the append.  A way out on which the count
    # is known to be 0 took nothing.
    head, _la = m.loop_of(ln)
    ends = {cfg.exit.id} | ({head} if head is not None else set())
    return aps, _path_from(cfg, ln, ends, avoid_nodes=set(aps), avoid_edges=zero)


def _zero_edges(ctx: Context, m: _Parser, N) -> list:
    """Outcome edges of tests on ``N`` that are taken exactly when N == 0."""
    out = []
    for n in m.cfg.nodes:
        if n.kind != "test":
            continue
        c = _cmp1(m.term(n, n.exprs[0]))
        if c and c[0] in ("Eq", "NotEq") and ((c[1] == N and c[2] == ("const", 0)) or (c[2] == N and c[1] == ("const", 0))):
            out += ctx.edges(m.cfg, n, "T" if c[0] == "Eq" else "F")
    return out


def _t2(ctx: Context, m: _Parser) -> None:
    ck, cfg = ctx.ck, m.cfg
    R = "C07.T2"
    m.guards = {}  # split nid -> list of (guard node, pass label)
    m.keyed = {}  # split nid -> take-n store nids whose n is the size line of that split
    cl_attr = _role_content_length(ctx, m)
    body_attrs: set[str] = set()
    length_sites = []
    for s in m.takes:
        name, loc, N, k = s["name"], m.loc(s["node"]), s["base"], s["k"]
        sp = s["split"]
        if sp is None:
            length_sites.append(s)
            continue
        # ---------------------------------------------------------- chunk: n = int(size line, 16)
        if not (N[0] == "call" and N[1] == ("glob", "int") and len(N[2]) in (1, 2) and N[2][0] in sp["lines"] and not N[3]):
            ck.unknown(R, f"parse {name}: the count {show(N, 80)} depends on the line of {sp['name']} but is not int(line, radix)", loc)
            continue
        radix = N[2][1] if len(N[2]) == 2 else ("const", 10)
        ck.check(
            R,
            radix == ("const", CHUNK_RADIX),
            f"parse {name}: n = int(size line of {sp['name']}, 16)",
            f"{m.fk}:{name}:radix",
            f"parse {name}: the chunk size is read with radix {show(radix)}; chunk sizes are hexadecimal",
            loc,
        )
        m.keyed.setdefault(sp["nid"], []).append(s["nid"])
        others = {x["nid"] for x in m.splits if x is not sp} | {p["node"].id for p in m.prefixes if p["hbase"] == sp["base"]} | sp["fnodes"]
        mixed = _between(cfg, sp["nid"], s["nid"], others)
        if mixed:
            ck.unknown(R, f"parse {name}: another split / search (`{cfg.nodes[mixed[0]].text()}`) lies between {sp['name']} and the cut", loc)
            continue
        Dk = sorted({len(d) for d in sp["D"]})
        Dk = Dk[0] if len(Dk) == 1 else Dk
        ck.check(
            R,
            k == Dk,
            f"parse {name}: the remainder starts n + {Dk} bytes on (data + CRLF)",
            f"{m.fk}:{name}:trailer-length",
            f"parse {name}: chunk data of n bytes is followed by CRLF ({Dk} bytes) but the buffer is cut at n + {k}",
            loc,
        )
        # sufficiency guard: exactly  n + k <= len(buffer)
        exact, near = [], []
        for n in cfg.nodes:
            if n.kind != "test":
                continue
            c = _cmp1(m.term(n, n.exprs[0]))
            if c is None:
                continue
            op, l, r = c
            if _is_len(r, m.buf):
                x, rel = l, op
            elif _is_len(l, m.buf):
                x, rel = r, FLIP.get(op)
            else:
                continue
            b, kg = _decomp(x)
            if b != N:
                continue
            lab = {"LtE": "T", "Gt": "F"}.get(rel) if kg == k else None
            if lab is None:
                near.append((n, rel, kg))
            else:
                exact.append((n, lab))
        gates = []
        for n, lab in exact:
            gates += ctx.edges(cfg, n, lab)
        wit = _path_from(cfg, sp["nid"], {s["nid"]}, avoid_edges=gates)
        hint = ""
        if near:
            n, rel, kg = near[0]
            hint = f" (the test `{n.text()}` is not `n + {k} <= len(buffer)`: " + (
                f"it counts {kg} trailing bytes" if kg != k else "its operator treats an exactly complete chunk wrongly"
            ) + ")"
        ck.check(
            R,
            wit is None,
            f"parse {name}: the cut is reached only through the outcome n + {k} <= len(buffer) of the sufficiency test",
            f"{m.fk}:{name}:sufficiency-guard",
            f"parse {name}: the buffer is cut at n + {k} without the exact test that n + {k} bytes have arrived" + hint,
            loc,
            cfg.render_path(wit) if wit else None,
        )
        es = set(m.evalsites(s["nid"], s["lo_ast"]))
        for n, lab in exact:
            if s["nid"] not in cfg.reachable_from(n.id):
                continue
            m.guards.setdefault(sp["nid"], [])
            if (n, lab) not in m.guards[sp["nid"]]:
                m.guards[sp["nid"]].append((n, lab))
            e = n.exprs[0]
            if not (isinstance(e, ast.Compare) and len(e.ops) == 1):
                ck.unknown(R, f"parse {name}: the sufficiency test `{n.text()}` is evaluated through a temporary", m.loc(n))
                continue
            sides = [e.left, e.comparators[0]]
            len_ast = sides[0] if _is_len(m.term(n, sides[0]), m.buf) else sides[1]
            cnt_ast = sides[1] if len_ast is sides[0] else sides[0]
            es_cnt = set(m.evalsites(n.id, cnt_ast))
            es_len = set(m.evalsites(n.id, len_ast))
            if es_cnt - {n.id} != es - {s["nid"]}:
                ck.unknown(R, f"parse {name}: the count in `{n.text()}` and the count at the cut are evaluated at different places; "
                              "cannot establish that they are the same value", m.loc(n))
                continue
            moved = _between(cfg, n.id, s["nid"], es | es_cnt | es_len | m.store_ids)
            for ln_ in sorted(es_len - {n.id}):
                moved += _between(cfg, ln_, s["nid"], m.store_ids)
            ck.check(
                R,
                not moved,
                f"parse {name}: n and the buffer are the same at the sufficiency test and at the cut",
                f"{m.fk}:{name}:guard-stale",
                f"parse {name}: between the sufficiency test and the cut the count or the buffer changes "
                f"(`{cfg.nodes[moved[0]].text() if moved else ''}`)",
                loc,
            )
        # the part taken
        zero = _zero_edges(ctx, m, N)
        if zero and _path_from(cfg, sp["nid"], {s["nid"]}, avoid_edges=zero) is None:
            ck.holds(R, f"parse {name}: reached only under n == 0 - nothing in front of the trailing CRLF to take (final chunk)", loc)
            s["final"] = True
            continue
        good = _check_take(ctx, m, R, s, N, "chunk data")
        for p in good:
            aps, wit = _stored_take(m, p, s["nid"], zero)
            body_attrs |= set(aps.values())
            ck.check(
                R,
                wit is None,
                f"parse {name}: the chunk data taken is appended to persistent state ({sorted(set(aps.values()))})",
                f"{m.fk}:{name}:not-stored",
                f"parse {name}: the bytes taken from the buffer are not appended to the body on every path to the cut",
                m.loc(p["node"]),
                cfg.render_path(wit) if wit and len(wit) > 1 else None,
            )
    # -------------------------------------------------------------- final chunk: n == 0 consumes the trailing CRLF
    for sp in m.splits:
        keyed = set(m.keyed.get(sp["nid"], []))
        head, _la = m.loop_of(sp["nid"])
        if not keyed or head is None:
            continue
        ends = {head, cfg.exit.id}
        for N in sorted({m.stores[k]["base"] for k in keyed}, key=repr):
            for e in _zero_edges(ctx, m, N):
                wit = None if e[1] in keyed else cfg.find_path(e[1], ends, avoid_nodes=keyed)
                if wit is not None and cfg.find_path(sp["nid"], e[0], avoid_nodes=keyed | {head}) is None and e[0] != sp["nid"]:
                    wit = None  # the cut already happened in this iteration, before the test for the final chunk
                ck.check(
                    R,
                    wit is None,
                    f"parse {sp['name']}: on the n == 0 outcome (final chunk) the buffer is cut at n + {len(sp['D'][0])} before the iteration ends",
                    f"{m.fk}:{sp['name']}:final-chunk-not-consumed",
                    f"parse {sp['name']}: after the final chunk's size line the CRLF that ends the chunked body stays in the buffer and is "
                    "handed to the next message",
                    m.loc(cfg.nodes[e[0]]),
                    cfg.render_path([(e[0], e[2], None)] + wit) if wit else None,
                )
    # -------------------------------------------------------------- fixed length: n = content_length - len(body)
    for s in length_sites:
        name, loc, N, k = s["name"], m.loc(s["node"]), s["base"], s["k"]
        good = _check_take(ctx, m, R, s, N, "body part")
        attrs_here = set()
        for p in good:
            aps, wit = _stored_take(m, p, s["nid"])
            attrs_here |= set(aps.values())
            ck.check(
                R,
                wit is None,
                f"parse {name}: the body part taken is appended to persistent state ({sorted(set(aps.values()))})",
                f"{m.fk}:{name}:not-stored",
                f"parse {name}: the bytes taken from the buffer are not appended to the body on every path to the cut",
                m.loc(p["node"]),
                cfg.render_path(wit) if wit and len(wit) > 1 else None,
            )
        body_attrs |= attrs_here
        ck.check(
            R,
            k == 0,
            f"parse {name}: the remainder starts exactly where the part taken ends",
            f"{m.fk}:{name}:skip",
            f"parse {name}: the part taken ends at n but the remainder starts at n + {k}",
            loc,
        )
        cand = attrs_here or body_attrs
        if cl_attr is None or len(cand) != 1:
            ck.unknown(R, f"parse {name}: cannot bind the roles content-length ({cl_attr}) / body ({sorted(cand)}) needed to state n", loc)
            continue
        body = next(iter(cand))
        want = ("binop", "Sub", ("attr", m.me, cl_attr), ("call", ("glob", "len"), (("attr", m.me, body),), ()))
        if has_unknown(N):
            ck.unknown(R, f"parse {name}: the count {show(N, 80)} is not resolvable", loc)
            continue
        ck.check(
            R,
            strip_sites(N) == want,
            f"parse {name}: n = self.{cl_attr} - len(self.{body}) (what is missing to completion)",
            f"{m.fk}:{name}:count",
            f"parse {name}: a fixed-length body takes n = {show(N, 80)}; what is still missing when the body is delivered over "
            f"several reads is self.{cl_attr} - len(self.{body})",
            loc,
        )
    m.body_attrs = body_attrs
    m.cl_attr = cl_attr
    ck.require_min(R, "take-n sites", len(m.takes), 2)


# ---------------------------------------------------------------------- T3
def _t3(ctx: Context, m: _Parser) -> None:
    ck, cfg = ctx.ck, m.cfg
    R = "C07.T3"
    if not hasattr(m, "guards"):
        _quiet(ctx, lambda: _t2(ctx, m))
    n_putbacks = 0
    missing_reported = False
    concat = [r for r in m.stores.values() if r["kind"] == "concat"]
    judged: set[int] = set()
    for sp in m.splits:
        name, loc = sp["name"], m.loc(sp["node"])
        head, _la = m.loop_of(sp["nid"])
        if head is None:
            ck.unknown(R, f"parse {name}: the split is not inside a loop", loc)
            continue
        ends = {head, cfg.exit.id}
        keyed = m.keyed.get(sp["nid"], [])
        lines = sp["lines"]
        if not keyed:
            # a plain line: its content must reach persistent state before the iteration ends
            tests = [n for n in cfg.nodes if n.kind == "test" and any(_has(m.term(n, n.exprs[0]), ln) for ln in lines)]
            tedges = []
            for n in tests:
                tedges += cfg.out_edges(n, ("T", "F"))
            after = cfg.reachable_from(sp["nid"])
            commits = set()
            for nid, (_attr, v) in m.persist.items():
                if any(_has(v, ln) for ln in lines):
                    commits.add(nid)
                elif tedges and nid != sp["nid"] and nid in after and cfg.find_path(sp["nid"], nid, avoid_edges=tedges) is None:
                    commits.add(nid)
            wit = _path_from(cfg, sp["nid"], ends, avoid_nodes=commits)
            ck.check(
                R,
                wit is None,
                f"parse {name}: every consumed line reaches persistent state (by value or by a decision on it) before the iteration ends",
                f"{m.fk}:{name}:line-dropped",
                f"parse {name}: a line is removed from the buffer and the iteration ends without any store that depends on it",
                loc,
                cfg.render_path(wit) if wit else None,
            )
            continue
        # a chunk-size line: put back on the insufficient outcome, otherwise used as n by a cut
        if len(sp["D"]) != 1:
            ck.unknown(R, f"parse {name}: the position comes from searches for different delimiters {sp['D']} (see C07.T1); "
                          "the inverse of the split is not defined", loc)
            continue
        D = sp["D"][0]
        exact = [r for r in concat if len(r["parts"]) == 3 and r["parts"][0] in lines and r["parts"][1:] == (("const", D), m.buf)]
        exact_ids = {r["node"].id for r in exact}
        inexact = [r for r in concat if r["node"].id not in exact_ids]
        guards = m.guards.get(sp["nid"], [])
        if not guards:
            ck.unknown(R, f"parse {name}: no exact sufficiency test recognised (see C07.T2); the insufficient outcome cannot be located", loc)
        for g, lab in guards:
            bad = "F" if lab == "T" else "T"
            for e in ctx.edges(cfg, g, bad):
                wit = cfg.find_path(e[1], ends, avoid_nodes=exact_ids) if e[1] not in exact_ids else None
                through = [r for r in inexact if wit and any(h[0] == r["node"].id for h in wit)]
                if through:
                    r = through[0]
                    judged.add(r["node"].id)
                    missing_reported = True
                    ck.violated(
                        R,
                        f"{m.fk}:{name}:putback-not-inverse",
                        f"parse {name}: on the insufficient outcome the buffer is restored to {show(r['value'], 160)}, which is not "
                        f"line + {D!r} + rest (the two halves of the split, in order)",
                        m.loc(r["node"]),
                        cfg.render_path([(g.id, bad, None)] + wit),
                        f"parse {name}: the put-back is the exact inverse of the split",
                    )
                else:
                    missing_reported = missing_reported or wit is not None
                    ck.check(
                        R,
                        wit is None,
                        f"parse {name}: every path over the insufficient outcome restores line + {D!r} + rest",
                        f"{m.fk}:{name}:putback-missing",
                        f"parse {name}: when fewer than n + {len(D)} bytes have arrived the size line stays consumed: the next "
                        "call would read chunk data as a size line",
                        m.loc(g),
                        cfg.render_path([(g.id, bad, None)] + wit) if wit else None,
                    )
        for r in exact:
            n_putbacks += 1
            pb = r["node"].id
            judged.add(pb)
            es = m.evalsites(pb, r["node"].ast.value) - {pb}
            line_nodes = {p["node"].id for p in m.prefixes if p["term"] == r["parts"][0] and sp["nid"] in m.next_stores(p["node"].id)}
            moved = _between(cfg, sp["nid"], pb, m.store_ids | line_nodes | sp["fnodes"])
            ck.check(
                R,
                not moved and bool(line_nodes) and line_nodes <= es,
                f"parse {name}: the put-back joins the line and the remainder of the same split (nothing moves in between)",
                f"{m.fk}:{name}:putback-stale",
                f"parse {name}: between the split and the put-back the buffer or the line changes "
                f"(`{cfg.nodes[moved[0]].text() if moved else 'line from another definition'}`)",
                m.loc(r["node"]),
            )
            again = sp["nid"] in cfg.reachable_from(pb)
            ck.check(
                R,
                not again,
                f"parse {name}: after the put-back the loop is left (the restored bytes wait for the next read)",
                f"{m.fk}:{name}:putback-reparsed",
                f"parse {name}: after the put-back the same bytes are split again in the same call",
                m.loc(r["node"]),
            )
            only_bad = True
            for g, lab in guards:
                if cfg.find_path(cfg.entry.id, pb, avoid_edges=ctx.edges(cfg, g, "F" if lab == "T" else "T")) is not None:
                    only_bad = False
            ck.check(
                R,
                only_bad and bool(guards),
                f"parse {name}: the put-back happens only on the insufficient outcome",
                f"{m.fk}:{name}:putback-unguarded",
                f"parse {name}: the size line is put back although the chunk may be complete (the loop would never advance)",
                m.loc(r["node"]),
            )
        gates = []
        for nid in exact_ids | set(keyed):
            gates += ctx.normal_out(cfg, nid)
        wit = _path_from(cfg, sp["nid"], ends, avoid_edges=gates)
        ck.check(
            R,
            wit is None,
            f"parse {name}: a consumed size line is either put back or used as the n of a cut before the iteration ends",
            f"{m.fk}:{name}:size-line-dropped",
            f"parse {name}: an iteration can end with the size line consumed, not put back and not used",
            loc,
            cfg.render_path(wit) if wit else None,
        )
    for r in concat:
        if r["node"].id not in judged:
            ck.unknown(R, f"parse: `{r['node'].text()}` concatenates onto the buffer but is neither the append of the read nor a "
                          "put-back on an insufficient outcome", m.loc(r["node"]))
    if not missing_reported:
        ck.require_min(R, "exact put-back sites", n_putbacks, 1)


def _quiet(ctx: Context, fn) -> None:
    """Run a rule body only for the model facts it derives (used when --only excludes the rule itself)."""
    ck = ctx.ck
    keep = list(ck.instances)
    try:
        fn()
    finally:
        ck.instances[:] = keep


# ---------------------------------------------------------------------- G1
def _g1_parse(ctx: Context, m: _Parser) -> None:
    ck, cfg = ctx.ck, m.cfg
    R = "C07.G1"
    # every access of the buffer happens after the read was appended to it
    gates = []
    for a in m.appends:
        gates += ctx.normal_out(cfg, a)
    targets = sorted((m.read_nodes | m.store_ids | {n.id for n in cfg.nodes if n.kind == "return"}) - {a.id for a in m.appends})
    wit = None
    for t in targets:
        wit = cfg.find_path(cfg.entry.id, t, avoid_edges=gates)
        if wit is not None:
            break
    ck.check(
        R,
        wit is None and bool(m.appends),
        f"parse: every use of self.{m.battr} ({len(targets)} nodes) comes after `self.{m.battr} += part`",
        f"{m.fk}:append-first",
        f"parse: self.{m.battr} is used or parse returns without the new read having been appended to the persistent buffer",
        m.loc(),
        cfg.render_path(wit) if wit else None,
    )
    for r in m.stores.values():
        if r["kind"] == "overwrite":
            ck.violated(
                R,
                f"{m.fk}:buffer-overwritten",
                f"parse: `{r['node'].text()}` replaces the persistent buffer: bytes kept from earlier reads are discarded",
                m.loc(r["node"]),
                None,
                "parse: the persistent buffer is never overwritten",
            )
    # only parse (and the constructor, with an empty value) writes the buffer
    writers = []
    empty_init = True
    for meth in ctx.prog.cls(RESP).methods.values():
        if isinstance(meth.node, ast.Lambda):
            continue
        mcfg = ctx.cfg(meth.qualname)
        if not meth.pos_params:
            continue
        me = ("param", meth.pos_params[0])
        for n in mcfg.nodes:
            st = n.ast
            if n.kind != "stmt" or not isinstance(st, (ast.Assign, ast.AugAssign, ast.AnnAssign, ast.Delete)):
                continue
            tg = st.targets if isinstance(st, (ast.Assign, ast.Delete)) else [st.target]
            for t in tg:
                base = t.value if isinstance(t, ast.Subscript) else t
                if isinstance(base, ast.Attribute) and base.attr == m.battr and ctx.terms.of(mcfg, n, base.value) == me:
                    writers.append(meth.qualname)
                    if meth.qualname == INIT:
                        v = ctx.terms.of(mcfg, n, st.value) if isinstance(st, ast.Assign) else ("unknown", "init")
                        empty = v == ("const", b"") or (v[0] == "call" and v[1] in (("glob", "bytearray"), ("glob", "bytes")) and not v[2] and not v[3])
                        empty_init = empty_init and empty
    ck.check(
        R,
        set(writers) <= {PARSE, INIT} and empty_init,
        f"HttpResponse: self.{m.battr} is written only by parse and starts empty",
        f"{RESP}:buffer-writers",
        f"HttpResponse: self.{m.battr} is written by {sorted(set(writers))}" + ("" if empty_init else " and does not start empty"),
        ctx.func(INIT).loc(),
    )
    # leftover flow: the buffer is returned exactly on the 'complete' outcome
    tests = []
    for n in cfg.nodes:
        if n.kind == "test" and isinstance(n.exprs[0], ast.Call) and isinstance(n.exprs[0].func, ast.Attribute):
            c = n.exprs[0]
            if ctx.callee_names(m.f, c) == [IRC] and m.term(n, c.func.value) == m.me and not c.args:
                tests.append(n)
    t_edges, f_edges = [], []
    for n in tests:
        t_edges += ctx.edges(cfg, n, "T")
        f_edges += ctx.edges(cfg, n, "F")
    n_ret = 0
    all_state_stores = set(m.persist) | m.store_ids
    for n in cfg.nodes:
        if n.kind != "return":
            continue
        v = m.term(n, n.exprs[0]) if n.exprs else ("const", None)
        if v == m.buf and n in m.ret_buf:
            kind, gate, gname = "the unconsumed buffer", t_edges, "complete"
        elif v == ("const", b"") or (v[0] == "call" and v[1] in (("glob", "bytearray"), ("glob", "bytes")) and not v[2] and not v[3]):
            kind, gate, gname = "an empty buffer", f_edges, "incomplete"
        else:
            ck.unknown(R, f"parse: returns {show(v, 80)}, neither the buffer nor an empty buffer", m.loc(n))
            continue
        n_ret += 1
        wit = cfg.find_path(cfg.entry.id, n.id, avoid_edges=gate)
        ck.check(
            R,
            wit is None,
            f"parse: returns {kind} only on the '{gname}' outcome of is_read_completely()",
            f"{m.fk}:return-{gname}",
            f"parse: returns {kind} on a path that does not pass the '{gname}' outcome of is_read_completely(): "
            + ("bytes of a message still being read are handed to the next message / fed again"
               if gname == "complete" else "bytes that follow a complete message are dropped"),
            m.loc(n),
            cfg.render_path(wit) if wit else None,
        )
        for t in tests:
            moved = _between(cfg, t.id, n.id, all_state_stores)
            ck.check(
                R,
                not moved,
                f"parse: no state changes between the completion test and `{'return buffer' if gname == 'complete' else 'return empty'}`",
                f"{m.fk}:return-{gname}:stale-test",
                f"parse: `{cfg.nodes[moved[0]].text() if moved else ''}` changes parser state between the completion test and the return",
                m.loc(n),
            )
    fall = [s for (s, _l, _e) in cfg.exit.pred if cfg.nodes[s].kind != "return"]
    ck.check(
        R,
        not fall,
        "parse: every normal exit is an explicit return",
        f"{m.fk}:falls-off",
        "parse: can fall off its end and return None instead of the leftover",
        m.loc(),
    )
    ck.require_min(R, "completion tests in parse", len(tests), 1)
    ck.require_min(R, "returns of parse", n_ret, 2)


def _g1_feed(ctx: Context, m: _Parser) -> None:
    ck = ctx.ck
    R = "C07.G1"
    f = ctx.func(FEED)
    cfg = ctx.cfg(FEED)
    T = ctx.terms
    fk = ctx.fkey(f)
    if len(f.pos_params) != 2:
        ck.unknown(R, "data_received no longer has the parameters (self, data)", f.loc())
        return
    me, data = ("param", f.pos_params[0]), ("param", f.pos_params[1])
    def calls_method(n, c, q: str) -> bool:
        """``c`` calls the HttpResponse method ``q`` (resolver, or receiver term self.<attr> typed HttpResponse)."""
        if q in ctx.callee_names(f, c):
            return True
        if isinstance(c.func, ast.Attribute) and c.func.attr == q.rsplit(".", 1)[1]:
            recv = T.of(cfg, n, c.func.value)
            if recv[0] == "attr" and recv[1] == me and f.cls is not None:
                return ctx.res.attr_type(f.cls.qualname, recv[2]) == {RESP}
        return False

    calls = []
    for n in cfg.nodes:
        for c in ctx.calls(n):
            if calls_method(n, c, PARSE):
                calls.append((n, c, T.of(cfg, n, c)))
    if not calls:
        ck.unknown(R, "data_received: no call of HttpResponse.parse found", f.loc())
        return
    cur = set()
    for n, c, t in calls:
        recv = T.of(cfg, n, c.func.value) if isinstance(c.func, ast.Attribute) else ("unknown", "")
        if recv[0] == "attr" and recv[1] == me and t[0] == "call" and len(c.args) == 1 and not c.keywords:
            cur.add(recv[2])
        else:
            cur.add(None)
    if len(cur) != 1 or None in cur:
        ck.unknown(R, "data_received: parse is not called as self.<current>.parse(<one argument>)", f.loc())
        return
    cur_attr = next(iter(cur))
    cur_t = ("attr", me, cur_attr)
    sites = {t[4] for _n, _c, t in calls}
    a_ids = {n.id for n, _c, _t in calls}

    def leftover(t) -> bool:
        return t == data or (t[0] == "call" and len(t) == 5 and t[4] in sites)

    def result_of(t, al) -> bool:
        """the value returned by parse call ``t`` is among the alternatives (calls are identified by their site)"""
        return any(a[0] == "call" and len(a) == 5 and a[4] == t[4] for a in al)

    # emptiness tests of a leftover
    etests = []  # (node, alternatives, label taken when empty)
    for n in cfg.nodes:
        if n.kind != "test":
            continue
        t = T.of(cfg, n, n.exprs[0])
        x, empty = t, "F"
        c = _cmp1(t)
        if c is not None:
            op, l, r = c
            if _is_len(l) and r == ("const", 0) and op in ("Gt", "NotEq", "Eq"):
                x, empty = l[2][0], ("T" if op == "Eq" else "F")
            elif _is_len(r) and l == ("const", 0) and op in ("Lt", "NotEq", "Eq"):
                x, empty = r[2][0], ("T" if op == "Eq" else "F")
            else:
                continue
        al = _alts(x)
        if al and all(leftover(a) for a in al):
            etests.append((n, al, empty))
    for n, c, t in calls:
        gates = []
        for tn, al, empty in etests:
            if result_of(t, al):
                gates += ctx.edges(cfg, tn, empty)
        wit = _path_from(cfg, n.id, {cfg.exit.id}, avoid_edges=gates)
        if wit is not None:
            # the way out may be the "message not complete yet" outcome of the parser's own completion predicate: whether the
            # parser then has kept everything (and handed back nothing) is a fact about parse(), not about this loop
            inc_edges = []
            for tn in cfg.nodes:
                if tn.kind == "test":
                    tt = strip_sites(T.of(cfg, tn, tn.exprs[0]))
                    neg = False
                    while tt[0] == "unop" and tt[1] == "Not":
                        tt, neg = tt[2], not neg
                    if tt[0] == "call" and tt[1][0] == "attr" and tt[1][2] == "is_read_completely":
                        inc_edges += ctx.edges(cfg, tn, "T" if neg else "F")
            if inc_edges and _path_from(cfg, n.id, {cfg.exit.id}, avoid_edges=gates + inc_edges) is None:
                ck.unknown(R, "data_received leaves the loop on the `not is_read_completely()` outcome without looking at the leftover: whether parse() hands back nothing for an "
                              "incomplete message is a property of parse() that this obligation does not use - not decided", ctx.loc(f, n))
                continue
        ck.check(
            R,
            wit is None,
            "data_received: the loop ends only when the leftover returned by parse() is empty",
            f"{fk}:leftover-examined",
            "data_received: data_received can return while the leftover of the last parse() call was not tested for emptiness "
            "(bytes after a complete message are dropped / the result of parse is ignored)",
            ctx.loc(f, n),
            cfg.render_path(wit) if wit else None,
        )
        arg = _alts(T.of(cfg, n, c.args[0]))
        prevs = [t2 for n2, _c2, t2 in calls if _path_from(cfg, n2.id, {n.id}) is not None]
        ok = all(leftover(a) for a in arg) and data in arg and all(result_of(p, arg) for p in prevs)
        ck.check(
            R,
            ok,
            "data_received: parse() is fed the read, then the leftover of the previous parse() call",
            f"{fk}:leftover-fed",
            f"data_received: parse() is called with {show(T.of(cfg, n, c.args[0]), 100)}, which is not (only) the read and the "
            "leftover returned by the previous call",
            ctx.loc(f, n),
        )
    # completion test and renewal
    ctests = []
    for n in cfg.nodes:
        if n.kind == "test" and isinstance(n.exprs[0], ast.Call) and isinstance(n.exprs[0].func, ast.Attribute):
            c = n.exprs[0]
            if calls_method(n, c, IRC) and T.of(cfg, n, c.func.value) == cur_t and not c.args:
                ctests.append(n)
    renew, other_w = [], []
    for n in cfg.nodes:
        st = n.ast
        if n.kind == "stmt" and isinstance(st, (ast.Assign, ast.AugAssign, ast.AnnAssign)):
            tg = st.targets if isinstance(st, ast.Assign) else [st.target]
            for t in tg:
                if isinstance(t, ast.Attribute) and T.of(cfg, n, t) == cur_t:
                    v = st.value
                    if isinstance(st, ast.Assign) and isinstance(v, ast.Call) and ctx.callee_names(f, v) == [INIT] and not v.args and not v.keywords:
                        renew.append(n)
                    else:
                        other_w.append(n)
    for n in other_w:
        ck.unknown(R, f"data_received: self.{cur_attr} assigned something other than a fresh HttpResponse(): `{n.text()}`", ctx.loc(f, n))
    r_ids = {n.id for n in renew}
    t_edges = []
    for n in ctests:
        t_edges += ctx.edges(cfg, n, "T")
    for n, _c, _t in calls:
        wit = _path_from(cfg, n.id, r_ids, avoid_edges=t_edges) if r_ids else None
        ck.check(
            R,
            wit is None,
            f"data_received: self.{cur_attr} is renewed only after parse() and the 'complete' outcome of is_read_completely()",
            f"{fk}:renewed-when-incomplete",
            f"data_received: self.{cur_attr} is replaced although the message being parsed is not known to be complete: its bytes are lost",
            ctx.loc(f, n),
            cfg.render_path(wit) if wit else None,
        )
    n_t = 0
    for tn in ctests:
        for e in ctx.edges(cfg, tn, "T"):
            n_t += 1
            wit = None if e[1] in r_ids else cfg.find_path(e[1], a_ids | {cfg.exit.id}, avoid_nodes=r_ids)
            ck.check(
                R,
                wit is None,
                f"data_received: after the 'complete' outcome a fresh HttpResponse replaces self.{cur_attr} before the next parse()/return",
                f"{fk}:not-renewed",
                f"data_received: after a complete message the next bytes are parsed by the same, finished HttpResponse "
                f"(self.{cur_attr} is not renewed): its own leftover is appended to itself",
                ctx.loc(f, tn),
                cfg.render_path([(tn.id, "T", None)] + wit) if wit else None,
            )
        moved = [a for a in a_ids if _between(cfg, a, tn.id, r_ids)]
        ck.check(
            R,
            not moved,
            "data_received: the completion test looks at the response that parse() just filled",
            f"{fk}:completion-of-fresh",
            f"data_received: self.{cur_attr} is renewed between parse() and the completion test",
            ctx.loc(f, tn),
        )
    # the finished message is not used after it was replaced
    uses = []
    for n in cfg.nodes:
        if n.id in a_ids:
            continue
        for c in ctx.calls(n):
            if any(T.of(cfg, n, x) == cur_t for x in list(c.args) + [k.value for k in c.keywords]):
                uses.append(n)
    for u in uses:
        wit = None
        for r in sorted(r_ids):
            wit = _path_from(cfg, r, {u.id}, avoid_nodes=a_ids)
            if wit is not None:
                break
        ck.check(
            R,
            wit is None,
            f"data_received: `{u.text()[:60]}` hands over the finished message before it is replaced",
            f"{fk}:dispatch-after-renewal",
            f"data_received: `{u.text()[:80]}` runs after self.{cur_attr} was replaced and hands over the fresh, empty response",
            ctx.loc(f, u),
            cfg.render_path(wit) if wit else None,
        )
    # nobody else replaces the current response
    writers = set()
    classes = {PROTO} | set(ctx.prog.subclasses(PROTO))
    for cq in sorted(classes):
        for meth in ctx.prog.cls(cq).methods.values():
            if isinstance(meth.node, ast.Lambda) or not meth.pos_params:
                continue
            for x in ast.walk(meth.node):
                if isinstance(x, ast.Attribute) and x.attr == cur_attr and isinstance(x.ctx, (ast.Store, ast.Del)):
                    writers.add(meth.qualname)
    ck.check(
        R,
        writers <= {FEED, f"{PROTO}.__init__"},
        f"self.{cur_attr} is assigned only by the constructor and the feed loop",
        f"{PROTO}:current-writers",
        f"self.{cur_attr} is also assigned by {sorted(writers - {FEED, PROTO + '.__init__'})}: a half-parsed message can be dropped",
        f.loc(),
    )
    ck.require_min(R, "parse() calls in the feed loop", len(calls), 1)
    ck.require_min(R, "completion tests in the feed loop", n_t, 1)
    ck.require_min(R, "hand-over sites of the finished message", len(uses), 2)


# ---------------------------------------------------------------------- K1
class _Unrec(Exception):
    pass


def _k1(ctx: Context, m: _Parser) -> None:
    ck, cfg = ctx.ck, m.cfg
    R = "C07.K1"
    f = ctx.func(IRC)
    icfg = ctx.cfg(IRC)
    T = ctx.terms
    fk = ctx.fkey(f)
    if len(f.pos_params) != 1:
        ck.unknown(R, "is_read_completely no longer has the single parameter self", f.loc())
        return
    me = ("param", f.pos_params[0])
    if not hasattr(m, "body_attrs"):
        _quiet(ctx, lambda: _t2(ctx, m))
    # ---- roles, bound in parse
    chunk_splits = [sp for sp in m.splits if m.keyed.get(sp["nid"])]
    flags, states = set(), set()
    for sp in chunk_splits:
        for n in cfg.nodes:
            if n.kind != "test":
                continue
            t = m.term(n, n.exprs[0])
            if t[0] == "attr" and t[1] == m.me:
                if cfg.find_path(cfg.entry.id, sp["nid"], avoid_edges=ctx.edges(cfg, n, "T")) is None:
                    flags.add(t[2])
            c = _cmp1(t)
            if c and c[0] == "Eq":
                for a, b in ((c[1], c[2]), (c[2], c[1])):
                    if a[0] == "attr" and a[1] == m.me and _is_int(b):
                        if cfg.find_path(cfg.entry.id, sp["nid"], avoid_edges=ctx.edges(cfg, n, "T")) is None:
                            states.add((a[2], b[1]))
    empties = set()
    for s in m.takes:
        if s.get("final"):
            sp = s["split"]
            for nid, (attr, v) in m.persist.items():
                if v == ("const", True) and nid in cfg.reachable_from(sp["nid"]) and _between(cfg, sp["nid"], s["nid"], [nid]):
                    empties.add(attr)
    # the same role when one cut serves every chunk: the flag set to True only on the outcome `chunk size == 0`
    for sp in chunk_splits:
        for N in sorted({m.stores[k]["base"] for k in m.keyed.get(sp["nid"], [])}, key=repr):
            zero = _zero_edges(ctx, m, N)
            if not zero:
                continue
            for nid, (attr, v) in m.persist.items():
                if v == ("const", True) and nid in cfg.reachable_from(sp["nid"]) and _path_from(cfg, sp["nid"], {nid}, avoid_edges=zero) is None:
                    empties.add(attr)
    # initial values
    init = {}
    icf = ctx.func(INIT)
    incfg = ctx.cfg(INIT)
    ime = ("param", icf.pos_params[0]) if icf.pos_params else None
    for n in incfg.nodes:
        st = n.ast
        if n.kind == "stmt" and isinstance(st, ast.Assign):
            for t in st.targets:
                if isinstance(t, ast.Attribute) and T.of(incfg, n, t.value) == ime:
                    init.setdefault(t.attr, []).append(T.of(incfg, n, st.value))
    cl = getattr(m, "cl_attr", None)
    body = next(iter(m.body_attrs)) if len(m.body_attrs) == 1 else None
    if len(flags) != 1 or len(states) != 1 or len(empties) != 1 or cl is None or body is None:
        ck.unknown(
            R,
            f"cannot bind the roles from parse: chunked flag {sorted(flags)}, state/body constant {sorted(states)}, "
            f"empty-chunk flag {sorted(empties)}, content-length {cl}, body {sorted(m.body_attrs)}",
            m.loc(),
        )
        return
    ch, em = next(iter(flags)), next(iter(empties))
    st_attr, body_c = next(iter(states))
    iv = init.get(cl, [])
    if len(iv) != 1 or not _is_int(iv[0]):
        ck.unknown(R, f"__init__ does not give self.{cl} one integer initial value", icf.loc())
        return
    sent = iv[0][1]
    ck.holds(
        R,
        f"roles bound in parse: chunked=self.{ch}, empty-chunk=self.{em}, state=self.{st_attr} (body phase = {body_c}), "
        f"content-length=self.{cl} (initially {sent}), body=self.{body}",
        m.loc(),
    )
    # header phase is everything below the body constant: the header split runs only under state < body
    for sp in m.splits:
        if sp in chunk_splits:
            continue
        gates = []
        for n in cfg.nodes:
            if n.kind == "test":
                c = _cmp1(m.term(n, n.exprs[0]))
                if c and c[1] == ("attr", m.me, st_attr) and c[2] == ("const", body_c) and c[0] == "Lt":
                    gates += ctx.edges(cfg, n, "T")
                if c and c[2] == ("attr", m.me, st_attr) and c[1] == ("const", body_c) and c[0] == "Gt":
                    gates += ctx.edges(cfg, n, "T")
        wit = cfg.find_path(cfg.entry.id, sp["nid"], avoid_edges=gates)
        ck.check(
            R,
            wit is None,
            f"parse {sp['name']}: header lines are consumed only while self.{st_attr} < {body_c} (the phase the predicate calls 'headers not done')",
            f"{m.fk}:{sp['name']}:header-phase",
            f"parse {sp['name']}: header lines are consumed outside self.{st_attr} < {body_c}; the completion predicate's notion of "
            "'headers done' no longer matches the parser",
            m.loc(sp["node"]),
            cfg.render_path(wit) if wit else None,
        )
    for attr, want in ((ch, False), (em, False)):
        got = init.get(attr, [])
        ck.check(
            R,
            got == [("const", want)],
            f"__init__: self.{attr} starts {want}",
            f"{RESP}:init:{attr}",
            f"__init__: self.{attr} starts as {[show(g) for g in got]}, expected {want}",
            icf.loc(),
        )
    # ---- purity + collection of the quantities the predicate reads
    terms = []
    for n in icfg.nodes:
        if n.kind == "stmt" and isinstance(n.ast, (ast.Assign, ast.AugAssign, ast.AnnAssign, ast.Delete)):
            tg = n.ast.targets if isinstance(n.ast, (ast.Assign, ast.Delete)) else [n.ast.target]
            if any(not isinstance(t, ast.Name) for t in tg):
                ck.unknown(R, f"is_read_completely changes state: `{n.text()}`", ctx.loc(f, n))
                return
        if n.kind == "test":
            terms.append(T.of(icfg, n, n.exprs[0]))
        if n.kind == "return" and n.exprs:
            terms.append(T.of(icfg, n, n.exprs[0]))
    consts = {body_c, sent, 0}
    for t in terms:
        for s in subterms(t):
            if _is_int(s):
                consts.add(s[1])
    ints = sorted({c + d for c in consts for d in (-1, 0, 1)})
    lens = sorted({c + d for c in consts for d in (-2, -1, 0, 1, 2) if c + d >= 0})

    def ev(t, env):
        k = t[0]
        if k == "const":
            return t[1]
        if k == "attr" and t[1] == me and t[2] in env:
            return env[t[2]]
        if _is_len(t) and t[2][0] == ("attr", me, body):
            return env["len"]
        if k == "cmp":
            vals = [ev(x, env) for x in t[2]]
            for op, a, b in zip(t[1], vals, vals[1:]):
                if op not in PYOP:
                    raise _Unrec(show(t, 80))
                if not PYOP[op](a, b):
                    return False
            return True
        if k == "unop" and t[1] == "Not":
            return not ev(t[2], env)
        if k == "bool":
            v = None
            for x in t[2]:
                v = ev(x, env)
                if (t[1] == "And" and not v) or (t[1] == "Or" and v):
                    return v
            return v
        if k == "ifexp":
            return ev(t[2], env) if ev(t[1], env) else ev(t[3], env)
        raise _Unrec(show(t, 80))

    def run_pred(env):
        cur, steps = icfg.entry.id, 0
        while steps < 200:
            steps += 1
            n = icfg.nodes[cur]
            if n.kind == "return":
                return bool(ev(T.of(icfg, n, n.exprs[0]), env)) if n.exprs else False
            if n.kind == "exit":
                return False
            if n.kind == "test":
                want = "T" if ev(T.of(icfg, n, n.exprs[0]), env) else "F"
                nxt = [d for d, l, _e in n.succ if l == want]
            elif n.kind in ("entry", "stmt", "loop_head"):
                nxt = [d for d, l, _e in n.succ if l == "n"]
            else:
                raise _Unrec(f"statement kind {n.kind}")
            if len(nxt) != 1:
                raise _Unrec(f"no unique successor of `{n.text()}`")
            cur = nxt[0]
        raise _Unrec("loop")

    cases = {
        "chunked, empty chunk seen -> complete": lambda e: e[ch] and e[em],
        "chunked, no empty chunk yet -> incomplete": lambda e: e[ch] and not e[em],
        "not chunked, headers not done -> incomplete": lambda e: not e[ch] and e[st_attr] < body_c,
        "not chunked, headers done, no content-length -> complete": lambda e: not e[ch] and e[st_attr] >= body_c and e[cl] == sent,
        "not chunked, headers done, len(body) == content-length -> complete": lambda e: not e[ch]
        and e[st_attr] >= body_c and e[cl] != sent and e["len"] == e[cl],
        "not chunked, headers done, len(body) != content-length -> incomplete": lambda e: not e[ch]
        and e[st_attr] >= body_c and e[cl] != sent and e["len"] != e[cl],
    }
    bad: dict[str, tuple] = {}
    count = {k: 0 for k in cases}
    try:
        for vch in (False, True):
            for vem in (False, True):
                for vs in ints:
                    for vcl in ints:
                        for vl in lens:
                            env = {ch: vch, em: vem, st_attr: vs, cl: vcl, "len": vl}
                            spec = (vem) if vch else (vs >= body_c and (vcl == sent or vl == vcl))
                            got = run_pred(env)
                            for name, sel in cases.items():
                                if sel(env):
                                    count[name] += 1
                                    if got != bool(spec):
                                        odd = (vs < 0, vcl < 0 and vcl != sent, abs(vs) + abs(vcl) + vl)
                                        if name not in bad or odd < bad[name][2]:
                                            bad[name] = (dict(env), got, odd)
    except _Unrec as e:
        ck.unknown(R, f"is_read_completely: cannot evaluate `{e}` over the parser state (unrecognised form)", f.loc())
        return
    ck.stats["k1_valuations"] = sum(count.values())
    for name in cases:
        b = bad.get(name)
        envs = ""
        if b:
            e = b[0]
            envs = f"self.{ch}={e[ch]}, self.{em}={e[em]}, self.{st_attr}={e[st_attr]}, self.{cl}={e[cl]}, len(self.{body})={e['len']}"
        ck.check(
            R,
            b is None,
            f"is_read_completely: {name} ({count[name]} abstract states)",
            f"{fk}:{name.split(' ->')[0]}",
            f"is_read_completely answers {b[1] if b else ''} for {envs}; expected: {name}",
            f.loc(),
        )


# ---------------------------------------------------------------------- driver
def run(ctx: Context) -> None:
    ck = ctx.ck
    rules = [
        ("C07.T1", "split-at-delimiter sites: line and remainder use the same position, len(delimiter) skipped", _t1),
        ("C07.T2", "take-n sites: same n for the part taken and the part kept, exact sufficiency test", _t2),
        ("C07.T3", "the put-back is the exact inverse of the split; no consumed line is dropped", _t3),
        ("C07.G1", "persistence of the buffer and flow of the leftover through the feed loop", None),
        ("C07.K1", "completion predicate", _k1),
    ]
    m = None
    for rid, title, fn in rules:
        if not ck.rule(rid, title):
            continue
        if m is None:
            m = _Parser(ctx)
        _report_problems(ctx, m, rid)
        if m.fatal:
            ck.unknown(rid, "the model of HttpResponse.parse could not be built", m.loc())
            continue
        if m.problems and rid in ("C07.T1", "C07.T2", "C07.T3"):
            # an access to the buffer that the model does not understand (an in-place splice, a helper, an alias across a
            # re-assignment) makes every byte-accounting verdict derived from the model unreliable: not decided, no report
            ck.unknown(rid, f"byte accounting of parse not decided: {len(m.problems)} access(es) to the buffer are outside the model (listed above)", m.loc())
            continue
        if fn is not None:
            fn(ctx, m)
        else:
            _g1_parse(ctx, m)
            _g1_feed(ctx, m)


def run_thorough(ctx: Context) -> None:
    """Whole-package sweep: nobody outside HttpResponse touches the parser's buffer; parse() has one caller (the
    feed loop); the response object under construction is replaced nowhere else."""
    ck = ctx.ck
    if not ck.rule("C07.S1", "sweep: the parser's buffer and parse() are used only by the analysed anchors"):
        return
    m = _Parser(ctx)
    if m.fatal:
        ck.unknown("C07.S1", "the model of HttpResponse.parse could not be built", m.loc())
        return
    touch, callers = [], []
    n_funcs = 0
    for f in ctx.prog.package_functions():
        if isinstance(f.node, ast.Lambda):
            continue
        n_funcs += 1
        inside = f.cls is not None and f.cls.qualname == RESP
        for x in ast.walk(f.node):
            if isinstance(x, ast.Attribute) and x.attr == m.battr and not inside:
                touch.append(f.qualname)
            if isinstance(x, ast.Call) and PARSE in ctx.callee_names(f, x):
                callers.append(f.qualname)
    ck.check(
        "C07.S1",
        not touch,
        f"sweep over {n_funcs} functions: .{m.battr} is accessed only inside HttpResponse",
        f"{RESP}:buffer-touched-outside",
        f".{m.battr} is accessed outside HttpResponse by {sorted(set(touch))}",
        m.loc(),
    )
    ck.check(
        "C07.S1",
        set(callers) == {FEED},
        "sweep: HttpResponse.parse is called only by InsecureHomeKitProtocol.data_received",
        f"{RESP}:parse-callers",
        f"HttpResponse.parse is called by {sorted(set(callers))}; only the analysed feed loop is known to carry the leftover on",
        m.loc(),
    )


MANIFEST = {
    "technique": "classification of every access of the parser's persistent buffer + def-use terms for slice bounds "
    "(the same term must bound the part taken and the part kept, constants against len(CRLF)) + CFG must-pass/"
    "no-update-between path queries + exhaustive evaluation of the completion predicate over the order types of the "
    "parser state",
    "level_text": "Static, all paths: decides the byte-accounting condition of the incremental parser - every byte appended "
    "to the buffer is, on every CFG path of parse, either taken exactly once into persistent state, skipped as a "
    "located CRLF, put back exactly, or left in the buffer and handed to a fresh HttpResponse by the feed loop exactly "
    "when is_read_completely() holds - and that is_read_completely equals the specified predicate on all abstract states.",
    "level_note": "This is a necessary condition for segmentation independence, not the property itself: a state-machine bug "
    "that keeps byte accounting exact (wrong phase transition, wrong interpretation of a header) is not decided, and the "
    "equality of parsed and sent messages over all streams and cut points is not explored. Trusted: bytes/bytearray "
    "semantics (find, slices, +), int(), ast parse = what runs. Unrecognised buffer accesses or restructurings end in "
    "ANALYSIS-ERROR (exit 2), never in a pass.",
}

TWIN_FILES = [
    "aiohomekit/http/response.py",
    "aiohomekit/controller/ip/connection.py",
]
_RF = "aiohomekit/http/response.py"
_CF = "aiohomekit/controller/ip/connection.py"
VARIANTS = [
    {
        "name": "final chunk cut at the constant 2 before the sufficiency test",
        "file": _RF,
        "old": "                if length + 2 > len(self._raw_response):\n                    self._raw_response = line + b\"\\r\\n\" + self._raw_response\n",
        "new": "                if length == 0:\n                    self._had_empty_chunk = True\n                    self._state = HttpResponse.STATE_DONE\n                    self._raw_response = self._raw_response[2:]\n                    break\n                if length + 2 > len(self._raw_response):\n                    self._raw_response = line + b\"\\r\\n\" + self._raw_response\n",
        "expect": "C07.T2",
    },
    {
        "name": "put-back line deleted",
        "file": _RF,
        "old": '                    self._raw_response = line + b"\\r\\n" + self._raw_response\n',
        "new": "",
        "expect": "C07.T3",
    },
    {
        "name": "header split skips pos + 1",
        "file": _RF,
        "old": "            self._raw_response = self._raw_response[pos + 2 :]\n            if self._state == HttpResponse.STATE_PRE_STATUS:",
        "new": "            self._raw_response = self._raw_response[pos + 1 :]\n            if self._state == HttpResponse.STATE_PRE_STATUS:",
        "expect": "C07.T1",
    },
    {
        "name": "remaining = self._content_length",
        "file": _RF,
        "old": "            remaining = self._content_length - len(self.body)\n",
        "new": "            remaining = self._content_length\n",
        "expect": "C07.T2",
    },
    {
        "name": "parse always returns the buffer",
        "file": _RF,
        "old": "        return bytearray()\n",
        "new": "        return self._raw_response\n",
        "expect": "C07.G1",
    },
    {
        "name": "current_response not renewed",
        "file": _CF,
        "old": "                self.current_response = HttpResponse()\n\n    def eof_received",
        "new": "                pass\n\n    def eof_received",
        "expect": "C07.G1",
    },
    {
        "name": "chunk data taken one byte short",
        "file": _RF,
        "old": "                line = self._raw_response[:length]\n",
        "new": "                line = self._raw_response[: length - 1]\n",
        "expect": "C07.T2",
    },
    {
        "name": "chunk-size line taken one byte long",
        "file": _RF,
        "old": "                line = self._raw_response[:pos]\n                self._raw_response = self._raw_response[pos + 2 :]\n                length = int(line, 16)",
        "new": "                line = self._raw_response[: pos + 1]\n                self._raw_response = self._raw_response[pos + 2 :]\n                length = int(line, 16)",
        "expect": "C07.T1",
    },
    {
        "name": "sufficiency guard >= instead of >",
        "file": _RF,
        "old": "                if length + 2 > len(self._raw_response):",
        "new": "                if length + 2 >= len(self._raw_response):",
        "expect": "C07.T2",
    },
    {
        "name": "sufficiency guard forgets the trailing CRLF",
        "file": _RF,
        "old": "                if length + 2 > len(self._raw_response):",
        "new": "                if length > len(self._raw_response):",
        "expect": "C07.T2",
    },
    {
        "name": "chunk data cut at length + 1",
        "file": _RF,
        "old": "                self.body += line\n                self._raw_response = self._raw_response[length + 2 :]",
        "new": "                self.body += line\n                self._raw_response = self._raw_response[length + 1 :]",
        "expect": "C07.T2",
    },
    {
        "name": "put-back with a one-byte delimiter",
        "file": _RF,
        "old": '                    self._raw_response = line + b"\\r\\n" + self._raw_response\n',
        "new": '                    self._raw_response = line + b"\\n" + self._raw_response\n',
        "expect": "C07.T3",
    },
    {
        "name": "put-back in the wrong order",
        "file": _RF,
        "old": '                    self._raw_response = line + b"\\r\\n" + self._raw_response\n',
        "new": '                    self._raw_response = self._raw_response + b"\\r\\n" + line\n',
        "expect": "C07.T3",
    },
    {
        "name": "chunk loop searches for a bare LF but skips two bytes",
        "file": _RF,
        "old": '                pos = self._raw_response.find(b"\\r\\n")\n\n        if self._state == HttpResponse.STATE_BODY and self._content_length > 0:',
        "new": '                pos = self._raw_response.find(b"\\n")\n\n        if self._state == HttpResponse.STATE_BODY and self._content_length > 0:',
        "expect": "C07.T1",
    },
    {
        "name": "header loop guard pos != 0",
        "file": _RF,
        "old": "        while pos != -1 and self._state < HttpResponse.STATE_BODY:",
        "new": "        while pos != 0 and self._state < HttpResponse.STATE_BODY:",
        "expect": "C07.T1",
    },
    {
        "name": "new read overwrites the buffer",
        "file": _RF,
        "old": "        self._raw_response += part\n",
        "new": "        self._raw_response = bytearray(part)\n",
        "expect": "C07.G1",
    },
    {
        "name": "completion test in parse negated",
        "file": _RF,
        "old": "        if self.is_read_completely():\n            # Whatever",
        "new": "        if not self.is_read_completely():\n            # Whatever",
        "expect": "C07.G1",
    },
    {
        "name": "result of parse ignored in the feed loop",
        "file": _CF,
        "old": "            data = self.current_response.parse(data)\n",
        "new": '            self.current_response.parse(data)\n            data = b""\n',
        "expect": "C07.G1",
    },
    {
        "name": "response renewed before it is handed over",
        "file": _CF,
        "old": "                http_name = self.current_response.get_http_name().lower()\n",
        "new": "                http_name = self.current_response.get_http_name().lower()\n                self.current_response = HttpResponse()\n",
        "expect": "C07.G1",
    },
    {
        "name": "response renewed on every round",
        "file": _CF,
        "old": "                self.current_response = HttpResponse()\n\n    def eof_received",
        "new": "                pass\n            self.current_response = HttpResponse()\n\n    def eof_received",
        "expect": "C07.G1",
    },
    {
        "name": "final chunk leaves the closing CRLF in the buffer",
        "file": _RF,
        "old": "                    self._state = HttpResponse.STATE_DONE\n                    self._raw_response = self._raw_response[length + 2 :]\n",
        "new": "                    self._state = HttpResponse.STATE_DONE\n",
        "expect": "C07.T2",
    },
    {
        "name": "chunk loop guard pos > 0",
        "file": _RF,
        "old": "            while pos > -1:",
        "new": "            while pos > 0:",
        "expect": "C07.T1",
    },
    {
        "name": "header loop does not search again",
        "file": _RF,
        "old": '                raise HttpException("Unknown parser state")\n\n            pos = self._raw_response.find(b"\\r\\n")\n',
        "new": '                raise HttpException("Unknown parser state")\n',
        "expect": "C07.T1",
    },
    {
        "name": "completion predicate: body length >= content length",
        "file": _RF,
        "old": "            return len(self.body) == self._content_length\n",
        "new": "            return len(self.body) >= self._content_length\n",
        "expect": "C07.K1",
    },
    {
        "name": "completion predicate: sentinel 0 instead of -1",
        "file": _RF,
        "old": "        if self._content_length != -1:\n",
        "new": "        if self._content_length != 0:\n",
        "expect": "C07.K1",
    },
    {
        "name": "completion predicate: headers-done test dropped",
        "file": _RF,
        "old": "        if self._state < HttpResponse.STATE_BODY:\n            return False\n",
        "new": "",
        "expect": "C07.K1",
    },
    {
        "name": "completion predicate: chunked complete without the empty chunk",
        "file": _RF,
        "old": "            return self._had_empty_chunk\n",
        "new": "            return True\n",
        "expect": "C07.K1",
    },
]
