"""C18  BLE broadcast notifications are accepted only if authentic and fresh."""

from __future__ import annotations

import ast

from ..engine.context import Context, sync_closure
from ..engine.loader import StructConst, StructMethod, walk_own
from ..engine.report import norm_stmt
from ..engine.terms import contains, show, strip_sites
from ..spec import ble_broadcast as SPEC
from ..spec.hap import BROADCAST_KEY_INFO as HAP_BROADCAST_KEY_INFO

PROPERTY = "C18"
EXPLANATION = (
    "Static gate/term analysis of the encrypted-broadcast path: (G1) in BlePairing._async_notification the update "
    "`description.state_num = gsn` and the _callback_listeners call are reachable only through the passing outcomes of: "
    "broadcast key present, description present, and - within one iteration of the candidate loop - the AEAD result of "
    "this candidate is not None, the candidate differs from the last accepted state number (equal -> return), the GSN "
    "decoded from the plaintext equals the candidate used as nonce; the stored value is that GSN and the store precedes "
    "the listener call; (T1) the loop's iterable term is a finite window of candidates last+c with every c >= 0, anchored "
    "at description.state_num read in the same synchronous invocation, and the c = 0 candidate can only reach the "
    "ignore-return; (T2) the arguments flow decrypt(payload, candidate, advertising id) -> open(nonce = 4 zero bytes + "
    "LE64(candidate), combined = payload, aad = advertising id); in open the expected tag is the last 4 bytes, the MAC "
    "input is aad|pad16|ciphertext|pad16|LE64(len aad)|LE64(len ciphertext), the comparison is "
    "computed.startswith(expected), a mismatch returns None and no decryption is reachable before the comparison "
    "passed, the key stream uses the same key and nonce with counter 1; every writer of the broadcast key sets "
    "None, the cached key, or HKDF(session, salt = controller LTPK, info = 'Broadcast-Encryption-Key'); (K1) type 0x11 "
    "routes to the notification parser, id = lower-case colon-separated hex of bytes 2..8 (decided by evaluating the id "
    "term), AAD = the same bytes, payload = bytes 8.., parser errors are caught, routing by pairings.get(id); GSN / IID / "
    "value are plaintext bytes 0..2 / 2..4 / 4..12, the value is decoded by from_bytes for the characteristic with that "
    "iid (decision table of from_bytes against the BLE format table) and delivered under (1, iid). Quantifier: all CFG "
    "paths and all candidates of the window term - not sampled advertisements."
)
TRUSTED = [
    "Poly1305 / ChaCha / poly1305_key_gen / pad16 of the pure-python chacha20poly1305 package and HKDF of cryptography "
    "compute what RFC 7539 / RFC 5869 say (primitives are not analysed)",
    "the third-party base class stores the constructor's key in self.key",
    "struct codes without a byte-order prefix decode little-endian (native order of the supported hosts)",
    "bytes.hex() yields lower-case digits; slices of bytes never raise",
]

BP = "aiohomekit.controller.ble.pairing.BlePairing"
NOTIF = f"{BP}._async_notification"
SETKEY = f"{BP}._async_set_broadcast_encryption_key"
INIT = f"{BP}.__init__"
UPDATE_STATE = f"{BP}._update_state_num"
KEYCLS = "aiohomekit.controller.ble.key.BroadcastDecryptionKey"
DECRYPT = f"{KEYCLS}.decrypt"
AEAD = "aiohomekit.crypto.chacha20poly1305.ChaCha20Poly1305PartialTag"
OPEN = f"{AEAD}.open"
PARSER = "aiohomekit.controller.ble.manufacturer_data.HomeKitEncryptedNotification.from_manufacturer_data"
DETECTED = "aiohomekit.controller.ble.controller.BleController._device_detected"
FROM_BYTES = "aiohomekit.controller.ble.values.from_bytes"
SESSION_KEYS = "aiohomekit.protocol.get_session_keys"
ANCHORS = [NOTIF, SETKEY, INIT, DECRYPT, OPEN, PARSER, DETECTED, FROM_BYTES, SESSION_KEYS]

POLY = "chacha20poly1305.Poly1305"
CHACHA = "chacha20poly1305.ChaCha"
HKDF = "cryptography.hazmat.primitives.kdf.hkdf.HKDF"
SHA512 = "cryptography.hazmat.primitives.hashes.SHA512"
NONE = ("const", None)


def run(ctx: Context) -> None:
    ck = ctx.ck
    for q in ANCHORS:
        ctx.func(q)  # a vanished anchor is an AnalysisError (exit 2)
    if ck.rule("C18.G1", "gates of acceptance: key, description, authentic, not stale, inner GSN == nonce GSN"):
        _g1(ctx)
    if ck.rule("C18.T1", "candidate window: finite, never older than the last accepted state number"):
        _t1(ctx)
    if ck.rule("C18.T2", "what authenticates: nonce, combined text, AAD, 4-byte tag, MAC input, key derivation"):
        _t2(ctx)
    if ck.rule("C18.K1", "routing and layout of the notification and of its plaintext"):
        _k1(ctx)


# ---------------------------------------------------------------------- small helpers
def _undecided(t) -> bool:
    # (a phi is a resolved, multi-valued term: some path yields each alternative, so a mismatch on it is a real mismatch)
    return contains(t, lambda s: s[0] in ("unknown", "loopvar"))


def _judge(ck, rule, ok, terms, desc, key, msg, loc, witness=None) -> bool:
    """ck.check, except that a mismatch on a term the engine could not resolve is UNKNOWN, not VIOLATED."""
    if not ok and any(_undecided(t) for t in terms):
        ck.unknown(rule, f"{desc}: term not resolved ({'; '.join(show(t, 100) for t in terms)})", loc)
        return False
    return ck.check(rule, ok, desc, key, msg, loc, witness)


def _bind(call: ast.Call, callee, bound_first: bool):
    """positional-parameter index of the callee -> argument expression (None: star arguments / unknown keyword)."""
    pos = callee.pos_params
    out = {}
    off = 1 if bound_first else 0
    for i, a in enumerate(call.args):
        if isinstance(a, ast.Starred):
            return None
        out[i + off] = a
    for k in call.keywords:
        if k.arg is None or k.arg not in pos:
            return None
        out[pos.index(k.arg)] = k.value
    return out


def _self_attr(selfp: str, *names: str):
    t = ("param", selfp)
    for n in names:
        t = ("attr", t, n)
    return t


def _presence_edges(ctx: Context, cfg, is_x):
    """Tests asking whether X is present: truthiness, `X is not None`, `X is None` -> (pass edges, fail edges)."""
    T = ctx.terms
    pas, fail = [], []
    for n in cfg.nodes:
        if n.kind != "test":
            continue
        t = T.of(cfg, n, n.exprs[0])
        lab = None
        if is_x(t):
            lab = "T"
        elif t[0] == "cmp" and len(t[1]) == 1 and t[1][0] in ("Is", "IsNot"):
            l, r = t[2]
            if (r == NONE and is_x(l)) or (l == NONE and is_x(r)):
                lab = "T" if t[1][0] == "IsNot" else "F"
        if lab is not None:
            pas += ctx.edges(cfg, n, lab)
            fail += ctx.edges(cfg, n, "F" if lab == "T" else "T")
    return pas, fail


def _slice_of(t):
    """base[lo:hi] with constant integer bounds -> (base, lo, hi); lo None is 0, hi None stays None."""
    if t[0] == "sub" and isinstance(t[2], tuple) and t[2] and t[2][0] == "slice" and t[2][3] is None:
        lo, hi = t[2][1], t[2][2]
        if lo is None:
            lo = 0
        elif lo[0] == "const" and type(lo[1]) is int:
            lo = lo[1]
        else:
            return None
        if hi is not None:
            if hi[0] == "const" and type(hi[1]) is int:
                hi = hi[1]
            else:
                return None
        return t[1], lo, hi
    return None


def _int_from_bytes(t):
    """int.from_bytes(X, order[, signed=False]) -> (X, order term); None when t is not such a call."""
    if t[0] != "call" or t[1] != ("attr", ("glob", "int"), "from_bytes"):
        return None
    args, kw = t[2], dict(t[3])
    if kw.get("signed", ("const", False)) != ("const", False):
        return None
    kw.pop("signed", None)
    if len(args) == 2 and not kw:
        return args[0], args[1]
    if len(args) == 1 and set(kw) == {"byteorder"}:
        return args[0], kw["byteorder"]
    return None


# ---------------------------------------------------------------------- the notification handler, dissected by data flow
class _Parts:
    pass


def _parts(ctx: Context, rule: str):
    """Structural parts of _async_notification found through resolved callees, frames and terms (never names of locals)."""
    cached = getattr(ctx, "_c18_parts", None)
    if cached is not None:
        return cached
    ck = ctx.ck
    T = ctx.terms
    f = ctx.func(NOTIF)
    cfg = ctx.cfg(NOTIF)
    p = _Parts()
    p.f, p.cfg = f, cfg
    if len(f.pos_params) < 2:
        ck.unknown(rule, "_async_notification no longer has (self, notification) parameters", f.loc())
        return None
    p.selfp, p.datap = f.pos_params[0], f.pos_params[1]
    p.key_t = _self_attr(p.selfp, "_broadcast_decryption_key")
    p.desc_t = _self_attr(p.selfp, "description")
    p.last_t = ("attr", p.desc_t, "state_num")  # the last accepted state number
    dec = []
    for n in cfg.nodes:
        for c in ctx.calls(n):
            if DECRYPT in ctx.callee_names(f, c):
                dec.append((n, c))
            elif isinstance(c.func, ast.Attribute) and T.of(cfg, n, c.func.value) == p.key_t:
                # the resolver does not follow a local alias of self._broadcast_decryption_key: resolve through the term
                m = ctx.prog.lookup_method(KEYCLS, c.func.attr)
                if m is not None and m.qualname == DECRYPT:
                    dec.append((n, c))
    if len(dec) != 1:
        ck.unknown(rule, f"_async_notification: expected one call of BroadcastDecryptionKey.decrypt, found {len(dec)}", f.loc())
        return None
    p.dec_node, p.dec_call = dec[0]
    p.D = T.of(cfg, p.dec_node, p.dec_call)  # the AEAD result of this candidate (value-numbered by its call site)
    p.dec_args = _bind(p.dec_call, ctx.func(DECRYPT), True)
    if p.dec_args is None:
        ck.unknown(rule, "_async_notification: arguments of decrypt() cannot be bound to its parameters", ctx.loc(f, p.dec_node))
        return None
    loops = [fr for fr in p.dec_node.frames if fr[0] == "loop" and fr[2] == "body" and isinstance(fr[1], ast.For)]
    if not loops:
        ck.unknown(rule, "_async_notification: the decrypt call is not inside a candidate loop", ctx.loc(f, p.dec_node))
        return None
    loop = loops[-1][1]
    heads = [n for n in cfg.nodes_for(loop) if n.kind == "for"]
    if len(heads) != 1 or not isinstance(loop.target, ast.Name):
        ck.unknown(rule, "_async_notification: candidate loop has an unrecognised shape (target / copies)", ctx.loc(f, loop))
        return None
    p.head = heads[0]
    p.cand = T.var_after(cfg, p.head, loop.target.id)
    if p.cand[0] != "iter":
        ck.unknown(rule, f"_async_notification: candidate is not an element of the loop's iterable ({show(p.cand, 80)})", ctx.loc(f, loop))
        return None
    p.iterable = p.cand[1]
    # acceptance sites
    p.stores = []  # (node, value expression)
    for n in cfg.nodes:
        a = n.ast
        if n.kind != "stmt":
            continue
        targets = []
        if isinstance(a, ast.Assign):
            targets = [(t, a.value) for t in a.targets]
        elif isinstance(a, (ast.AugAssign, ast.AnnAssign)) and a.value is not None:
            targets = [(a.target, a.value)]
        for tg, val in targets:
            if isinstance(tg, ast.Attribute) and tg.attr == "state_num" and T.of(cfg, n, tg.value) == p.desc_t:
                p.stores.append((n, val))
        for c in ctx.calls(n):
            if UPDATE_STATE in ctx.callee_names(f, c) and c.args:
                p.stores.append((n, c.args[0]))
    p.listeners = [(n, c) for n, c in ctx.nodes_calling_name(cfg, "_callback_listeners")]
    if not p.listeners:
        ck.unknown(rule, "_async_notification: no _callback_listeners call (anchor vanished)", f.loc())
        return None
    p.targets = [n for n, _v in p.stores] + [n for n, _c in p.listeners]
    # gates
    p.key_pass, _ = _presence_edges(ctx, cfg, lambda t: t == p.key_t)
    p.desc_pass, _ = _presence_edges(ctx, cfg, lambda t: t == p.desc_t)
    p.auth_pass, p.auth_fail = _presence_edges(ctx, cfg, lambda t: t == p.D)
    p.fresh_pass, p.stale = [], []
    p.gsn_pass, p.gsn_fail, p.inner = [], [], []
    for n in cfg.nodes:
        if n.kind != "test":
            continue
        t = T.of(cfg, n, n.exprs[0])
        if t[0] != "cmp" or len(t[1]) != 1:
            continue
        op, (l, r) = t[1][0], t[2]
        if {l, r} == {p.cand, p.last_t} and p.cand != p.last_t:
            if r == p.cand:  # normalise to  candidate <op> last
                op = {"Lt": "Gt", "Gt": "Lt", "LtE": "GtE", "GtE": "LtE"}.get(op, op)
            lab = {"NotEq": "T", "Eq": "F", "Gt": "T", "LtE": "F"}.get(op)
            if lab is not None:
                p.fresh_pass += ctx.edges(cfg, n, lab)
                p.stale += ctx.edges(cfg, n, "F" if lab == "T" else "T")
            continue
        if op in ("Eq", "NotEq"):
            for a, b in ((l, r), (r, l)):
                if a == p.cand and b != p.cand and contains(b, lambda s: s == p.D):
                    lab = "T" if op == "Eq" else "F"
                    p.gsn_pass += ctx.edges(cfg, n, lab)
                    p.gsn_fail += ctx.edges(cfg, n, "F" if lab == "T" else "T")
                    p.inner.append((n, b))
    p.window = _window(p.iterable, p.last_t)
    ctx._c18_parts = p
    return p


# ---------------------------------------------------------------------- window term
def _offset(t, base):
    """t == base + c (c a constant integer) -> c, else None."""
    if t == base:
        return 0
    if t[0] == "add":
        c, seen = 0, 0
        for x in t[1]:
            if x == base:
                seen += 1
            elif x[0] == "const" and type(x[1]) is int:
                c += x[1]
            else:
                return None
        return c if seen == 1 else None
    if t[0] == "binop" and t[1] == "Sub" and t[3][0] == "const" and type(t[3][1]) is int:
        o = _offset(t[2], base)
        return None if o is None else o - t[3][1]
    return None


def _window(iterable, base):
    """Window term -> list of ('one', offset|None, term) / ('range', lo|None, hi|None, step, term); None = unrecognised."""
    it = strip_sites(iterable)
    base = strip_sites(base)

    def rng(t):
        if t[0] != "call" or t[1] != ("glob", "range") or t[3] or not 1 <= len(t[2]) <= 3:
            return None
        a = t[2]
        step = 1
        if len(a) == 3:
            if a[2][0] != "const" or type(a[2][1]) is not int or a[2][1] <= 0:
                return None
            step = a[2][1]
        lo_t = a[0] if len(a) >= 2 else ("const", 0)
        hi_t = a[1] if len(a) >= 2 else a[0]
        return ("range", _offset(lo_t, base), _offset(hi_t, base), step, t, lo_t, hi_t)

    if it[0] in ("tuple", "list"):
        out = []
        for e in it[1]:
            if e[0] == "star":
                r = rng(e[1])
                if r is None:
                    return None
                out.append(r)
            else:
                out.append(("one", _offset(e, base), e))
        return out
    r = rng(it)
    return [r] if r is not None else None


def _window_has_zero(window) -> bool | None:
    """Does the window contain the candidate equal to the last accepted number?  None = not decidable."""
    if window is None:
        return None
    res = False
    for w in window:
        if w[0] == "one":
            if w[1] is None:
                return None
            res |= w[1] == 0
        else:
            lo, hi, step = w[1], w[2], w[3]
            if lo is None or hi is None:
                return None
            res |= lo <= 0 < hi and (0 - lo) % step == 0
    return res


# ---------------------------------------------------------------------- G1
def _g1(ctx: Context) -> None:
    ck = ctx.ck
    p = _parts(ctx, "C18.G1")
    if p is None:
        return
    f, cfg = p.f, p.cfg
    T = ctx.terms
    if not p.stores:
        # the gate "state number advanced before delivery" does not exist at all: reported below per listener call
        pass
    need_fresh = _window_has_zero(p.window) is not False
    n_sites = 0
    for tn in p.targets:
        what = "state-number update" if any(tn is s for s, _v in p.stores) else "listener call"
        txt = tn.text()[:50]
        n_sites += 1
        ctx.must_pass("C18.G1", cfg, tn, "broadcast key present [truthy outcome]", p.key_pass,
                      desc=f"{what} `{txt}`: only with a broadcast key")
        ctx.must_pass("C18.G1", cfg, tn, "description present [truthy outcome]", p.desc_pass,
                      desc=f"{what} `{txt}`: only with a description (a last accepted state number exists)")
        ctx.must_pass("C18.G1", cfg, tn, "candidate loop [next-candidate outcome]", ctx.edges(cfg, p.head, "T"),
                      desc=f"{what} `{txt}`: only inside an iteration of the candidate loop")
        per_iter = dict(start=p.head.id, avoid_nodes=[p.head.id])
        ctx.must_pass("C18.G1", cfg, tn, "AEAD result of this candidate is not None [authentic outcome]", p.auth_pass,
                      desc=f"{what} `{txt}`: within the iteration, only after this candidate authenticated", **per_iter)
        if need_fresh:
            ctx.must_pass("C18.G1", cfg, tn, "candidate != last accepted state number [fresh outcome]", p.fresh_pass,
                          desc=f"{what} `{txt}`: within the iteration, only for a candidate other than the last accepted number", **per_iter)
        ctx.must_pass("C18.G1", cfg, tn, "inner GSN == candidate used as nonce [equal outcome]", p.gsn_pass,
                      desc=f"{what} `{txt}`: within the iteration, only after the plaintext's GSN matched the nonce", **per_iter)
    if not need_fresh:
        ck.holds("C18.G1", "the window holds no candidate equal to the last accepted number: no stale test needed", ctx.loc(f, p.head))
    # the value stored is the verified GSN (or, equal on that edge, the candidate)
    inner_terms = [b for _n, b in p.inner]
    for sn, val in p.stores:
        if not inner_terms:
            break  # the missing GSN gate is reported above; there is no verified GSN to compare the stored value with
        vt = T.of(cfg, sn, val)
        ok = vt == p.cand or vt in inner_terms
        _judge(ck, "C18.G1", ok, [vt], "the state number is advanced to the verified GSN of this notification",
               f"{ctx.fkey(f)}:stored-value", f"_async_notification: state_num is set to {show(vt, 120)}, not to the GSN that was compared with the nonce",
               ctx.loc(f, sn))
    # a store made through _update_state_num(x) is a store of x only if the helper stores its parameter unchanged
    # (a roll-over clamp there - `if state_num >= MAX_GSN: state_num = 1` - records 1 for the genuine GSN 65535 and
    # re-opens the window for long superseded notifications)
    if any(UPDATE_STATE in ctx.callee_names(f, c) for sn, _v in p.stores for c in ctx.calls(sn)):
        uf = ctx.func(UPDATE_STATE)
        ucfg = ctx.cfg(UPDATE_STATE)
        par = ("param", uf.pos_params[1]) if len(uf.pos_params) >= 2 else None
        n_st = 0
        for un in ucfg.nodes:
            a = un.ast
            if un.kind != "stmt" or not isinstance(a, ast.Assign):
                continue
            for tg in a.targets:
                if isinstance(tg, ast.Attribute) and tg.attr == "state_num":
                    n_st += 1
                    vt = strip_sites(T.of(ucfg, un, a.value))
                    _judge(ck, "C18.G1", par is not None and vt == par, [vt], "_update_state_num stores exactly the number it is given",
                           f"{ctx.fkey(uf)}:stores-parameter",
                           f"_update_state_num records {show(vt, 100)} instead of the state number it is given: the broadcast path hands it the verified GSN, "
                           "so the last accepted state number is not advanced to the notification's", ctx.loc(uf, un))
        if n_st == 0:
            ck.violated("C18.G1", f"{ctx.fkey(uf)}:no-store", "_update_state_num no longer writes description.state_num: an accepted notification does not advance the state number",
                        uf.loc())
    # the update happens before the listeners are told
    store_out = []
    for sn, _v in p.stores:
        store_out += ctx.normal_out(cfg, sn)
    for ln, _c in p.listeners:
        ctx.must_pass("C18.G1", cfg, ln, "state-number update [done]", store_out, start=p.head.id, avoid_nodes=[p.head.id],
                      desc="listeners are called only after the last accepted state number was advanced (a replay of the same notification is then stale)")
    ck.require_min("C18.G1", "listener calls gated", len(p.listeners), 1)


# ---------------------------------------------------------------------- T1
def _t1(ctx: Context) -> None:
    ck = ctx.ck
    p = _parts(ctx, "C18.T1")
    if p is None:
        return
    f, cfg = p.f, p.cfg
    loc = ctx.loc(f, p.head)
    if p.window is None:
        ck.unknown("C18.T1", f"candidate window has an unrecognised shape: {show(p.iterable, 160)}", loc)
        return
    base = strip_sites(p.last_t)
    n_cand = 0
    max_off = None
    unanchored = False
    for w in p.window:
        bounds = [(w[1], w[2])] if w[0] == "one" else [(w[1], w[5]), (w[2], w[6])]
        anchored = True
        for off, term in bounds:
            if off is None:
                anchored = False
                if contains(term, lambda s: s == base) or _undecided(term):
                    ck.unknown("C18.T1", f"candidate {show(term, 80)} is not of the form last + constant", loc)
                else:
                    ck.violated("C18.T1", f"{ctx.fkey(f)}:candidate-not-anchored:{show(term, 60)}",
                                f"_async_notification: candidate {show(term, 80)} is not relative to description.state_num, the last "
                                "accepted state number: an old notification can match it", loc)
        if not anchored:
            unanchored = True
            continue
        if w[0] == "one":
            n_cand += 1
            max_off = w[1] if max_off is None else max(max_off, w[1])
            ck.check("C18.T1", w[1] >= 0, f"candidate last{w[1]:+d} is not older than the last accepted state number",
                     f"{ctx.fkey(f)}:older-candidate:{w[1]:+d}",
                     f"_async_notification: candidate last{w[1]:+d} is OLDER than the last accepted state number: a replayed "
                     f"notification with that number authenticates, passes the stale test and is delivered again", loc)
        else:
            lo, hi, step = w[1], w[2], w[3]
            count = max(0, -(-(hi - lo) // step))
            n_cand += count
            if count:
                max_off = lo + (count - 1) * step if max_off is None else max(max_off, lo + (count - 1) * step)
            ck.check("C18.T1", count == 0 or lo >= 0, f"candidates last{lo:+d} .. last{hi - 1:+d} are not older than the last accepted state number",
                     f"{ctx.fkey(f)}:older-range:{lo:+d}",
                     f"_async_notification: the candidate range starts at last{lo:+d}, i.e. {min(-lo, count)} candidates are OLDER than the "
                     "last accepted state number: replays of those notifications are delivered again", loc)
            ck.check("C18.T1", count > 0, f"range last{lo:+d} .. last{hi - 1:+d} is finite and non-empty ({count} candidates)",
                     f"{ctx.fkey(f)}:empty-range", "_async_notification: the catch-up range of candidates is empty", loc)
    ck.holds("C18.T1", f"the window is finite: {n_cand} candidates, newest last{max_off if max_off is not None else 0:+d}", loc)
    ck.stats["c18_window"] = {"candidates": n_cand, "newest_offset": max_off}
    # the candidate equal to the last accepted number can only be ignored
    has0 = _window_has_zero(p.window)
    targets = {n.id for n in p.targets}
    if has0:
        if not p.stale:
            ck.violated("C18.T1", f"{ctx.fkey(f)}:stale-candidate-not-singled-out",
                        "_async_notification: the window contains the last accepted state number itself but no test singles it out: "
                        "a replay of the current notification is accepted", loc)
        for e in p.stale:
            region = cfg.reachable_from(e[1]) | {e[1]}
            hit = sorted(region & targets)
            path = cfg.find_path(e[1], hit[0]) if hit else None
            ck.check("C18.T1", not hit, "the candidate equal to the last accepted number leads only to the ignore-return",
                     f"{ctx.fkey(f)}:stale-outcome-continues",
                     "_async_notification: after the stale test succeeded (candidate == last accepted) the update / listener call is still reachable",
                     ctx.loc(f, cfg.nodes[e[0]]), cfg.render_path([(e[0], e[2], None)] + path) if path else None)
    elif has0 is False:
        ck.holds("C18.T1", "no candidate equals the last accepted number", loc)
    # the anchor is read, tested and advanced without suspension, and never re-read after an update
    ck.check("C18.T1", not f.is_async and not any(isinstance(x, (ast.Await, ast.Yield, ast.YieldFrom)) for x in walk_own(f.node)),
             "_async_notification is synchronous: the last accepted number cannot change between its read and its update",
             f"{ctx.fkey(f)}:suspension-point", "_async_notification can be suspended between reading and advancing the state number", f.loc())
    for sn, _v in p.stores:
        back = cfg.find_path(sn.id, p.head.id)
        ck.check("C18.T1", back is None, "after the state number was advanced no further candidate is tried",
                 f"{ctx.fkey(f)}:loop-continues-after-update",
                 "_async_notification: the candidate loop continues after description.state_num was advanced (the window is then re-anchored mid-way)",
                 ctx.loc(f, sn), cfg.render_path(back) if back else None)
    swaps = [n for n in cfg.nodes if n.kind == "stmt" and isinstance(n.ast, (ast.Assign, ast.AnnAssign, ast.AugAssign))
             for tg in (n.ast.targets if isinstance(n.ast, ast.Assign) else [n.ast.target])
             if isinstance(tg, ast.Attribute) and tg.attr == "description" and ctx.terms.of(cfg, n, tg.value) == ("param", p.selfp)]
    ck.check("C18.T1", not swaps, "the description object (holder of the last accepted number) is not replaced inside the handler",
             f"{ctx.fkey(f)}:description-replaced", "_async_notification replaces self.description: the tests and the update then speak about different objects",
             ctx.loc(f, swaps[0]) if swaps else f.loc())
    if not unanchored:
        ck.require_min("C18.T1", "candidates in the window", n_cand, 3)


# ---------------------------------------------------------------------- T2
def _nonce_counter(t):
    """nonce term = 4 zero bytes + LE64(X)  ->  X ; None when the term has another shape."""
    t = strip_sites(t)
    pack_lq = ("const", StructMethod(StructConst(SPEC.NONCE_STRUCT), "pack"))
    if t[0] == "call" and t[1] == pack_lq and not t[3] and len(t[2]) == 2 and t[2][0] == ("const", SPEC.NONCE_PREFIX_VALUE):
        return t[2][1]
    if t[0] == "add" and len(t[1]) == 2 and t[1][0] == ("const", b"\x00\x00\x00\x00"):
        q = t[1][1]
        if q[0] == "call" and not q[3]:
            if q[1] == ("const", StructMethod(StructConst("<Q"), "pack")) and len(q[2]) == 1:
                return q[2][0]
            if q[1] == ("glob", "struct.pack") and len(q[2]) == 2 and q[2][0] == ("const", "<Q"):
                return q[2][1]
    return None


def _tag_comparison(t):
    """Recognised forms of "the computed tag begins with the received bytes" -> (computed, expected, passing label)."""
    def head(x):  # computed[:4] / computed[0:4] -> computed
        s = _slice_of(x) if x[0] == "sub" else None
        return s[0] if s is not None and (s[1], s[2]) == (0, SPEC.TAG_BYTES) else None

    if t[0] == "call" and t[1][0] == "attr" and t[1][2] == "startswith" and len(t[2]) == 1 and not t[3]:
        return t[1][1], t[2][0], "T"
    pair, lab = None, "T"
    if t[0] == "cmp" and len(t[1]) == 1 and t[1][0] in ("Eq", "NotEq"):
        pair, lab = t[2], "T" if t[1][0] == "Eq" else "F"
    elif t[0] == "call" and t[1] == ("glob", "hmac.compare_digest") and len(t[2]) == 2 and not t[3]:
        pair = t[2]
    if pair is not None:
        for a, b in ((pair[0], pair[1]), (pair[1], pair[0])):
            h = head(a)
            if h is not None and contains(h, lambda s: s[0] == "call" and s[1][0] == "attr" and s[1][2] == "create_tag"):
                return h, b, lab
    return None


def _open_roles(ctx: Context):
    """Analyse ChaCha20Poly1305PartialTag.open; returns {role: index of the positional parameter} or None."""
    ck = ctx.ck
    T = ctx.terms
    f = ctx.func(OPEN)
    cfg = ctx.cfg(OPEN)
    selfp = f.pos_params[0] if f.pos_params else "self"
    key_t = _self_attr(selfp, "key")
    fk = ctx.fkey(f)
    # tests that involve the computed tag
    tests = []
    for n in cfg.nodes:
        if n.kind == "test":
            t = strip_sites(T.of(cfg, n, n.exprs[0]))
            if contains(t, lambda s: s[0] == "call" and s[1][0] == "attr" and s[1][2] == "create_tag"):
                tests.append((n, t))
    # decryption sites: any use of the ChaCha key stream
    dec_nodes = []
    for n in cfg.nodes:
        for c in ctx.calls(n):
            t = strip_sites(T.of(cfg, n, c))
            if t[0] == "call" and t[1][0] == "attr" and t[1][2] in ("decrypt", "encrypt") and t[1][1][0] == "call" and t[1][1][1] == ("glob", CHACHA):
                dec_nodes.append((n, t))
    if not dec_nodes:
        ck.unknown("C18.T2", "open: no ChaCha(...).decrypt site found (anchor vanished)", f.loc())
        return None
    pass_edges, fail_edges = [], []
    roles = {}
    undecided = False
    for n, t in tests:
        loc = ctx.loc(f, n)
        if t[0] == "call" and t[1][0] == "attr" and t[1][2] == "endswith":
            ck.violated("C18.T2", f"{fk}:tag-comparison", f"open: the tag is compared by `{show(t, 140)}`; the 4 transmitted bytes are the "
                        "FIRST four of the 16-byte Poly1305 tag, the comparison must be computed.startswith(expected)", loc)
            continue
        form = _tag_comparison(t)
        if form is None:
            ck.unknown("C18.T2", f"open: unrecognised tag comparison {show(t, 120)}", loc)
            undecided = True
            continue
        tag_t, exp_t, lab = form
        pass_edges += ctx.edges(cfg, n, lab)
        fail_edges += ctx.edges(cfg, n, "F" if lab == "T" else "T")
        # expected tag = last 4 bytes of a parameter
        sl = _slice_of(exp_t)
        ok = sl is not None and sl[0][0] == "param" and sl[1] == -SPEC.TAG_BYTES and sl[2] is None
        _judge(ck, "C18.T2", ok, [exp_t], f"open: expected tag = the last {SPEC.TAG_BYTES} bytes of the combined text",
               f"{fk}:expected-tag", f"open: the tag compared against is {show(exp_t, 100)}, not the last {SPEC.TAG_BYTES} bytes of the combined text", loc)
        if not ok:
            continue
        comb = sl[0]
        ct = ("sub", comb, ("slice", None, ("const", -SPEC.TAG_BYTES), None))
        # computed tag = Poly1305(poly1305_key_gen(self.key, nonce)).create_tag(mac)
        shape = (
            tag_t[0] == "call" and tag_t[1][0] == "attr" and tag_t[1][2] == "create_tag" and len(tag_t[2]) == 1 and not tag_t[3]
            and tag_t[1][1][0] == "call" and tag_t[1][1][1] == ("glob", POLY) and len(tag_t[1][1][2]) == 1
        )
        if not shape:
            _judge(ck, "C18.T2", False, [tag_t], "open: computed tag = Poly1305(one-time key).create_tag(mac data)", f"{fk}:tag-shape",
                   f"open: the compared value is {show(tag_t, 140)}, not Poly1305(otk).create_tag(mac)", loc)
            continue
        otk, mac = tag_t[1][1][2][0], tag_t[2][0]
        ok = (otk[0] == "call" and otk[1] == ("attr", ("param", selfp), "poly1305_key_gen") and not otk[3] and len(otk[2]) == 2
              and otk[2][0] == key_t and otk[2][1][0] == "param")
        _judge(ck, "C18.T2", ok, [otk], "open: the one-time key is poly1305_key_gen(self.key, nonce)", f"{fk}:otk",
               f"open: the Poly1305 one-time key is {show(otk, 120)}", loc)
        if not ok:
            continue
        nonce = otk[2][1]
        aad = mac[1][0] if mac[0] == "add" and mac[1] else ("unknown", "mac")

        def pad(x):
            return ("call", ("attr", ("param", selfp), "pad16"), (x,), ())

        def le64len(x):
            return ("call", ("glob", "struct.pack"), (("const", SPEC.MAC_LENGTH_STRUCT), ("call", ("glob", "len"), (x,), ())), ())

        def le64len2(x):  # the same bytes through a precompiled Struct("<Q").pack
            return ("call", ("const", StructMethod(StructConst(SPEC.MAC_LENGTH_STRUCT), "pack")), (("call", ("glob", "len"), (x,), ()),), ())

        # in the engine's one spelling: packs side by side are one pack of all the fields (Struct("<QQ").pack(len, len))
        from ..engine.terms import _binop

        want = aad
        for part in (pad(aad), ct, pad(ct), le64len2(aad), le64len2(ct)):
            want = _binop("Add", want, part)
        want2 = ("add", (aad, pad(aad), ct, pad(ct), le64len(aad), le64len(ct)))
        ok = aad[0] == "param" and aad not in (comb, nonce) and mac in (want, want2)
        _judge(ck, "C18.T2", ok, [mac], "open: MAC input = aad | pad16 | ciphertext | pad16 | LE64(len aad) | LE64(len ciphertext), ciphertext = combined[:-4]",
               f"{fk}:mac-input", f"open: the MAC input is {show(mac, 300)}; RFC 7539 2.8 wants aad, pad, ciphertext (= combined text "
               f"without its last {SPEC.TAG_BYTES} bytes), pad, LE64(len(aad)), LE64(len(ciphertext))", loc)
        if not ok:
            continue
        pos = f.pos_params
        try:
            roles = {"nonce": pos.index(nonce[1]), "combined": pos.index(comb[1]), "aad": pos.index(aad[1])}
        except ValueError:
            ck.unknown("C18.T2", "open: nonce / combined text / aad are not positional parameters", loc)
            return None
        # decryption uses the same key and nonce, block counter 1, over the same ciphertext
        for dn, dt in dec_nodes:
            cc = dt[1][1]
            kw = dict(cc[3])
            args = list(cc[2])
            counter = kw.get("counter", args[2] if len(args) > 2 else ("const", 0))
            ok = (dt[1][2] == "decrypt" and args[:2] == [key_t, nonce] and counter == ("const", SPEC.STREAM_COUNTER)
                  and set(kw) <= {"counter"} and dt[2] == (ct,) and not dt[3])
            _judge(ck, "C18.T2", ok, [dt], "open: plaintext = ChaCha(self.key, nonce, counter=1).decrypt(ciphertext) - same key, nonce and ciphertext as authenticated",
                   f"{fk}:decrypt-term", f"open: decryption is {show(dt, 160)}; expected ChaCha(self.key, {nonce[1]}, counter=1).decrypt(combined[:-{SPEC.TAG_BYTES}])",
                   ctx.loc(f, dn))
    if len([1 for n, t in tests]) != 1:
        if not tests:
            ck.violated("C18.T2", f"{fk}:no-tag-comparison", "open: the computed tag is never compared with the received one: every forgery decrypts", f.loc())
        else:
            ck.unknown("C18.T2", f"open: expected one tag comparison, found {len(tests)}", f.loc())
    # gate: no key-stream use and no non-None return before the comparison passed
    if undecided:
        return None  # a comparison of unrecognised form cannot be told from a missing one: already reported as UNKNOWN
    for dn, _dt in dec_nodes:
        ctx.must_pass("C18.T2", cfg, dn, "tag comparison [match outcome]", pass_edges,
                      desc=f"open: `{dn.text()[:50]}` (decryption) only after the truncated tag matched")
    for n in cfg.nodes:
        if n.kind == "return":
            t = T.of(cfg, n, n.exprs[0]) if n.exprs else NONE
            if t != NONE:
                ctx.must_pass("C18.T2", cfg, n, "tag comparison [match outcome]", pass_edges,
                              desc=f"open: `{n.text()[:50]}` (a value other than None) only after the truncated tag matched")
    dec_ids = {dn.id for dn, _t in dec_nodes}
    for e in fail_edges:
        region = cfg.reachable_from(e[1]) | {e[1]}
        bad = [cfg.nodes[i] for i in sorted(region) if i in dec_ids]
        rets = [cfg.nodes[i] for i in sorted(region) if cfg.nodes[i].kind == "return"]
        not_none = [r for r in rets if (T.of(cfg, r, r.exprs[0]) if r.exprs else NONE) != NONE]
        falls = cfg.exit.id in region and not rets
        ck.check("C18.T2", not bad and not not_none and bool(rets) and not falls,
                 "open: a tag mismatch returns None and reaches no decryption",
                 f"{fk}:mismatch-outcome", "open: after a tag mismatch a decryption or a non-None return is reachable",
                 ctx.loc(f, cfg.nodes[e[0]]))
    return roles or None


def _t2(ctx: Context) -> None:
    ck = ctx.ck
    T = ctx.terms
    sites = 0
    roles = _open_roles(ctx)
    # ---- BroadcastDecryptionKey.decrypt -> open
    df = ctx.func(DECRYPT)
    dcfg = ctx.cfg(DECRYPT)
    droles = None
    if roles is not None:
        sites += 1
        opens = [(n, c) for n in dcfg.nodes for c in ctx.calls(n) if OPEN in ctx.callee_names(df, c)]
        rets = [n for n in dcfg.nodes if n.kind == "return"]
        rdef = ctx.deref(dcfg, rets[0], rets[0].exprs[0]) if len(rets) == 1 and rets[0].exprs else (None, None)
        if len(opens) != 1 or len(rets) != 1 or opens[0][0] is not rdef[0] or rdef[1] is not opens[0][1]:
            ck.unknown("C18.T2", f"decrypt: expected a single `return self.key.open(...)`, found {len(opens)} open calls / {len(rets)} returns", df.loc())
        else:
            n, c = opens[0]
            sites += 1
            dself = df.pos_params[0]
            recv = T.of(dcfg, n, c.func.value) if isinstance(c.func, ast.Attribute) else ("unknown", "receiver")
            ck.check("C18.T2", recv == _self_attr(dself, "key"), "decrypt: opens with the key object of this BroadcastDecryptionKey",
                     f"{ctx.fkey(df)}:receiver", f"decrypt: open() is called on {show(recv, 80)}", ctx.loc(df, n))
            b = _bind(c, ctx.func(OPEN), True)
            if b is None or not all(i in b for i in roles.values()):
                ck.unknown("C18.T2", "decrypt: arguments of open() cannot be bound to its parameters", ctx.loc(df, n))
            else:
                nt = T.of(dcfg, n, b[roles["nonce"]])
                ctr = _nonce_counter(nt)
                okn = ctr is not None and ctr[0] == "param"
                _judge(ck, "C18.T2", okn, [nt], "decrypt: nonce = 4 zero bytes + LE64(gsn parameter)", f"{ctx.fkey(df)}:nonce",
                       f"decrypt: the nonce handed to open() is {show(nt, 120)}, not 4 zero bytes followed by the 64-bit little-endian state number", ctx.loc(df, n))
                ct_ = strip_sites(T.of(dcfg, n, b[roles["combined"]]))
                at_ = strip_sites(T.of(dcfg, n, b[roles["aad"]]))
                okc = ct_[0] == "param" and at_[0] == "param" and okn and len({ct_[1], at_[1], ctr[1]}) == 3
                _judge(ck, "C18.T2", okc, [ct_, at_], "decrypt: combined text and AAD are passed through from two distinct parameters",
                       f"{ctx.fkey(df)}:pass-through", f"decrypt: open() receives combined={show(ct_, 60)} aad={show(at_, 60)}", ctx.loc(df, n))
                if okc:
                    pos = df.pos_params
                    droles = {"gsn": pos.index(ctr[1]), "payload": pos.index(ct_[1]), "aad": pos.index(at_[1])}
        # the key object is built from the constructor argument
        kf = ctx.func(f"{KEYCLS}.__init__")
        kcfg = ctx.cfg(kf.qualname)
        good = False
        for n in kcfg.nodes:
            a = n.ast
            if n.kind == "stmt" and isinstance(a, (ast.Assign, ast.AnnAssign)) and a.value is not None:
                tg = a.targets[0] if isinstance(a, ast.Assign) else a.target
                if isinstance(tg, ast.Attribute) and tg.attr == "key" and T.of(kcfg, n, tg.value) == ("param", kf.pos_params[0]):
                    vt = strip_sites(T.of(kcfg, n, a.value))
                    good = len(kf.pos_params) >= 2 and vt == ("call", ("glob", AEAD), (("param", kf.pos_params[1]),), ())
                    ck.check("C18.T2", good, "BroadcastDecryptionKey.key = ChaCha20Poly1305PartialTag(constructor argument)",
                             f"{ctx.fkey(kf)}:key-object", f"BroadcastDecryptionKey.key is {show(vt, 100)}", ctx.loc(kf, n))
                    sites += 1
    # ---- _async_notification -> decrypt
    p = _parts(ctx, "C18.T2")
    if p is not None and droles is not None:
        f, cfg, n = p.f, p.cfg, p.dec_node
        loc = ctx.loc(f, n)
        sites += 1
        recv = T.of(cfg, n, p.dec_call.func.value) if isinstance(p.dec_call.func, ast.Attribute) else ("unknown", "receiver")
        ck.check("C18.T2", recv == p.key_t, "the notification is opened with this pairing's broadcast key",
                 f"{ctx.fkey(f)}:decrypt-receiver", f"_async_notification: decrypt() is called on {show(recv, 80)}", loc)
        if not all(i in p.dec_args for i in droles.values()):
            ck.unknown("C18.T2", "_async_notification: decrypt() is not given payload, state number and advertising id", loc)
        else:
            gt = T.of(cfg, n, p.dec_args[droles["gsn"]])
            _judge(ck, "C18.T2", gt == p.cand, [gt], "nonce counter = the candidate state number of this iteration",
                   f"{ctx.fkey(f)}:nonce-candidate", f"_async_notification: the nonce is built from {show(gt, 100)}, not from the loop's candidate "
                   "(the GSN test then compares against a number that did not authenticate)", loc)
            pt = strip_sites(T.of(cfg, n, p.dec_args[droles["payload"]]))
            _judge(ck, "C18.T2", pt == ("attr", ("param", p.datap), "encrypted_payload"), [pt],
                   "combined text = the notification's encrypted payload", f"{ctx.fkey(f)}:combined-text",
                   f"_async_notification: the text that is authenticated is {show(pt, 100)}, not the notification's encrypted_payload", loc)
            at = strip_sites(T.of(cfg, n, p.dec_args[droles["aad"]]))
            _judge(ck, "C18.T2", at == ("attr", ("param", p.datap), "advertising_identifier"), [at],
                   "AAD = the notification's advertising identifier", f"{ctx.fkey(f)}:aad",
                   f"_async_notification: the additional authenticated data is {show(at, 100)}, not the notification's advertising_identifier "
                   "(a notification of another accessory under the same key would authenticate)", loc)
    # ---- where the key comes from
    sites += _key_writers(ctx)
    if roles is not None and droles is not None and p is not None:
        ck.require_min("C18.T2", "authentication sites (open, decrypt, key object, call, key writers, derive closures)", sites, 11)


def _attr_writers(ctx: Context, attr: str):
    """Every assignment `<x>.attr = value` in the package -> (func, cfg, node, base expr, value expr)."""
    out = []
    for f in ctx.prog.package_functions():
        if isinstance(f.node, ast.Lambda):
            continue
        hits = []
        for st in walk_own(f.node):
            if isinstance(st, ast.Assign):
                tv = [(t, st.value) for t in st.targets]
            elif isinstance(st, (ast.AnnAssign, ast.AugAssign)) and st.value is not None:
                tv = [(st.target, st.value)]
            else:
                continue
            for tg, val in tv:
                if isinstance(tg, ast.Attribute) and tg.attr == attr:
                    hits.append((st, tg.value, val))
        if not hits:
            continue
        cfg = ctx.cfg(f.qualname)
        for st, base, val in hits:
            for n in cfg.nodes_for(st):
                if not n.copy_of or n.copy_of == "normal":
                    out.append((f, cfg, n, base, val))
    return out


def _derive_closures(ctx: Context) -> list:
    """Closures handed out as the session's derive function by get_session_keys (and the resume path it returns)."""
    T = ctx.terms
    seen, work, out = set(), [SESSION_KEYS], []
    while work:
        q = work.pop()
        if q in seen or q not in ctx.prog.functions:
            continue
        seen.add(q)
        cfg = ctx.cfg(q)
        for n in cfg.nodes:
            if n.kind != "return" or not n.exprs:
                continue
            t = strip_sites(T.of(cfg, n, n.exprs[0]))
            if t[0] == "tuple" and len(t[1]) == 2 and t[1][1][0] == "closure":
                out.append(t[1][1][1])
            elif t[0] == "call" and t[1][0] == "glob" and len(seen) < 4:
                work.append(t[1][1])
    return sorted(set(out))


def _key_writers(ctx: Context) -> int:
    ck = ctx.ck
    T = ctx.terms
    n_sites = 0
    info = ("const", SPEC.BROADCAST_KEY_INFO)
    ck.check("C18.T2", SPEC.BROADCAST_KEY_INFO == HAP_BROADCAST_KEY_INFO, "specification tables agree on the broadcast key label",
             "spec:broadcast-label", "sa/spec tables disagree on the broadcast key label", "sa/spec/ble_broadcast.py")
    ctor_sites = 0
    for f, cfg, n, base, val in _attr_writers(ctx, "_broadcast_decryption_key"):
        selfp = f.pos_params[0] if f.pos_params else "self"
        vt = strip_sites(T.of(cfg, n, val))
        loc = ctx.loc(f, n)
        n_sites += 1
        if vt == NONE:
            ck.holds("C18.T2", f"{f.name}: broadcast key reset to None", loc)
            continue
        if not (vt[0] == "call" and vt[1] == ("glob", KEYCLS) and len(vt[2]) == 1 and not vt[3]):
            _judge(ck, "C18.T2", False, [vt], "broadcast key object is BroadcastDecryptionKey(key bytes)", f"{ctx.fkey(f)}:key-writer-shape",
                   f"{f.name}: _broadcast_decryption_key is set to {show(vt, 120)}", loc)
            continue
        ctor_sites += 1
        k = vt[2][0]
        derived = ("call", ("attr", ("param", selfp), "_derive"),
                   (("call", ("attr", ("glob", "bytes"), "fromhex"), (("sub", ("attr", ("param", selfp), "pairing_data"), ("const", SPEC.BROADCAST_KEY_SALT_FIELD)),), ()), info), ())
        cachedk = ("attr", ("param", selfp), "broadcast_key")
        if k == cachedk:
            ck.holds("C18.T2", f"{f.name}: broadcast key = the cached key of this pairing", loc)
        else:
            _judge(ck, "C18.T2", k == derived, [k], f"{f.name}: broadcast key = derive(salt = controller LTPK, info = 'Broadcast-Encryption-Key')",
                   f"{ctx.fkey(f)}:key-derivation", f"{f.name}: the broadcast key is {show(k, 200)}; HAP-BLE 7.4.7.3 wants HKDF-SHA-512 of the session secret with "
                   f"salt = controller LTPK (pairing_data['{SPEC.BROADCAST_KEY_SALT_FIELD}']) and info = {SPEC.BROADCAST_KEY_INFO!r}", loc)
    ck.require_min("C18.T2", "BroadcastDecryptionKey(...) writers of _broadcast_decryption_key", ctor_sites, 2)
    # the cached key is only ever replaced by the derived key
    for f, cfg, n, base, val in _attr_writers(ctx, "broadcast_key"):
        if not f.qualname.startswith(BP + "."):
            continue
        selfp = f.pos_params[0] if f.pos_params else "self"
        vt = strip_sites(T.of(cfg, n, val))
        ok = (vt[0] == "call" and vt[1] == ("attr", ("param", selfp), "_derive") and len(vt[2]) == 2 and vt[2][1] == info)
        n_sites += 1
        _judge(ck, "C18.T2", ok, [vt], f"{f.name}: the cached broadcast key is replaced only by the derived key",
               f"{ctx.fkey(f)}:cached-key-writer", f"{f.name}: the cached broadcast key is set to {show(vt, 160)}", ctx.loc(f, n))
    # self._derive is the derive function of the pair-verify session
    for f, cfg, n, base, val in _attr_writers(ctx, "_derive"):
        if not f.qualname.startswith(BP + "."):
            continue
        vt = strip_sites(T.of(cfg, n, val))
        if vt == NONE:
            continue
        ok = (vt[0] == "sub" and vt[2] == ("const", 1) and vt[1][0] == "await"
              and contains(vt[1], lambda s: s[0] == "call" and s[1] == ("glob", SESSION_KEYS)))
        n_sites += 1
        _judge(ck, "C18.T2", ok, [vt], f"{f.name}: _derive is the derive function returned by the pair-verify session (get_session_keys)",
               f"{ctx.fkey(f)}:derive-writer", f"{f.name}: _derive is set to {show(vt, 160)}", ctx.loc(f, n))
    closures = _derive_closures(ctx)
    for q in closures:
        g = ctx.func(q)
        gcfg = ctx.cfg(q)
        rets = [n for n in gcfg.nodes if n.kind == "return" and n.exprs]
        ok = False
        shown = ""
        if len(rets) == 1 and len(g.pos_params) >= 2:
            t = strip_sites(T.of(gcfg, rets[0], rets[0].exprs[0]))
            shown = show(t, 200)
            if t[0] == "call" and t[1][0] == "attr" and t[1][2] == "derive" and t[1][1][0] == "call" and t[1][1][1] == ("glob", HKDF) and len(t[2]) == 1:
                kw = dict(t[1][1][3])
                ok = (kw.get("salt") == ("param", g.pos_params[0]) and kw.get("info") == ("param", g.pos_params[1])
                      and kw.get("algorithm") == ("call", ("glob", SHA512), (), ()) and t[2][0][0] != "param")
        n_sites += 1
        ck.check("C18.T2", ok, f"{q.split('.')[-3]}: derive(a, b) = HKDF-SHA-512(session secret, salt = a, info = b)",
                 f"{ctx.fkey(g)}:derive-closure", f"{q}: the session's derive function is {shown}; salt/info must be its first/second argument", g.loc())
    ck.require_min("C18.T2", "derive closures of the pair-verify session", len(closures), 2)
    return n_sites


# ---------------------------------------------------------------------- K1
class _NoEval(Exception):
    pass


def _eval(t, leaves: dict, env: dict):
    """Evaluate a closed term of the data-independent family (constant-bound slices, hex, join, case folding,
    comprehensions over range) with the given leaf values.  Anything else raises _NoEval (-> UNKNOWN)."""
    if t in leaves:
        return leaves[t]
    k = t[0]
    if k == "const":
        return t[1]
    if k == "cvar":
        if t[1] not in env:
            raise _NoEval(f"free variable {t[1]}")
        return env[t[1]]
    if k == "add":
        vals = [_eval(x, leaves, env) for x in t[1]]
        acc = vals[0]
        for v in vals[1:]:
            if type(acc) is not type(v) or not isinstance(acc, (int, str, bytes)):
                raise _NoEval("add")
            acc = acc + v
        return acc
    if k == "binop" and t[1] in ("Sub", "Mult", "FloorDiv", "Mod"):
        a, b = _eval(t[2], leaves, env), _eval(t[3], leaves, env)
        if type(a) is not int or type(b) is not int or (t[1] in ("FloorDiv", "Mod") and b == 0):
            raise _NoEval("binop")
        return {"Sub": a - b, "Mult": a * b, "FloorDiv": a // b if b else 0, "Mod": a % b if b else 0}[t[1]]
    if k == "sub":
        base = _eval(t[1], leaves, env)
        if not isinstance(base, (bytes, str, list, tuple)):
            raise _NoEval("subscript base")
        idx = t[2]
        if idx[0] == "slice":
            b = [None if x is None else _eval(x, leaves, env) for x in idx[1:4]]
            if any(x is not None and type(x) is not int for x in b) or b[2] == 0:
                raise _NoEval("slice bound")
            return base[b[0]:b[1]:b[2]]
        i = _eval(idx, leaves, env)
        if type(i) is not int or not -len(base) <= i < len(base):
            raise _NoEval("index")
        return base[i]
    if k in ("tuple", "list"):
        return [_eval(x, leaves, env) for x in t[1]]
    if k == "fstr":
        out = ""
        for part in t[1]:
            if part[0] == "const":
                out += str(part[1])
            else:
                v = _eval(part[1], leaves, env)
                spec = _eval(part[3], leaves, env) if part[3] is not None else ""
                if part[2] != -1 or not isinstance(spec, str) or not isinstance(v, (int, str)):
                    raise _NoEval("format")
                try:
                    out += format(v, spec)
                except Exception as e:  # noqa: BLE001
                    raise _NoEval("format") from e
        return out
    if k == "comp" and t[1] in ("GeneratorExp", "ListComp"):
        gens = t[3]

        def rec(i, env2):
            if i == len(gens):
                yield _eval(t[2], leaves, env2)
                return
            tgt, it, conds = gens[i]
            if tgt[0] != "cvar" or conds:
                raise _NoEval("comprehension shape")
            seq = _eval(it, leaves, env2)
            if not isinstance(seq, (range, bytes, str, list)) or len(seq) > 64:
                raise _NoEval("comprehension iterable")
            for v in seq:
                yield from rec(i + 1, {**env2, tgt[1]: v})

        return list(rec(0, env))
    if k == "call" and not t[3]:
        fn = t[1]
        args = [_eval(x, leaves, env) for x in t[2]]
        if fn == ("glob", "range") and 1 <= len(args) <= 3 and all(type(a) is int for a in args) and (len(args) < 3 or args[2] != 0):
            return range(*args)
        if fn == ("glob", "len") and len(args) == 1 and isinstance(args[0], (bytes, str, list, range)):
            return len(args[0])
        if fn[0] == "attr":
            recv = _eval(fn[1], leaves, env)
            name = fn[2]
            if name == "hex" and isinstance(recv, bytes) and (not args or (len(args) == 1 and isinstance(args[0], str) and len(args[0]) == 1)):
                return recv.hex(*args)
            if name in ("lower", "upper") and isinstance(recv, str) and not args:
                return getattr(recv, name)()
            if name == "join" and isinstance(recv, str) and len(args) == 1 and isinstance(args[0], list) and all(isinstance(x, str) for x in args[0]):
                return recv.join(args[0])
    raise _NoEval(f"unsupported term {show(t, 60)}")


ID_VECTORS = [bytes.fromhex("abcdef01029a"), bytes.fromhex("00ff10a0b00c"), bytes.fromhex("fedcba987654")]


def _k1(ctx: Context) -> None:
    ck = ctx.ck
    sites = _k1_parser(ctx)
    sites += _k1_routing(ctx)
    sites += _k1_plaintext(ctx)
    sites += _k1_from_bytes(ctx)
    ck.require_min("C18.K1", "layout/routing sites (parser fields, routing, plaintext fields, format rows)", sites, 24)


def _type_gate(ctx: Context, cfg, want_base=None):
    """Tests `X[0] == 0x11` / `!=`  -> (pass edges, [X terms])."""
    T = ctx.terms
    pas, bases = [], []
    for n in cfg.nodes:
        if n.kind != "test":
            continue
        t = strip_sites(T.of(cfg, n, n.exprs[0]))
        if t[0] != "cmp" or len(t[1]) != 1 or t[1][0] not in ("Eq", "NotEq"):
            continue
        for a, b in ((t[2][0], t[2][1]), (t[2][1], t[2][0])):
            if b == ("const", SPEC.NOTIFICATION_TYPE) and a[0] == "sub" and a[2] == ("const", 0):
                pas += ctx.edges(cfg, n, "T" if t[1][0] == "Eq" else "F")
                bases.append(a[1])
    return pas, bases


def _k1_parser(ctx: Context) -> int:
    ck = ctx.ck
    T = ctx.terms
    f = ctx.func(PARSER)
    cfg = ctx.cfg(PARSER)
    fk = ctx.fkey(f)
    # the returned constructor call, looked up through a temporary (`obj = Cls(...); return obj`)
    rets = [d for d in (ctx.deref(cfg, n, n.exprs[0]) for n in cfg.nodes if n.kind == "return" and n.exprs) if isinstance(d[1], ast.Call)]
    if len(rets) != 1 or len([n for n in cfg.nodes if n.kind == "return"]) != 1:
        ck.unknown("C18.K1", "notification parser: expected one constructor return", f.loc())
        return 0
    rn, rcall = rets[0]
    loc = ctx.loc(f, rn)
    pas, bases = _type_gate(ctx, cfg)
    ctx.must_pass("C18.K1", cfg, rn, f"type byte == {SPEC.NOTIFICATION_TYPE:#04x} [equal outcome]", pas,
                  desc=f"notification parser: an object is built only for manufacturer data of type {SPEC.NOTIFICATION_TYPE:#04x}")
    if len(set(bases)) != 1:
        if bases:
            ck.unknown("C18.K1", "notification parser: several type tests on different buffers", f.loc())
        return 1
    M = bases[0]
    okm = (M[0] == "call" and M[1][0] == "attr" and M[1][2] == "get" and M[1][1][0] == "param" and M[2][:1] == (("const", SPEC.APPLE_COMPANY_ID),))
    _judge(ck, "C18.K1", okm, [M], f"notification parser: the bytes are the manufacturer data of company id {SPEC.APPLE_COMPANY_ID}",
           f"{fk}:company-id", f"notification parser: the parsed buffer is {show(M, 100)}", loc)
    call = rcall
    kw = {k.arg: strip_sites(T.of(cfg, rn, k.value)) for k in call.keywords if k.arg}
    fields = [x.target.id for x in f.cls.node.body if isinstance(x, ast.AnnAssign) and isinstance(x.target, ast.Name)] if f.cls else []
    for i, a in enumerate(call.args):
        if i < len(fields):
            kw[fields[i]] = strip_sites(T.of(cfg, rn, a))
    lo, hi = SPEC.ADV_ID_SLICE
    adv = ("sub", M, ("slice", ("const", lo), ("const", hi), None))
    missing = ("unknown", "field not passed")
    at = kw.get("advertising_identifier", missing)
    _judge(ck, "C18.K1", at == adv, [at], f"notification: advertising identifier = bytes {lo}..{hi}", f"{fk}:field:advertising_identifier",
           f"notification parser: advertising_identifier is {show(at, 100)}, HAP-BLE says bytes [{lo}:{hi}]", loc)
    pt = kw.get("encrypted_payload", missing)
    sl = _slice_of(pt) if pt[0] == "sub" else None
    _judge(ck, "C18.K1", sl is not None and sl == (M, SPEC.PAYLOAD_START, None), [pt], f"notification: encrypted payload = bytes {SPEC.PAYLOAD_START}..",
           f"{fk}:field:encrypted_payload", f"notification parser: encrypted_payload is {show(pt, 100)}, HAP-BLE says bytes [{SPEC.PAYLOAD_START}:]", loc)
    it = kw.get("id", missing)
    asl = _slice_of(at) if at[0] == "sub" else None
    leaf = at if asl is not None and asl[0] == M and asl[2] is not None and asl[2] - asl[1] == hi - lo and asl[1] >= 0 else adv
    try:
        got = [_eval(it, {leaf: v}, {}) for v in ID_VECTORS]
        want = [":".join(f"{b:02x}" for b in v) for v in ID_VECTORS]
        ck.check("C18.K1", got == want, "notification: id = lower-case colon-separated hex of the very bytes handed on as advertising identifier (term evaluated on 3 vectors)",
                 f"{fk}:field:id", f"notification parser: for advertising id {ID_VECTORS[0].hex()} the id is {got[0]!r}, pairings are keyed by {want[0]!r}", loc)
    except _NoEval as e:
        ck.unknown("C18.K1", f"notification parser: id term outside the evaluable family ({e}): {show(it, 140)}", loc)
    return 5


def _k1_routing(ctx: Context) -> int:
    ck = ctx.ck
    T = ctx.terms
    f = ctx.func(DETECTED)
    cfg = ctx.cfg(DETECTED)
    fk = ctx.fkey(f)
    pf = ctx.func(PARSER)
    parses = [(n, c) for n in cfg.nodes for c in ctx.calls(n) if PARSER in ctx.callee_names(f, c)]
    if len(parses) != 1:
        ck.unknown("C18.K1", f"_device_detected: expected one call of the notification parser, found {len(parses)}", f.loc())
        return 0
    pn, pc = parses[0]
    P = T.of(cfg, pn, pc)
    pas, bases = _type_gate(ctx, cfg)
    ctx.must_pass("C18.K1", cfg, pn, f"type byte == {SPEC.NOTIFICATION_TYPE:#04x} [equal outcome]", pas,
                  desc=f"_device_detected: only type {SPEC.NOTIFICATION_TYPE:#04x} manufacturer data is parsed as an encrypted notification")
    # the bytes that were type-tested are the bytes that are parsed
    b = _bind(pc, pf, True)
    md_idx = None
    pcfg = ctx.cfg(PARSER)
    _pp, pbases = _type_gate(ctx, pcfg)
    if pbases and pbases[0][0] == "call" and pbases[0][1][0] == "attr" and pbases[0][1][1][0] == "param" and pbases[0][1][1][1] in pf.pos_params:
        md_idx = pf.pos_params.index(pbases[0][1][1][1])
    if not bases or not pbases:
        pass  # a missing type test is reported by the must-pass queries
    elif b is None or md_idx is None or md_idx not in b:
        ck.unknown("C18.K1", "_device_detected: cannot relate the type-tested bytes to the parser's argument", ctx.loc(f, pn))
    else:
        mt = strip_sites(T.of(cfg, pn, b[md_idx]))
        want = ("call", ("attr", mt, "get"), (("const", SPEC.APPLE_COMPANY_ID),), ())
        from ._pairing import get_as_item as _gi  # d.get(K) and d[K] (behind a presence test / KeyError handler) are the same item

        _judge(ck, "C18.K1", all(_gi(x) == _gi(want) for x in bases), [mt] + bases, "_device_detected: the type test reads the same manufacturer data that is parsed",
               f"{fk}:type-test-buffer", f"_device_detected: type test on {show(bases[0], 100)}, parser is given {show(mt, 100)}", ctx.loc(f, pn))
    # parse errors are ignored
    bad = [(d, e) for (d, l, e) in pn.succ if l == "x" and cfg.nodes[d].kind != "handler"]
    notif_calls = [(n, c) for n in cfg.nodes for c in ctx.calls(n) if NOTIF in ctx.callee_names(f, c)]
    ck.check("C18.K1", not bad, "_device_detected: errors of the notification parser are caught (malformed notifications are ignored)",
             f"{fk}:parser-error-uncaught", f"_device_detected: {sorted({e for _d, e in bad})} raised by the notification parser is not caught", ctx.loc(f, pn))
    for d, l, e in pn.succ:
        if l == "x" and cfg.nodes[d].kind == "handler":
            reach = cfg.reachable_from(d)
            ck.check("C18.K1", not any(n.id in reach for n, _c in notif_calls), f"_device_detected: after a parse error ({e}) no pairing is notified",
                     f"{fk}:parse-error-continues", "_device_detected: a parse error still reaches _async_notification", ctx.loc(f, cfg.nodes[d]))
    if not notif_calls:
        ck.unknown("C18.K1", "_device_detected: no _async_notification call found", f.loc())
        return 3
    selfp = f.pos_params[0]
    want = ("call", ("attr", _self_attr(selfp, "pairings"), "get"), (("attr", strip_sites(P), "id"),), ())
    for nn, nc in notif_calls:
        recv = T.of(cfg, nn, nc.func.value) if isinstance(nc.func, ast.Attribute) else ("unknown", "receiver")
        alts = list(recv[1]) if recv[0] == "phi" else [recv]
        bad_alts = [a for a in alts if strip_sites(a) != want]
        # every pairing that can receive the notification was looked up by the id parsed from THIS notification: a fallback
        # route (by address, by name, the only pairing, ...) lets a notification that names a foreign advertising id reach a
        # pairing, which then authenticates it with that foreign id as associated data
        if bad_alts and any(_undecided(a) for a in bad_alts):
            ck.unknown("C18.K1", f"_device_detected: receiver of the notification not resolved ({show(recv, 120)})", ctx.loc(f, nn))
        else:
            ck.check("C18.K1", not bad_alts, "_device_detected: the notification is routed to pairings.get(<id parsed from this notification>)", f"{fk}:routing",
                     f"_device_detected: the notification can be delivered to {show(strip_sites(bad_alts[0]), 160) if bad_alts else ''}: a pairing not selected by the "
                     "advertising id carried in the notification", ctx.loc(f, nn))
    nn, nc = notif_calls[0]
    arg = T.of(cfg, nn, nc.args[0]) if nc.args else ("unknown", "no argument")
    _judge(ck, "C18.K1", arg == P, [arg], "_device_detected: the pairing receives the parsed notification itself", f"{fk}:routing-argument",
           f"_device_detected: _async_notification receives {show(arg, 120)}", ctx.loc(f, nn))
    ctx.must_pass("C18.K1", cfg, nn, "notification parsed [normal outcome]", ctx.normal_out(cfg, pn),
                  desc="_device_detected: a pairing is notified only after the parser returned normally")
    return 6


def _k1_plaintext(ctx: Context) -> int:
    ck = ctx.ck
    T = ctx.terms
    p = _parts(ctx, "C18.K1")
    if p is None:
        return 0
    f, cfg = p.f, p.cfg
    fk = ctx.fkey(f)
    sites = 0

    def field(t, sl):
        """t == int.from_bytes(D[lo:hi], 'little') ?  -> (ok, decided)"""
        r = _int_from_bytes(t)
        if r is None:
            return False
        s = _slice_of(r[0]) if r[0][0] == "sub" else None
        return s is not None and s[0] == p.D and (s[1], s[2]) == sl and r[1] == ("const", SPEC.BYTE_ORDER)

    for n, g in p.inner:
        sites += 1
        _judge(ck, "C18.K1", field(g, SPEC.GSN_SLICE), [g], "inner GSN = little-endian integer of plaintext bytes 0..2",
               f"{fk}:field:gsn", f"_async_notification: the value compared with the nonce counter is {show(strip_sites(g), 160)}, not "
               "int.from_bytes(plaintext[0:2], 'little')", ctx.loc(f, n))
    for ln, lc in p.listeners:
        loc = ctx.loc(f, ln)
        if len(lc.args) != 1:
            ck.unknown("C18.K1", "_callback_listeners is not called with one positional argument", loc)
            continue
        rt = T.of(cfg, ln, lc.args[0])
        if not (rt[0] == "dict" and len(rt[1]) == 1 and rt[1][0][0][0] == "tuple" and len(rt[1][0][0][1]) == 2):
            _judge(ck, "C18.K1", False, [rt], "listeners receive {(aid, iid): {...}} with exactly one entry", f"{fk}:result-shape",
                   f"_async_notification: listeners receive {show(rt, 160)}", loc)
            continue
        (aid_t, iid_t), val_t = rt[1][0][0][1], rt[1][0][1]
        sites += 1
        _judge(ck, "C18.K1", aid_t == ("const", SPEC.BLE_AID), [aid_t], f"delivered under accessory id {SPEC.BLE_AID}", f"{fk}:key-aid",
               f"_async_notification: result key uses aid {show(aid_t, 60)}", loc)
        sites += 1
        _judge(ck, "C18.K1", field(iid_t, SPEC.IID_SLICE), [iid_t], "delivered under iid = little-endian integer of plaintext bytes 2..4",
               f"{fk}:field:iid", f"_async_notification: the result key's iid is {show(strip_sites(iid_t), 160)}, not int.from_bytes(plaintext[2:4], 'little')", loc)
        vok = val_t[0] == "dict" and len(val_t[1]) == 1 and val_t[1][0][0] == ("const", "value")
        if not vok:
            _judge(ck, "C18.K1", False, [val_t], "delivered as {'value': decoded}", f"{fk}:result-value-shape",
                   f"_async_notification: the entry delivered is {show(val_t, 120)}", loc)
            continue
        v = val_t[1][0][1]
        is_fb = v[0] == "call" and v[1] == ("glob", FROM_BYTES) and len(v[2]) == 2 and not v[3]
        if not is_fb:
            _judge(ck, "C18.K1", False, [v], "value decoded by ble.values.from_bytes(char, value bytes)", f"{fk}:value-decoder",
                   f"_async_notification: the delivered value is {show(strip_sites(v), 160)}, not from_bytes(char, plaintext[4:12])", loc)
            continue
        char_t, bytes_t = v[2]
        s = _slice_of(bytes_t) if bytes_t[0] == "sub" else None
        sites += 1
        _judge(ck, "C18.K1", s is not None and s[0] == p.D and (s[1], s[2]) == SPEC.VALUE_SLICE, [bytes_t],
               "value bytes = plaintext bytes 4..12", f"{fk}:field:value",
               f"_async_notification: the value is decoded from {show(strip_sites(bytes_t), 120)}, not plaintext[4:12]", loc)
        want_char = ("call", ("attr", ("attr", ("call", ("attr", _self_attr(p.selfp, "accessories"), "aid"), (("const", SPEC.BLE_AID),), ()), "characteristics"), "iid"),
                     (strip_sites(iid_t),), ())
        sites += 1
        _judge(ck, "C18.K1", strip_sites(char_t) == want_char, [char_t], "the format is taken from the characteristic with the notification's iid (accessory 1)",
               f"{fk}:characteristic", f"_async_notification: the characteristic used for decoding is {show(strip_sites(char_t), 200)}", loc)
    return sites


def _k1_from_bytes(ctx: Context) -> int:
    """Decision table of from_bytes: propagate every format constant through the CFG and compare the return term."""
    ck = ctx.ck
    T = ctx.terms
    f = ctx.func(FROM_BYTES)
    cfg = ctx.cfg(FROM_BYTES)
    fk = ctx.fkey(f)
    if len(f.pos_params) != 2:
        ck.unknown("C18.K1", "from_bytes no longer has (char, value) parameters", f.loc())
        return 0
    charp, valp = f.pos_params
    fmt_t = ("attr", ("param", charp), "format")

    def walk(fmt: str):
        cur, steps = cfg.entry.id, 0
        while steps < 200:
            steps += 1
            n = cfg.nodes[cur]
            if n.kind == "return":
                return n
            if n.kind == "test":
                t = strip_sites(T.of(cfg, n, n.exprs[0]))
                v = None
                if t[0] == "cmp" and len(t[1]) == 1:
                    l, r = t[2]
                    op = t[1][0]
                    if op in ("Eq", "NotEq") and fmt_t in (l, r):
                        o = r if l == fmt_t else l
                        if o[0] == "const":
                            v = (o[1] == fmt) == (op == "Eq")
                    elif op in ("In", "NotIn") and l == fmt_t and r[0] in ("tuple", "set", "list") and all(x[0] == "const" for x in r[1]):
                        v = (fmt in [x[1] for x in r[1]]) == (op == "In")
                    else:
                        # tests on the number of value bytes: the broadcast value field is always VALUE_FIELD_BYTES wide
                        # (the caller's slice plaintext[4:12] is checked separately), so they are decided by that constant
                        lenv = ("call", ("glob", "len"), (("param", valp),), ())
                        a, b2 = (l, r) if l == lenv else (r, l) if r == lenv else (None, None)
                        if a is not None and b2[0] == "const" and isinstance(b2[1], int):
                            w = 8
                            opn = op if l == lenv else {"Lt": "Gt", "Gt": "Lt", "LtE": "GtE", "GtE": "LtE"}.get(op, op)
                            v = {"Eq": w == b2[1], "NotEq": w != b2[1], "Lt": w < b2[1], "LtE": w <= b2[1], "Gt": w > b2[1], "GtE": w >= b2[1]}.get(opn)
                if v is None:
                    return None
                nxt = [d for (d, l, _e) in n.succ if l == ("T" if v else "F")]
            else:
                nxt = [d for (d, l, _e) in n.succ if l == "n"]
            if len(nxt) != 1:
                return None
            cur = nxt[0]
        return None

    rows = 0
    for fmt, (code, size) in sorted(SPEC.VALUE_FORMATS.items()):
        rn = walk(fmt)
        if rn is None or not rn.exprs:
            ck.unknown("C18.K1", f"from_bytes: cannot propagate format {fmt!r} to a return", f.loc())
            continue
        t = strip_sites(T.of(cfg, rn, rn.exprs[0]))
        ok = False
        if t[0] == "sub" and t[2] == ("const", 0) and t[1][0] == "call" and t[1][1] == ("glob", "struct.unpack_from") and not t[1][3]:
            a = t[1][2]
            if len(a) == 2 and a[1] == ("param", valp) and a[0][0] == "const" and isinstance(a[0][1], str):
                got = a[0][1]
                ok = any(got == pre + code for pre in SPEC.LITTLE_ENDIAN_PREFIXES)
        rows += 1
        _judge(ck, "C18.K1", ok, [t], f"from_bytes: format {fmt} -> struct code {code!r} ({size} of the 8 value bytes, little-endian)",
               f"{fk}:format:{fmt}", f"from_bytes: format {fmt} is decoded by {show(t, 100)}; HAP-BLE says {size}-byte little-endian `{code}`", ctx.loc(f, rn))
    rn = walk(SPEC.STRING_FORMAT)
    if rn is None or not rn.exprs:
        ck.unknown("C18.K1", "from_bytes: cannot propagate format 'string' to a return", f.loc())
    else:
        t = strip_sites(T.of(cfg, rn, rn.exprs[0]))
        ok = (t[0] == "call" and t[1] == ("attr", ("param", valp), "decode") and not t[3]
              and (not t[2] or (len(t[2]) == 1 and t[2][0][0] == "const" and t[2][0][1] in SPEC.STRING_CODECS)))
        rows += 1
        _judge(ck, "C18.K1", ok, [t], "from_bytes: format string -> UTF-8 text", f"{fk}:format:string",
               f"from_bytes: strings are decoded by {show(t, 100)}", ctx.loc(f, rn))
    return rows


# ---------------------------------------------------------------------- thorough: who may write
STATE_WRITERS = {
    NOTIF: "gated by C18.G1 (authentic, fresh, inner GSN == nonce)",
    UPDATE_STATE: "helper: value read from the accessory over the authenticated GATT session / connected-event increments",
    f"{BP}._populate_char_values": "protocol parameters read over the authenticated GATT session",
}
KEY_WRITERS = {
    INIT: "None, then the cached key (C18.T2)",
    SETKEY: "the derived key (C18.T2)",
}


def run_thorough(ctx: Context) -> None:
    ck = ctx.ck
    T = ctx.terms
    if not ck.rule("C18.W1", "sweep: who may write description.state_num and the broadcast key"):
        return
    n_state = 0
    desc_writers = set()
    for f, cfg, n, base, val in _attr_writers(ctx, "state_num"):
        bt = strip_sites(T.of(cfg, n, base))
        if not (bt[0] == "attr" and bt[2] == "description"):
            ck.holds("C18.W1", f"{f.qualname.split('.', 1)[1]}: writes state_num of {show(bt, 60)} (not a description; cache copy)", ctx.loc(f, n))
            continue
        n_state += 1
        desc_writers.add(f.qualname)
        why = STATE_WRITERS.get(f.qualname)
        ck.check("C18.W1", why is not None, f"{f.qualname.split('.', 1)[1]}: writer of description.state_num - {why}",
                 f"{ctx.fkey(f)}:unlisted-state-writer:{norm_stmt(n.text())}",
                 f"{f.qualname}: `{n.text()}` writes the last accepted state number outside the reviewed writers "
                 f"({', '.join(sorted(q.rsplit('.', 1)[-1] for q in STATE_WRITERS))})", ctx.loc(f, n))
    ck.require_min("C18.W1", "writers of description.state_num", n_state, 3)
    n_key = 0
    for f, cfg, n, base, val in _attr_writers(ctx, "_broadcast_decryption_key"):
        n_key += 1
        why = KEY_WRITERS.get(f.qualname)
        ck.check("C18.W1", why is not None, f"{f.qualname.split('.', 1)[1]}: writer of _broadcast_decryption_key - {why}",
                 f"{ctx.fkey(f)}:unlisted-key-writer:{norm_stmt(n.text())}",
                 f"{f.qualname}: `{n.text()}` replaces the broadcast key outside __init__ / _async_set_broadcast_encryption_key", ctx.loc(f, n))
    ck.require_min("C18.W1", "writers of _broadcast_decryption_key", n_key, 3)
    # nothing that runs synchronously inside the handler (other than the gated update) writes the state number
    inside = [q for q in sync_closure(ctx, [NOTIF]) if q != NOTIF]
    bad = sorted(set(inside) & desc_writers)
    p = _parts(ctx, "C18.W1")
    if p is not None:
        # a call of _update_state_num inside the handler is an acceptance site of G1 and therefore gated
        gated = {UPDATE_STATE} if any(UPDATE_STATE in ctx.callee_names(p.f, c) for n, _v in p.stores for c in ctx.calls(n)) else set()
        bad = [q for q in bad if q not in gated]
    ck.check("C18.W1", not bad, f"no function running synchronously inside _async_notification ({len(inside)} functions) writes description.state_num",
             f"{NOTIF}:callee-writes-state", f"_async_notification synchronously calls {bad}, which write description.state_num outside the gates", ctx.func(NOTIF).loc())
    # wholesale replacement of the description (recorded, not judged: regular advertisements are not in this property's alphabet)
    repl = []
    mro = set(ctx.prog.mro(BP))
    for f, cfg, n, base, val in _attr_writers(ctx, "description"):
        if f.cls is not None and f.cls.qualname in mro and f.pos_params and strip_sites(T.of(cfg, n, base)) == ("param", f.pos_params[0]):
            repl.append(f"{f.qualname.split('.', 1)[1]} ({ctx.loc(f, n)})")
    ck.stats["c18_description_replaced_by"] = sorted(repl)
    ck.note("description objects are replaced wholesale by: " + "; ".join(sorted(repl)) + " - regular (unauthenticated) advertisements "
            "re-anchor the window; they are outside the history alphabet of C18 (encrypted notifications only)")


MANIFEST = {
    "technique": "CFG must-pass-through with gates as edges (per loop iteration), window analysis of the candidate iterable term, "
    "def-use terms for the AEAD argument flow / MAC input / key derivation, evaluation of the id term, constant propagation of "
    "every characteristic format through from_bytes, who-may-write sweep",
    "level_text": "Static, all paths: decides that the state-number update and the listener call of the encrypted-broadcast handler "
    "are reachable only through key-present, description-present and - for the same candidate - authenticated, not-stale and "
    "inner-GSN-equals-nonce outcomes; that every candidate of the (finite) window is >= the last accepted number and the equal one "
    "only reaches the ignore-return; that nonce, combined text, AAD, 4-byte tag, MAC input, key-stream counter and the HKDF "
    "salt/info of the broadcast key are the specified ones and a tag mismatch returns before any decryption; and the byte layout, "
    "id formatting, routing and format table. From these premises the history statement (no replay, forgery or mismatching inner "
    "counter changes state or reaches listeners; an accepted notification advances the number) follows by induction over the "
    "sequence of advertisements; histories themselves are not explored.",
    "level_note": "NOT decided: histories as such; Poly1305/ChaCha/HKDF primitives and the third-party base class (trusted); forgery "
    "probability of the 4-byte tag (payloads shorter than 4 bytes weaken it further but then decode to GSN 0, which no candidate >= 1 "
    "equals); native struct byte order taken as little-endian; plaintexts shorter than 12 bytes (struct.error after the update) are "
    "outside the rule. Regular unauthenticated advertisements replace description.state_num wholesale (recorded by the W1 sweep) "
    "and are outside this property's alphabet. Unrecognised restructurings end in ANALYSIS-ERROR (exit 2), not a pass.",
}

TWIN_FILES = [
    "aiohomekit/controller/ble/pairing.py",
    "aiohomekit/controller/ble/key.py",
    "aiohomekit/crypto/chacha20poly1305.py",
    "aiohomekit/controller/ble/manufacturer_data.py",
    "aiohomekit/controller/ble/controller.py",
    "aiohomekit/controller/ble/values.py",
    "aiohomekit/protocol/__init__.py",
]
_P = "aiohomekit/controller/ble/pairing.py"
_K = "aiohomekit/controller/ble/key.py"
_C = "aiohomekit/crypto/chacha20poly1305.py"
_M = "aiohomekit/controller/ble/manufacturer_data.py"
_D = "aiohomekit/controller/ble/controller.py"
_V = "aiohomekit/controller/ble/values.py"
_STALE = (
    "            if state_num == start_state_num:\n"
    "                logger.debug(\n"
    '                    "%s: Encrypted notification with stale state_num %s ignored: %s",\n'
    "                    self.name,\n"
    "                    state_num,\n"
    "                    data,\n"
    "                )\n"
    "                return\n"
)
_GSN = (
    "            if gsn != state_num:\n"
    "                logger.debug(\n"
    '                    "%s: GSN mismatch, expected: %s, got: %s",\n'
    "                    self.name,\n"
    "                    state_num,\n"
    "                    gsn,\n"
    "                )\n"
    "                return\n"
)
VARIANTS = [
    # ---- Appendix A
    {"name": "stale test deleted", "file": _P, "old": _STALE, "new": "", "expect": ["C18.G1", "C18.T1"]},
    {"name": "GSN test deleted", "file": _P, "old": _GSN, "new": "", "expect": "C18.G1"},
    {"name": "range(start - 5, ...)", "file": _P, "old": "start_state_num + 2, start_state_num + 100", "new": "start_state_num - 5, start_state_num + 100", "expect": "C18.T1"},
    {"name": "b'' as AAD", "file": _P, "old": "                state_num,\n                data.advertising_identifier,\n", "new": '                state_num,\n                b"",\n', "expect": "C18.T2"},
    {"name": "state_num updated before the GSN test", "file": _P,
     "old": '            gsn = int.from_bytes(decrypted[0:2], "little")\n', "new": '            gsn = int.from_bytes(decrypted[0:2], "little")\n            self.description.state_num = gsn\n',
     "expect": "C18.G1"},
    # ---- G1
    {"name": "stale test inverted", "file": _P, "old": "            if state_num == start_state_num:\n", "new": "            if state_num != start_state_num:\n", "expect": ["C18.G1", "C18.T1"]},
    {"name": "GSN mismatch only logged", "file": _P, "old": "                    gsn,\n                )\n                return\n", "new": "                    gsn,\n                )\n", "expect": "C18.G1"},
    {"name": "unauthenticated candidate falls through", "file": _P, "old": "            if decrypted is None:\n                continue\n", "new": "            if decrypted is not None:\n                continue\n", "expect": "C18.G1"},
    {"name": "listeners told when decryption failed", "file": _P, "old": "            if decrypted is None:\n                continue\n",
     "new": "            if decrypted is None:\n                self._callback_listeners({})\n                continue\n", "expect": "C18.G1"},
    {"name": "missing key only logged", "file": _P, "old": "            self._process_disconnected_events()\n            return\n\n        if not self.description:", "new": "            self._process_disconnected_events()\n\n        if not self.description:", "expect": "C18.G1"},
    {"name": "state number advanced to the candidate + 1", "file": _P, "old": "            self.description.state_num = gsn\n", "new": "            self.description.state_num = gsn + 1\n", "expect": "C18.G1"},
    {"name": "state number never advanced", "file": _P, "old": "            self.description.state_num = gsn\n", "new": "", "expect": "C18.G1"},
    {"name": "GSN compared with the last accepted number instead of the nonce", "file": _P, "old": "            if gsn != state_num:\n", "new": "            if gsn == start_state_num:\n", "expect": "C18.G1"},
    # ---- T1
    {"name": "candidate start - 1 added", "file": _P, "old": "            start_state_num,  # This is the old state number (already used)\n",
     "new": "            start_state_num,  # This is the old state number (already used)\n            start_state_num - 1,\n", "expect": "C18.T1"},
    {"name": "window anchored at zero", "file": _P, "old": "        start_state_num = self.description.state_num\n", "new": "        start_state_num = 0\n", "expect": ["C18.T1"]},
    {"name": "loop continues after acceptance", "file": _P, "old": "            self._callback_listeners(results)\n            return\n", "new": "            self._callback_listeners(results)\n            continue\n", "expect": "C18.T1"},
    # ---- T2
    {"name": "AAD and payload swapped at the call", "file": _P,
     "old": "                data.encrypted_payload,\n                state_num,\n                data.advertising_identifier,\n",
     "new": "                data.advertising_identifier,\n                state_num,\n                data.encrypted_payload,\n", "expect": "C18.T2"},
    {"name": "AAD and payload swapped in decrypt", "file": _K, "old": "self.key.open(PACK_NONCE(gsn), data, advertising_identifier)", "new": "self.key.open(PACK_NONCE(gsn), advertising_identifier, data)", "expect": "C18.T2"},
    {"name": "nonce from a constant", "file": _K, "old": "self.key.open(PACK_NONCE(gsn),", "new": "self.key.open(PACK_NONCE(0),", "expect": "C18.T2"},
    {"name": "nonce from the last accepted number", "file": _P, "old": "                data.encrypted_payload,\n                state_num,\n", "new": "                data.encrypted_payload,\n                start_state_num + 1,\n", "expect": "C18.T2"},
    {"name": "nonce prefix 1", "file": _C, "old": 'PACK_NONCE = partial(Struct("<LQ").pack, 0)', "new": 'PACK_NONCE = partial(Struct("<LQ").pack, 1)', "expect": "C18.T2"},
    {"name": "nonce counter big-endian", "file": _C, "old": 'PACK_NONCE = partial(Struct("<LQ").pack, 0)', "new": 'PACK_NONCE = partial(Struct(">LQ").pack, 0)', "expect": "C18.T2"},
    {"name": "tag compared on 2 bytes", "file": _C, "old": "        expected_tag = combined_text[-4:]\n", "new": "        expected_tag = combined_text[-2:]\n", "expect": "C18.T2"},
    {"name": "endswith instead of startswith", "file": _C, "old": "if not tag.startswith(expected_tag):", "new": "if not tag.endswith(expected_tag):", "expect": "C18.T2"},
    {"name": "return None after decrypt instead of before", "file": _C,
     "old": "        if not tag.startswith(expected_tag):\n            return None\n        return ChaCha(self.key, nonce, counter=1).decrypt(ciphertext)\n",
     "new": "        plaintext = ChaCha(self.key, nonce, counter=1).decrypt(ciphertext)\n        if not tag.startswith(expected_tag):\n            return None\n        return plaintext\n",
     "expect": "C18.T2"},
    {"name": "tag mismatch only logged", "file": _C, "old": "        if not tag.startswith(expected_tag):\n            return None\n", "new": "        if not tag.startswith(expected_tag):\n            logger.debug(\"bad tag\")\n", "expect": "C18.T2"},
    {"name": "AAD left out of the MAC", "file": _C, "old": "        mac_data = data + self.pad16(data)\n", "new": '        mac_data = b""\n', "expect": "C18.T2"},
    {"name": "MAC lengths swapped", "file": _C,
     "old": '        mac_data += struct.pack("<Q", len(data))\n        mac_data += struct.pack("<Q", len(ciphertext))\n',
     "new": '        mac_data += struct.pack("<Q", len(ciphertext))\n        mac_data += struct.pack("<Q", len(data))\n', "expect": "C18.T2"},
    {"name": "key stream from block 0", "file": _C, "old": "ChaCha(self.key, nonce, counter=1).decrypt(ciphertext)", "new": "ChaCha(self.key, nonce, counter=0).decrypt(ciphertext)", "expect": "C18.T2"},
    {"name": "key derivation label changed", "file": _P, "old": 'b"Broadcast-Encryption-Key")', "new": 'b"Broadcast-Key")', "expect": "C18.T2"},
    {"name": "salt and info exchanged in the key derivation", "file": _P, "old": 'self._derive(long_term_pub_key_bytes, b"Broadcast-Encryption-Key")', "new": 'self._derive(b"Broadcast-Encryption-Key", long_term_pub_key_bytes)', "expect": "C18.T2"},
    {"name": "key from the accessory's LTPK", "file": _P, "old": 'self.pairing_data["iOSDeviceLTPK"]', "new": 'self.pairing_data["AccessoryLTPK"]', "expect": "C18.T2"},
    # ---- K1
    {"name": "iid taken from bytes 0..2", "file": _P, "old": 'iid = int.from_bytes(decrypted[2:4], "little")', "new": 'iid = int.from_bytes(decrypted[0:2], "little")', "expect": "C18.K1"},
    {"name": "value slice 4..8", "file": _P, "old": "            value = decrypted[4:12]\n", "new": "            value = decrypted[4:8]\n", "expect": "C18.K1"},
    {"name": "GSN big-endian", "file": _P, "old": 'gsn = int.from_bytes(decrypted[0:2], "little")', "new": 'gsn = int.from_bytes(decrypted[0:2], "big")', "expect": "C18.K1"},
    {"name": "delivered under aid 0", "file": _P, "old": '            results = {(BLE_AID, iid): {"value": from_bytes(char, value)}}', "new": '            results = {(0, iid): {"value": from_bytes(char, value)}}', "expect": "C18.K1"},
    {"name": "raw bytes delivered", "file": _P, "old": '{"value": from_bytes(char, value)}}', "new": '{"value": value}}', "expect": "C18.K1"},
    {"name": "advertising id from bytes 3..9", "file": _M, "old": "        advertising_identifier = data[2:8]\n", "new": "        advertising_identifier = data[3:9]\n", "expect": "C18.K1"},
    {"name": "payload from byte 7", "file": _M, "old": "        encrypted_payload = data[8:]\n", "new": "        encrypted_payload = data[7:]\n", "expect": "C18.K1"},
    {"name": "id upper-case", "file": _M, "old": "advertising_identifier.hex()[0 + i : 2 + i] for i in range(0, 12, 2)).lower()", "new": "advertising_identifier.hex()[0 + i : 2 + i] for i in range(0, 12, 2)).upper()", "expect": "C18.K1"},
    {"name": "id without separators", "file": _M, "old": '        device_id = ":".join(advertising_identifier.hex()', "new": '        device_id = "".join(advertising_identifier.hex()', "expect": "C18.K1"},
    {"name": "notification type constant changed", "file": _M, "old": "HOMEKIT_ENCRYPTED_NOTIFICATION_TYPE = 0x11", "new": "HOMEKIT_ENCRYPTED_NOTIFICATION_TYPE = 0x12", "expect": "C18.K1"},
    {"name": "parser errors not caught", "file": _D, "old": "            except ValueError:\n                return\n\n            if pairing := self.pairings.get(data.id):\n                pairing._async_notification(data)",
     "new": "            except KeyError:\n                return\n\n            if pairing := self.pairings.get(data.id):\n                pairing._async_notification(data)", "expect": "C18.K1"},
    {"name": "routed by address", "file": _D, "old": "            if pairing := self.pairings.get(data.id):\n                pairing._async_notification(data)", "new": "            if pairing := self.pairings.get(data.address):\n                pairing._async_notification(data)", "expect": "C18.K1"},
    {"name": "uint16 decoded big-endian", "file": _V, "old": '        return struct.unpack_from("H", value)[0]', "new": '        return struct.unpack_from(">H", value)[0]', "expect": "C18.K1"},
    {"name": "uint32 decoded as 16 bit", "file": _V, "old": '        return struct.unpack_from("I", value)[0]', "new": '        return struct.unpack_from("H", value)[0]', "expect": "C18.K1"},
]
