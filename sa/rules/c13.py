"""C13  Reads and writes report per-characteristic outcomes faithfully."""

from __future__ import annotations

import ast

from ..engine.context import Context, compare_parts, is_membership
from ..engine.loader import NotConst, dotted, walk_expr, walk_own
from ..engine.report import norm_stmt
from ..engine.terms import contains, show, strip_sites, subterms

PROPERTY = "C13"
EXPLANATION = (
    "Static analysis of per-characteristic result handling on IP, CoAP and BLE: (T1) in IpPairing.put_characteristics "
    "the test that removes an item from the listener update compares a status-typed term (to_status_code(status), or the "
    "raw status with 0) with SUCCESS, and the removal sits on the not-success outcome only; (T2) the reported status is "
    "the reply's own status under the reply's own (aid, iid), and non-dict / id-less entries are skipped before any "
    "subscript; (G1) listener updates are inserted only under paired_read with the written value; (G2) "
    "format_characteristic_list applies the request-wide default before the per-entry loop (entries override), deletes "
    "status 0, describes non-zero statuses and skips malformed entries before subscripting; (K1) to_status_code "
    "normalises the sign and maps unknown codes to UNKNOWN; (T3) the four CoAP result mappers pair the i-th result with "
    "ids[i] (enumerate from 0) and report a PDU status as a negative non-zero status; CoAPPairing notifies only keys "
    "absent from the error map that are readable; (G3) BLE notifies only after the write awaits returned, only for "
    "readable characteristics, never swallows a failed write and reports read-only characteristics as "
    "CANT_WRITE_READ_ONLY; (K2) the three transports notify with the same shape {(aid, iid): {'value': value}}. "
    "Quantifier: all paths through the result loops - not sampled reply vectors. Added from a seeded fault: the characteristics list of a write reply is indexed, not defaulted to empty (a reply without a list is not 'nothing failed')."
)
TRUSTED = ["HTTP 204 (empty) means every item of a write was accepted (HAP 6.7.2.2)"]

IPP = "aiohomekit.controller.ip.pairing"
COAPC = "aiohomekit.controller.coap.connection.CoAPHomeKitConnection"
COAPP = "aiohomekit.controller.coap.pairing.CoAPPairing"
BLEP = "aiohomekit.controller.ble.pairing.BlePairing"
SUCCESS = "aiohomekit.protocol.statuscodes.HapStatusCode.SUCCESS"
PR = "pr"


def _u(e) -> str:
    return " ".join(ast.unparse(e).split())


def _is_name(ctx, f, e, qualified) -> bool:
    return ctx.resolve_name(f, e) == qualified


def _region(cfg, edge, stop_kinds=("for", "loop_head")) -> set[int]:
    return cfg.reachable_from(edge[1], avoid_nodes=[x.id for x in cfg.nodes if x.kind in stop_kinds])


def _perm_gate(ctx, cfg, perm: str) -> list:
    """edges certifying `<perm> in <something>.perms`"""
    edges = []
    for n in cfg.nodes:
        if n.kind == "test":
            m = is_membership(n.exprs[0])
            if m and ctx.const(cfg.func, m[0], None) == perm and isinstance(m[1], ast.Attribute) and m[1].attr == "perms":
                edges += cfg.out_edges(n, ("T",) if m[2] else ("F",))
    return edges


def run(ctx: Context) -> None:
    ck = ctx.ck
    if ck.rule("C13.T1", "IP write: success test is on the status"):
        _t1(ctx)
    if ck.rule("C13.T2", "IP write: reported status is the reply's own; malformed entries skipped"):
        _t2(ctx)
    if ck.rule("C13.G1", "IP write: listener update only for readable characteristics"):
        _g1(ctx)
    if ck.rule("C13.G2", "format_characteristic_list"):
        _g2(ctx)
    if ck.rule("C13.K1", "to_status_code"):
        _k1(ctx)
    if ck.rule("C13.T3", "CoAP index correspondence and status sign"):
        _t3(ctx)
    if ck.rule("C13.G3", "BLE write"):
        _g3(ctx)
    if ck.rule("C13.K2", "the three writers notify with the same shape"):
        _k2(ctx)


# ---------------------------------------------------------------------- IP put
def _ip_put(ctx):
    f = ctx.func(f"{IPP}.IpPairing.put_characteristics")
    cfg = ctx.cfg(f.qualname)
    # the reply loop: a for whose iterable subscripts the awaited put_json result with 'characteristics'
    T = ctx.terms
    loop = None
    for n in cfg.nodes:
        if n.kind == "for_iter":
            t = strip_sites(T.of(cfg, n, n.ast.iter))
            if t[0] == "sub" and t[2] == ("const", "characteristics") and contains(t[1], lambda s: s[0] == "await"):
                loop = n
            elif t[0] == "call" and t[1][0] == "attr" and t[1][2] == "get" and t[2][:1] == (("const", "characteristics"),) and len(t[2]) == 2 \
                    and contains(t[1][1], lambda s: s[0] == "await"):
                # `reply.get("characteristics", [])`: a non-empty reply WITHOUT a list (only a request-wide status) then reads as
                # "no failures" - every readable characteristic of a refused write is announced to the listeners as written
                loop = n

                def _reply_status(s_):
                    b_ = s_[1] if s_[0] == "sub" and len(s_) == 3 and s_[2] == ("const", "status") else (
                        s_[1][1] if s_[0] == "call" and s_[1][0] == "attr" and s_[1][2] == "get" and s_[2][:1] == (("const", "status"),) else None)
                    return b_ is not None and contains(b_, lambda z: z[0] == "await") and not contains(b_, lambda z: z[0] == "iter")

                handled = any(m_.kind == "test" and contains(strip_sites(T.of(cfg, m_, m_.exprs[0])), _reply_status) for m_ in cfg.nodes)
                if handled:
                    continue  # the request-wide status of the reply is looked at separately: not decided here
                ctx.ck.violated("C13.T1", f"{ctx.fkey(f)}:reply-without-list-is-success",
                                f"put_characteristics iterates `{n.text()[:70]}`: a write reply that carries no characteristics list (e.g. only a request-wide "
                                "error status) is taken for \"nothing failed\" and the listeners are told the new values; the reply's list must be indexed (a missing "
                                "list is an error), not defaulted to empty", ctx.loc(f, n), None, "a missing characteristics list in a write reply is not read as success")
    return f, cfg, loop


def _t1(ctx: Context) -> None:
    ck = ctx.ck
    f, cfg, loop = _ip_put(ctx)
    T = ctx.terms
    if loop is None:
        ck.unknown("C13.T1", "put_characteristics: the loop over the reply's characteristics was not found", f.loc())
        return
    pops = [(n, c) for n, c in ctx.nodes_calling_name(cfg, "pop") if any(fr[0] == "loop" and fr[1] is loop.ast for fr in n.frames)]
    dels = [n for n in cfg.nodes if n.kind == "stmt" and isinstance(n.ast, ast.Delete) and any(fr[0] == "loop" and fr[1] is loop.ast for fr in n.frames)]
    removal = [n for n, _c in pops] + dels
    if not removal:
        ck.violated("C13.T1", f"{ctx.fkey(f)}:no-removal", "put_characteristics never removes a rejected characteristic from the listener update", f.loc())
        return
    elem = loop.ast.target.id if isinstance(loop.ast.target, ast.Name) else None
    success_const = ctx.prog.const_of(SUCCESS)
    for rn in removal:
        # controlling tests: test nodes inside the loop from which the removal is reachable on exactly one outcome
        ctrl = []
        for n in cfg.nodes:
            if n.kind != "test" or not any(fr[0] == "loop" and fr[1] is loop.ast for fr in n.frames):
                continue
            outs = {}
            for lab in ("T", "F"):
                for e in cfg.out_edges(n, (lab,)):
                    outs[lab] = rn.id in _region(cfg, e) | {e[1]}
            if outs.get("T") != outs.get("F"):
                ctrl.append((n, "T" if outs.get("T") else "F"))
        status_tests = []
        for n, lab in ctrl:
            t = strip_sites(T.of(cfg, n, n.exprs[0]))
            if t[0] == "cmp" and len(t[1]) == 1 and t[1][0] in ("Eq", "NotEq", "Is", "IsNot"):
                l, r = t[2]
                for a, b in ((l, r), (r, l)):
                    if b == ("const", success_const) or b == ("glob", SUCCESS):
                        status_tests.append((n, lab, t[1][0], a, "enum"))
                    elif b == ("const", 0):
                        status_tests.append((n, lab, t[1][0], a, "int"))
        if not status_tests:
            ck.violated("C13.T1", f"{ctx.fkey(f)}:removal-not-status-controlled",
                        "put_characteristics: the removal from the listener update is not controlled by a comparison with SUCCESS / 0", ctx.loc(f, rn))
            continue
        for n, lab, op, a, kind in status_tests:
            raw = ("sub", ("iter", ANYSUB), ("const", "status"))
            is_raw = a[0] == "sub" and a[2] == ("const", "status") and a[1][0] == "iter"
            is_code = a[0] == "call" and a[1] == ("glob", "aiohomekit.protocol.statuscodes.to_status_code") and len(a[2]) == 1 and (
                a[2][0][0] == "sub" and a[2][0][2] == ("const", "status"))
            typed = (kind == "enum" and is_code) or (kind == "int" and is_raw)
            ck.check(
                "C13.T1",
                typed,
                "the success test compares the status code itself with SUCCESS",
                f"{ctx.fkey(f)}:success-test-operand",
                f"put_characteristics compares {show(a, 90)} with {'HapStatusCode.SUCCESS' if kind == 'enum' else '0'}: the operand is not the status "
                "code, so the test does not distinguish accepted from rejected items (an accepted item listed with status 0 in a 207 "
                "reply loses its listener update)",
                ctx.loc(f, n),
            )
            want = "T" if op in ("NotEq", "IsNot") else "F"
            ck.check(
                "C13.T1",
                lab == want,
                "the item is removed on the not-success outcome only",
                f"{ctx.fkey(f)}:removal-polarity",
                "put_characteristics removes the listener update on the SUCCESS outcome (accepted items are dropped, rejected ones notified)",
                ctx.loc(f, n),
            )


ANYSUB = object()


def _t2(ctx: Context) -> None:
    ck = ctx.ck
    f, cfg, loop = _ip_put(ctx)
    T = ctx.terms
    if loop is None:
        ck.unknown("C13.T2", "put_characteristics: reply loop not found", f.loc())
        return
    stores = []
    for n in cfg.nodes:
        a = n.ast
        if n.kind == "stmt" and isinstance(a, ast.Assign) and isinstance(a.targets[0], ast.Subscript) and any(fr[0] == "loop" and fr[1] is loop.ast for fr in n.frames):
            if isinstance(a.value, ast.Dict):
                stores.append(n)
    if not stores:
        ck.violated("C13.T2", f"{ctx.fkey(f)}:no-status-store", "put_characteristics reports no per-item status from the reply", f.loc())
        return
    elem_t = None
    for n in stores:
        a = n.ast
        key = strip_sites(T.of(cfg, n, a.targets[0].slice))
        d = {ctx.const(f, k, None): strip_sites(T.of(cfg, n, v)) for k, v in zip(a.value.keys, a.value.values) if k is not None}
        st = d.get("status", ("unknown", "missing"))
        ok_s = st[0] == "sub" and st[2] == ("const", "status") and st[1][0] == "iter"
        ok_k = key[0] == "tuple" and len(key[1]) == 2 and all(
            k[0] == "sub" and k[1] == (st[1] if ok_s else None) and k[2] == ("const", name) for k, name in zip(key[1], ("aid", "iid")))
        ck.check("C13.T2", ok_s and ok_k, "the reported status is the reply entry's own `status` under its own (aid, iid)",
                 f"{ctx.fkey(f)}:reported-status", f"put_characteristics reports {show(st, 60)} under key {show(key, 80)}", ctx.loc(f, n))
    # malformed entries: every subscript of the element by 'aid'/'iid' is dominated by isinstance(dict) and the membership tests
    elem = loop.ast.target.id if isinstance(loop.ast.target, ast.Name) else None
    if elem is None:
        ck.unknown("C13.T2", "reply loop target is not a simple name", ctx.loc(f, loop))
        return
    _malformed_guards(ctx, "C13.T2", f, cfg, loop, elem)


def _malformed_guards(ctx, rule, f, cfg, loop, elem) -> None:
    ck = ctx.ck
    head = [n for n in cfg.nodes if n.kind == "for" and n.ast is loop.ast][0]
    gates = {"dict": [], "aid": [], "iid": []}
    for n in cfg.nodes:
        if n.kind != "test" or not any(fr[0] == "loop" and fr[1] is loop.ast for fr in n.frames):
            continue
        e = n.exprs[0]
        if isinstance(e, ast.Call) and isinstance(e.func, ast.Name) and e.func.id == "isinstance" and len(e.args) == 2 and _u(e.args[0]) == elem and _u(e.args[1]) in ("dict", "Mapping"):
            gates["dict"] += cfg.out_edges(n, ("T",))
        m = is_membership(e)
        if m and _u(m[1]) == elem:
            k = ctx.const(f, m[0], None)
            if k in ("aid", "iid"):
                gates[k] += cfg.out_edges(n, ("T",) if m[2] else ("F",))
    subs = []
    for n in cfg.nodes:
        if not any(fr[0] == "loop" and fr[1] is loop.ast for fr in n.frames) or n.kind == "test":
            continue
        for e in n.exprs:
            if e is None:
                continue
            for s in walk_expr(e):
                if isinstance(s, ast.Subscript) and _u(s.value) == elem:
                    subs.append(n)
    nsub = 0
    for n in {s.id: s for s in subs}.values():
        nsub += 1
        for g, edges in gates.items():
            p = cfg.find_path(head.id, n.id, avoid_edges=edges, avoid_nodes=[])
            ck.check(rule, p is None, f"{f.name}: `{n.text()[:40]}` only after the entry was checked ({g})",
                     f"{ctx.fkey(f)}:malformed-entry-subscripted:{g}",
                     f"{f.name}: a malformed reply entry ({'not a dict' if g == 'dict' else 'without ' + g}) is subscripted in `{n.text()[:60]}` instead of being skipped",
                     ctx.loc(f, n), cfg.render_path(p) if p else None)
    ck.require_min(rule, f"{f.name}: subscripts of the reply entry", nsub, 1)


def _g1(ctx: Context) -> None:
    ck = ctx.ck
    f, cfg, loop = _ip_put(ctx)
    T = ctx.terms
    gate = _perm_gate(ctx, cfg, PR)
    ins = []
    for n in cfg.nodes:
        a = n.ast
        if n.kind == "stmt" and isinstance(a, ast.Assign) and isinstance(a.targets[0], ast.Subscript) and isinstance(a.value, ast.Dict):
            keys = [ctx.const(f, k, None) for k in a.value.keys if k is not None]
            if keys == ["value"] and (loop is None or not any(fr[0] == "loop" and fr[1] is loop.ast for fr in n.frames)):
                ins.append(n)
    if not ins:
        ck.unknown("C13.G1", "put_characteristics: insertion into the listener update not found", f.loc())
        return
    for n in ins:
        ctx.must_pass("C13.G1", cfg, n, "paired_read in char.perms", gate, desc="IP: a listener update is prepared only for readable characteristics")
        key = strip_sites(T.of(cfg, n, n.ast.targets[0].slice))
        val = strip_sites(T.of(cfg, n, n.ast.value.values[0]))
        ok = key[0] == "tuple" and len(key[1]) == 2 and val[0] == "sub" and val[2] == ("const", 2) and all(
            k[0] == "sub" and k[1] == val[1] and k[2] == ("const", i) for i, k in enumerate(key[1]))
        ck.check("C13.G1", ok, "IP: the update carries the written value under the request's own (aid, iid)", f"{ctx.fkey(f)}:update-shape",
                 f"IP: listener update is {show(key, 60)} -> {show(val, 60)}", ctx.loc(f, n))
    # the perms looked up belong to the same (aid, iid)
    calls = [n for n, c in ctx.nodes_calling_name(cfg, "_callback_listeners")]
    ck.check("C13.G1", len(calls) == 1, "IP: listeners are called once per write", f"{ctx.fkey(f)}:listener-calls",
             f"IP: {len(calls)} listener calls in put_characteristics", f.loc())
    # and only after the request completed
    reqs = [n for n, c in ctx.nodes_calling_name(cfg, "put_json")]
    for c in calls:
        edges = []
        for r in reqs:
            edges += ctx.normal_out(cfg, r)
        ctx.must_pass("C13.G1", cfg, c, "the write request returned", edges, desc="IP: listeners are notified only after the accessory answered")


# ---------------------------------------------------------------------- format_characteristic_list
def _g2_callers(ctx: Context, f, requested: str | None) -> None:
    """Whoever hands format_characteristic_list a set of requested characteristics hands it the ids its own caller asked
    for - not a subset (e.g. only the readable ones): the request-wide status is applied to that set, so a characteristic
    missing from it gets no result at all and a rejected write looks like an empty, i.e. successful, result."""
    ck = ctx.ck
    T = ctx.terms
    n_sites = 0

    def requested_param(t, g) -> bool:
        t = strip_sites(t)
        if t[0] == "phi":
            return all(requested_param(a, g) for a in t[1])
        if t[0] == "call" and t[1][0] == "glob" and t[1][1] in ("set", "frozenset", "list", "tuple") and len(t[2]) == 1 and not t[3]:
            return requested_param(t[2][0], g)
        return t[0] == "param" and t[1] in g.pos_params[1:]

    for g in ctx.prog.package_functions():
        if isinstance(g.node, ast.Lambda) or "format_characteristic_list" not in g.module.source or g.qualname == f.qualname:
            continue
        gcfg = ctx.cfg(g.qualname)
        for n, c in ctx.nodes_calling_name(gcfg, "format_characteristic_list"):
            arg = c.args[1] if len(c.args) >= 2 else next((k.value for k in c.keywords if k.arg == requested), None)
            if arg is None:
                continue
            n_sites += 1
            t = T.of(gcfg, n, arg)
            ck.check("C13.G2", requested_param(t, g),
                     f"{g.name}: format_characteristic_list is given the ids {g.name} was asked for",
                     f"{ctx.fkey(g)}:requested-set",
                     f"{g.name}: format_characteristic_list is told that the requested characteristics are {show(strip_sites(t), 100)}, not the ids {g.name} itself was "
                     "asked for: a request-wide status is spread over that set only, so a requested characteristic outside it gets no result and its "
                     "rejection is not reported", ctx.loc(g, n))
    ck.require_min("C13.G2", "call sites passing a requested set to format_characteristic_list", n_sites, 1)


def _g2(ctx: Context) -> None:
    ck = ctx.ck
    f = ctx.func(f"{IPP}.format_characteristic_list")
    cfg = ctx.cfg(f.qualname)
    T = ctx.terms
    data, requested = (f.pos_params + [None, None])[:2]
    _g2_callers(ctx, f, requested)
    loops = [n for n in cfg.nodes if n.kind == "for_iter"]
    entry_loop = default_loop = None
    for n in loops:
        t = strip_sites(T.of(cfg, n, n.ast.iter))
        if contains(t, lambda s: s == ("const", "characteristics")):
            entry_loop = n
        if t == ("param", requested):
            default_loop = n
    if entry_loop is None or default_loop is None:
        ck.unknown("C13.G2", "format_characteristic_list: default loop / entry loop not found", f.loc())
        return
    # stores
    def stores_in(loop):
        return [n for n in cfg.nodes if n.kind == "stmt" and isinstance(n.ast, ast.Assign) and isinstance(n.ast.targets[0], ast.Subscript)
                and any(fr[0] == "loop" and fr[1] is loop.ast for fr in n.frames) and not isinstance(n.ast.targets[0].value, ast.Subscript)
                and _u(n.ast.targets[0].value) not in (entry_loop.ast.target.id if isinstance(entry_loop.ast.target, ast.Name) else "",)
                # (a store into the entry itself under another name - the consumer's variable of an inlined generator loop - is not a store of a result)
                and not contains(strip_sites(T.of(cfg, n, n.ast.targets[0].value)), lambda s_: isinstance(s_, tuple) and s_[:1] == ("iter",))]
    dst = stores_in(default_loop)
    est = stores_in(entry_loop)
    ok = bool(dst) and bool(est)
    if ok:
        for e in est:
            for d in dst:
                if cfg.find_path(e.id, d.id) is not None:
                    ok = False
    ck.check("C13.G2", ok, "the request-wide default is applied before the per-entry loop (entries override defaults)",
             f"{ctx.fkey(f)}:default-order", "format_characteristic_list: a request-wide error can overwrite an entry the reply does mention", f.loc())
    # the default is applied under status present and != 0, with the reply's status, to every requested id
    for d in dst:
        a = d.ast
        if isinstance(a.value, ast.Dict):
            dd = {ctx.const(f, k, None): strip_sites(T.of(cfg, d, v)) for k, v in zip(a.value.keys, a.value.values) if k is not None}
            st = dd.get("status")
            ck.check("C13.G2", st == ("sub", ("param", data), ("const", "status")), "the default carries the reply's request-wide status",
                     f"{ctx.fkey(f)}:default-status", f"format_characteristic_list: default status is {show(st or ('unknown', ''), 60)}", ctx.loc(f, d))
        gate = []
        for n in cfg.nodes:
            if n.kind == "test":
                t = strip_sites(T.of(cfg, n, n.exprs[0]))
                if t[0] == "cmp" and t[1] == ("NotEq",) and t[2][0] == ("sub", ("param", data), ("const", "status")) and t[2][1] == ("const", 0):
                    gate += cfg.out_edges(n, ("T",))
        ctx.must_pass("C13.G2", cfg, d, "request-wide status != 0", gate, desc="the default is applied only for a non-zero request-wide status")
    # ... and ALWAYS then: from the non-zero-status outcome every path to the per-entry loop runs the default loop, unless the
    # caller gave no requested set (nothing can be defaulted).  Any further condition (e.g. on the length of the reply's
    # list) leaves requested characteristics the reply does not mention without a result.
    gate = []
    bypass = []
    for n in cfg.nodes:
        if n.kind == "test":
            t = strip_sites(T.of(cfg, n, n.exprs[0]))
            if t[0] == "cmp" and t[1] == ("NotEq",) and t[2][0] == ("sub", ("param", data), ("const", "status")) and t[2][1] == ("const", 0):
                gate += cfg.out_edges(n, ("T",))
            if t == ("param", requested):
                bypass += cfg.out_edges(n, ("F",))
            if t[0] == "cmp" and t[1] in (("IsNot",), ("Is",)) and t[2][0] == ("param", requested) and t[2][1] == ("const", None):
                bypass += cfg.out_edges(n, ("F",) if t[1] == ("IsNot",) else ("T",))
    dheads = [x.id for x in cfg.nodes if x.kind in ("for_iter", "for") and x.ast is default_loop.ast]
    eheads = [x.id for x in cfg.nodes if x.kind in ("for_iter",) and x.ast is entry_loop.ast]
    skipped = None
    for e in gate:
        pth = cfg.find_path(e[1], set(eheads) | {cfg.exit.id}, avoid_nodes=dheads, avoid_edges=bypass)
        if pth is not None and e[1] not in dheads:
            skipped = pth
    ck.check("C13.G2", skipped is None and bool(gate), "a non-zero request-wide status is applied to the requested characteristics on every path (no further condition)",
             f"{ctx.fkey(f)}:default-skipped", "format_characteristic_list: with a non-zero request-wide status a path reaches the per-entry loop without applying the status to the "
             "requested characteristics: those the reply does not mention get no result at all", f.loc(), cfg.render_path(skipped) if skipped else None)
    early = [x for x in ast.walk(default_loop.ast) if isinstance(x, (ast.Break, ast.Continue, ast.Return))]
    ck.check("C13.G2", not early, "the default reaches every requested characteristic (no early exit)", f"{ctx.fkey(f)}:default-complete",
             "format_characteristic_list: the request-wide default skips requested characteristics", ctx.loc(f, default_loop))
    # per-entry: malformed skipped before subscripting
    elem = entry_loop.ast.target.id if isinstance(entry_loop.ast.target, ast.Name) else None
    if elem:
        _malformed_guards(ctx, "C13.G2", f, cfg, entry_loop, elem)
    # status 0 deleted; non-zero described
    dels = [n for n in cfg.nodes if n.kind == "stmt" and isinstance(n.ast, ast.Delete) and any(
        isinstance(t, ast.Subscript) and ctx.const(f, t.slice, None) == "status" for t in n.ast.targets)]
    okd = False
    for dn in dels:
        gate = []
        for n in cfg.nodes:
            if n.kind == "test":
                cp = compare_parts(n.exprs[0])
                if cp and cp[1] in ("Eq", "NotEq") and ctx.const(f, cp[2], None) == 0 and isinstance(cp[0], ast.Subscript) and ctx.const(f, cp[0].slice, None) == "status":
                    gate += cfg.out_edges(n, ("T",) if cp[1] == "Eq" else ("F",))
        head = [x for x in cfg.nodes if x.kind == "for" and x.ast is entry_loop.ast][0]
        okd = bool(gate) and cfg.find_path(head.id, dn.id, avoid_edges=gate) is None
    ck.check("C13.G2", okd, "a per-entry status 0 is removed (success entries carry no status)", f"{ctx.fkey(f)}:zero-status",
             "format_characteristic_list: status 0 is no longer removed / is removed for non-zero statuses", f.loc())
    desc = [n for n in cfg.nodes if n.kind == "stmt" and isinstance(n.ast, ast.Assign) and isinstance(n.ast.targets[0], ast.Subscript)
            and ctx.const(f, n.ast.targets[0].slice, None) == "description" and any(fr[0] == "loop" and fr[1] is entry_loop.ast for fr in n.frames)]
    okn = bool(desc)
    for dn in desc:
        gate = []
        for n in cfg.nodes:
            if n.kind == "test":
                cp = compare_parts(n.exprs[0])
                if cp and cp[1] in ("NotEq", "Eq") and ctx.const(f, cp[2], None) == 0 and isinstance(cp[0], ast.Subscript) and ctx.const(f, cp[0].slice, None) == "status":
                    gate += cfg.out_edges(n, ("T",) if cp[1] == "NotEq" else ("F",))  # `!= 0` true, or `== 0` false (if/else form)
        head = [x for x in cfg.nodes if x.kind == "for" and x.ast is entry_loop.ast][0]
        okn &= bool(gate) and cfg.find_path(head.id, dn.id, avoid_edges=gate) is None
    ck.check("C13.G2", okn, "a non-zero per-entry status gets a description", f"{ctx.fkey(f)}:nonzero-description",
             "format_characteristic_list: non-zero statuses are no longer described (or zero ones are)", f.loc())
    # key = (c['aid'], c['iid'])
    for e in est:
        key = strip_sites(T.of(cfg, e, e.ast.targets[0].slice))
        def _field(k, nm):  # c[nm], or c.pop(nm) (look-up and removal in one step)
            return (k[0] == "sub" and k[2] == ("const", nm) and k[1][0] == "iter") or \
                   (k[0] == "call" and k[1][0] == "attr" and k[1][2] == "pop" and k[1][1][0] == "iter" and k[2] == (("const", nm),) and not k[3])

        ok = key[0] == "tuple" and len(key[1]) == 2 and all(_field(k, nm) for k, nm in zip(key[1], ("aid", "iid")))
        ck.check("C13.G2", ok, "entries are keyed by (aid, iid) of the entry", f"{ctx.fkey(f)}:entry-key", f"format_characteristic_list keys entries by {show(key, 80)}", ctx.loc(f, e))


def _alts_k1(t):
    if t[0] == "phi":
        return [a for x in t[1] for a in _alts_k1(x)]
    if t[0] == "ifexp":
        return _alts_k1(t[2]) + _alts_k1(t[3])
    return [t]


def _members_by_value(ctx: Context, qual: str, enum_q: str) -> bool:
    """module-level NAME = {m.value: m for m in <Enum>}"""
    mod, _, name = qual.rpartition(".")
    m = ctx.prog.modules.get(mod)
    if m is None or name not in m.assigns or len(m.assigns[name]) != 1:
        return False
    v = m.assigns[name][0]
    if not (isinstance(v, ast.DictComp) and len(v.generators) == 1 and not v.generators[0].ifs and isinstance(v.generators[0].target, ast.Name)):
        return False
    g = v.generators[0]
    x = g.target.id
    return (ctx.prog.resolve_dotted(m, dotted(g.iter) or "") == enum_q and isinstance(v.key, ast.Attribute) and v.key.attr == "value"
            and isinstance(v.key.value, ast.Name) and v.key.value.id == x and isinstance(v.value, ast.Name) and v.value.id == x)


def _k1(ctx: Context) -> None:
    ck = ctx.ck
    f = ctx.func("aiohomekit.protocol.statuscodes.to_status_code")
    cfg = ctx.cfg(f.qualname)
    T = ctx.terms
    p = f.pos_params[0]
    ab = ("call", ("glob", "abs"), (("param", p),), ())
    forms = [("binop", "Mult", ab, ("const", -1)), ("binop", "Mult", ("const", -1), ab), ("unop", "USub", ab)]
    rets = [n for n in cfg.nodes if n.kind == "return" and n.exprs]
    main = [n for n in rets if not any(fr[0] == "try" and isinstance(fr[2], tuple) for fr in n.frames)]
    HSC = "aiohomekit.protocol.statuscodes.HapStatusCode"
    unknown_const = ctx.prog.const_of(HSC + ".UNKNOWN")
    is_unknown = lambda t_: t_ == ("const", unknown_const) or t_ == ("glob", HSC + ".UNKNOWN")  # noqa: E731
    ctor_args, table_args = [], []
    for n in rets:
        for t in _alts_k1(strip_sites(T.of(cfg, n, n.exprs[0]))):
            if t[0] == "call" and t[1] == ("glob", HSC) and len(t[2]) == 1:
                ctor_args.append((n, t[2][0]))
            # the same look-up through a table of the enum's members by value: TABLE.get(-abs(code)) / TABLE[..]
            if t[0] == "call" and t[1][0] == "attr" and t[1][2] == "get" and t[1][1][0] == "glob" and len(t[2]) >= 1 and _members_by_value(ctx, t[1][1][1], HSC):
                table_args.append((n, t[2][0], t[2][1] if len(t[2]) > 1 else ("const", None)))
    if ctor_args:
        okm = all(a_ in forms for _n, a_ in ctor_args)
        ck.check("C13.K1", okm, "to_status_code returns HapStatusCode(-abs(code))", f"{ctx.fkey(f)}:normalisation",
                 "to_status_code no longer normalises the sign with -abs(code)", f.loc())
        hs = [n for n in cfg.nodes if n.kind == "handler" and n.handler_classes and "ValueError" in n.handler_classes]
        oku = any(is_unknown(strip_sites(T.of(cfg, n, n.exprs[0]))) for h in hs for n in rets if n.id in cfg.reachable_from(h.id))
        ck.check("C13.K1", oku, "an undefined code maps to HapStatusCode.UNKNOWN (ValueError handler)", f"{ctx.fkey(f)}:unknown",
                 "to_status_code no longer maps undefined codes to UNKNOWN", f.loc())
    elif table_args:
        okm = all(a_ in forms for _n, a_, _d in table_args)
        ck.check("C13.K1", okm, "to_status_code looks -abs(code) up among the members of HapStatusCode by value", f"{ctx.fkey(f)}:normalisation",
                 "to_status_code no longer normalises the sign with -abs(code)", f.loc())
        # a value that is not in the table: the default of the look-up, or the return behind `is None`
        oku = all(is_unknown(d_) for _n, _a, d_ in table_args if d_ != ("const", None)) and (
            any(d_ != ("const", None) for _n, _a, d_ in table_args) or any(is_unknown(strip_sites(T.of(cfg, n, n.exprs[0]))) for n in rets))
        none_leak = [n for n in rets if ("const", None) in _alts_k1(strip_sites(T.of(cfg, n, n.exprs[0])))]
        ck.check("C13.K1", oku and not none_leak, "an undefined code maps to HapStatusCode.UNKNOWN (not found in the table)", f"{ctx.fkey(f)}:unknown",
                 "to_status_code no longer maps undefined codes to UNKNOWN", f.loc())
    else:
        ck.unknown("C13.K1", "to_status_code: neither HapStatusCode(<code>) nor a look-up in a table of its members was found: not decided", f.loc())
    ck.check("C13.K1", not [e for e in ctx.flow.esc(f.qualname)], "to_status_code raises nothing", f"{ctx.fkey(f)}:escapes",
             f"to_status_code lets {sorted(ctx.flow.esc(f.qualname))} escape", f.loc())


# ---------------------------------------------------------------------- CoAP
def _t3(ctx: Context) -> None:
    ck = ctx.ck
    T = ctx.terms
    n_ok = 0
    for name in ("_read_characteristics_exit", "_write_characteristics_exit", "_subscribe_to_exit", "_unsubscribe_from_exit"):
        f = ctx.func(f"{COAPC}.{name}")
        cfg = ctx.cfg(f.qualname)
        ids, results = f.pos_params[1], f.pos_params[2]
        loops = [n for n in cfg.nodes if n.kind == "for_iter"]
        lp = None
        for n in loops:
            t = strip_sites(T.of(cfg, n, n.ast.iter))
            if t == ("call", ("glob", "enumerate"), (("param", results),), ()):
                lp = n
        ck.check("C13.T3", lp is not None, f"{name}: iterates enumerate(results) from 0", f"{ctx.fkey(f)}:enumerate",
                 f"{name}: the result loop is not `enumerate({results})` starting at 0", f.loc())
        if lp is None:
            continue
        stores = [n for n in cfg.nodes if n.kind == "stmt" and isinstance(n.ast, ast.Assign) and isinstance(n.ast.targets[0], ast.Subscript) and isinstance(n.ast.value, ast.Dict)]
        it = ("iter", ("call", ("glob", "enumerate"), (("param", results),), ()))
        idx_t = ("sub", it, ("const", 0))
        res_t = ("sub", it, ("const", 1))
        want_id = ("sub", ("param", ids), idx_t)
        good = True
        nst = 0
        for s in stores:
            nst += 1
            key = strip_sites(T.of(cfg, s, s.ast.targets[0].slice))
            # key is ids[idx] or (ids[idx][0], ids[idx][1])
            k_ok = key == want_id or (key[0] == "tuple" and len(key[1]) == 2 and all(k == ("sub", want_id, ("const", i)) for i, k in enumerate(key[1])))
            ck.check("C13.T3", k_ok, f"{name}: the i-th result is stored under ids[i]", f"{ctx.fkey(f)}:key",
                     f"{name}: result stored under {show(key, 90)} instead of {ids}[i]", ctx.loc(f, s))
            d = {ctx.const(f, k, None): strip_sites(T.of(cfg, s, v)) for k, v in zip(s.ast.value.keys, s.ast.value.values) if k is not None}
            if "status" in d:
                st = d["status"]
                s_ok = st == ("unop", "USub", ("attr", res_t, "value"))
                ck.check("C13.T3", s_ok, f"{name}: a PDU status becomes status = -result.value (negative, non-zero)", f"{ctx.fkey(f)}:status-sign",
                         f"{name}: status is {show(st, 60)}", ctx.loc(f, s))
                # only under isinstance(result, PDUStatus)
                gate = []
                for n in cfg.nodes:
                    if n.kind == "test":
                        e = n.exprs[0]
                        if isinstance(e, ast.Call) and isinstance(e.func, ast.Name) and e.func.id == "isinstance" and len(e.args) == 2 and (ctx.resolve_name(f, e.args[1]) or "").endswith("PDUStatus"):
                            gate += cfg.out_edges(n, ("T",))
                ctx.must_pass("C13.T3", cfg, s, "isinstance(result, PDUStatus)", gate, desc=f"{name}: an error entry is stored only for a PDUStatus result")
            good &= k_ok
        ck.require_min("C13.T3", f"{name}: result stores", nst, 1)
        n_ok += 1
    ck.require_min("C13.T3", "CoAP result mappers", n_ok, 4)
    # CoAPPairing.put_characteristics: notify only keys absent from the error map and readable
    f = ctx.func(f"{COAPP}.put_characteristics")
    cfg = ctx.cfg(f.qualname)
    success_const = ctx.prog.const_of(SUCCESS)
    ins = [n for n in cfg.nodes if n.kind == "stmt" and isinstance(n.ast, ast.Assign) and isinstance(n.ast.targets[0], ast.Subscript) and isinstance(n.ast.value, ast.Dict)]
    if not ins:
        ck.unknown("C13.T3", "CoAPPairing.put_characteristics: listener update insertion not found", f.loc())
        return
    gate_ok = []
    for n in cfg.nodes:
        if n.kind == "test":
            t = strip_sites(T.of(cfg, n, n.exprs[0]))
            if t[0] == "cmp" and t[1] == ("Eq",):
                l, r = t[2]
                SUCC = (("const", success_const), ("glob", SUCCESS))
                if r not in SUCC and l in SUCC:
                    l, r = r, l

                def _alts(x):
                    return [a for y in x[1] for a in _alts(y)] if x[0] == "phi" else [x]

                def _lookup(x) -> bool:
                    # the status of the item in the map the write returned: map.get(key, SUCCESS) / map[key]
                    if x[0] == "call" and x[1][0] == "attr" and x[1][2] == "get" and len(x[2]) == 2 and x[2][1] in SUCC:
                        return contains(x[1][1], lambda s: s[0] == "await")
                    return x[0] == "sub" and len(x) == 3 and contains(x[1], lambda s: s[0] == "await")

                al = _alts(l)
                if r in SUCC and any(_lookup(x) for x in al) and all(_lookup(x) or x in SUCC for x in al):
                    gate_ok += cfg.out_edges(n, ("T",))
            if t[0] == "cmp" and t[1] in (("NotIn",), ("In",)) and contains(t[2][1], lambda s: s[0] == "await"):
                gate_ok += cfg.out_edges(n, ("T",) if t[1] == ("NotIn",) else ("F",))
    for n in ins:
        ctx.must_pass("C13.T3", cfg, n, "key absent from the error map", gate_ok, desc="CoAP: a listener update only for items without an error entry")
        ctx.must_pass("C13.T3", cfg, n, "paired_read in char.perms", _perm_gate(ctx, cfg, PR), desc="CoAP: a listener update only for readable characteristics")
    # the write itself: the connection's write_characteristics, or - when that is written out in place - the batch post
    wr = [n for n, c in ctx.nodes_calling_name(cfg, "write_characteristics")] or [n for n, c in ctx.nodes_calling_name(cfg, "post_all")]
    for c, _cc in ctx.nodes_calling_name(cfg, "_callback_listeners"):
        edges = []
        for w in wr:
            edges += ctx.normal_out(cfg, w)
        ctx.must_pass("C13.T3", cfg, c, "the write returned", edges, desc="CoAP: listeners are notified only after the write returned")


# ---------------------------------------------------------------------- BLE
def _g3(ctx: Context) -> None:
    ck = ctx.ck
    f = ctx.func(f"{BLEP}.put_characteristics")
    cfg = ctx.cfg(f.qualname)
    T = ctx.terms
    lst = [(n, c) for n, c in ctx.nodes_calling_name(cfg, "_callback_listeners")]
    if not lst:
        ck.unknown("C13.G3", "BLE put_characteristics: no listener call found", f.loc())
        return
    for ln, lc in lst:
        _g3_listener(ctx, f, cfg, ln)


def _g3_listener(ctx: Context, f, cfg, ln) -> None:
    ck = ctx.ck
    T = ctx.terms
    ctx.must_pass("C13.G3", cfg, ln, "paired_read in char.perms", _perm_gate(ctx, cfg, PR), desc="BLE: listeners only for readable characteristics")
    # ---- the failure records of this function: stores `<returned dict>[key] = <dict with a status>`
    rets = [n for n in cfg.nodes if n.kind == "return" and n.exprs and n.exprs[0] is not None]
    ret_terms = {strip_sites(T.of(cfg, r, r.exprs[0])) for r in rets}
    stores = []
    for n in cfg.nodes:
        if n.kind == "stmt" and type(n.ast) is ast.Assign and len(n.ast.targets) == 1 and isinstance(n.ast.targets[0], ast.Subscript):
            if strip_sites(T.of(cfg, n, n.ast.targets[0].value)) in ret_terms:
                stores.append(n)
    store_ids = {n.id for n in stores}
    heads = [n for n in cfg.nodes if n.kind == "for"]
    if len(heads) != 1:
        ck.unknown("C13.G3", f"BLE put_characteristics: expected one loop over the items, found {len(heads)}", f.loc())
        return
    h = heads[0]
    body_in = [d for d, l, _e in h.succ if l == "T"]
    writes = [n for n, c in ctx.nodes_calling_name(cfg, "_async_request_under_lock")]
    edges = []
    for w in writes:
        edges += ctx.normal_out(cfg, w)
    # listeners only when the item produced no failure record: no path of one iteration passes a failure store and then the
    # listener call (a flag such as `result = {}` ... `if not result` is resolved by the graph: engine/cfg flag threading)
    bad = None
    for s_ in stores:
        p1 = cfg.find_path(body_in[0], s_.id, avoid_nodes={h.id}) if body_in else None
        p2 = cfg.find_path(s_.id, ln.id, avoid_nodes={h.id}) if p1 is not None else None
        if p1 is not None and p2 is not None:
            bad = p1 + p2
    ck.check("C13.G3", bad is None, "BLE: listeners only when the item produced no failure result", f"{ctx.fkey(f)}:listener-after-failure",
             "BLE put_characteristics notifies listeners of a value for an item it also reports as failed", ctx.loc(f, ln), cfg.render_path(bad) if bad else None)
    # after a write request on every path from the loop head
    ctx.must_pass("C13.G3", cfg, ln, "a write request that returned normally", edges, start=h.id,
                  desc="BLE: listeners are notified only after the write request(s) of the item returned")
    ck.require_min("C13.G3", "BLE write request sites", len(writes), 3)
    # writes are under the permission tests
    for w in writes:
        pw = _perm_gate(ctx, cfg, "pw") + _perm_gate(ctx, cfg, "tw")
        ctx.must_pass("C13.G3", cfg, w, "paired_write / timed_write in char.perms", pw, desc="BLE: a write request only for writable characteristics")
    # no handler swallows a failed write
    hs = [n for n in cfg.nodes if n.kind == "handler"]
    swallow = []
    for hd in hs:
        if cfg.exit.id in cfg.reachable_from(hd.id) or any(cfg.nodes[x].kind == "for" for x in cfg.reachable_from(hd.id)):
            swallow.append(hd)
    ck.check("C13.G3", not swallow, "BLE: no handler in put_characteristics swallows a failed write", f"{ctx.fkey(f)}:swallowing-handler",
             f"BLE put_characteristics: handler `{swallow[0].text() if swallow else ''}` lets a failed write continue as if written", ctx.loc(f, swallow[0] if swallow else ln))
    # an item that is not written (neither write permission) gets the record CANT_WRITE_READ_ONLY: every way through one
    # iteration passes a write request that returned, or a store of that record - or leaves by an exception
    cant = ctx.prog.const_of("aiohomekit.protocol.statuscodes.HapStatusCode.CANT_WRITE_READ_ONLY")
    CANT = (("const", cant), ("glob", "aiohomekit.protocol.statuscodes.HapStatusCode.CANT_WRITE_READ_ONLY"))

    def _alts(t):
        return [a for x in t[1] for a in _alts(x)] if t[0] == "phi" else [t]

    ro_stores = []
    for s_ in stores:
        vals = _alts(strip_sites(T.of(cfg, s_, s_.ast.value)))
        if vals and all(v[0] == "dict" and dict((k[1], x) for k, x in v[1] if k[0] == "const").get("status") in CANT for v in vals):
            ro_stores.append(s_)
    ck.check("C13.G3", bool(ro_stores), "BLE: a characteristic that is not writable is reported as CANT_WRITE_READ_ONLY", f"{ctx.fkey(f)}:read-only",
             "BLE put_characteristics no longer reports read-only characteristics with CANT_WRITE_READ_ONLY", f.loc())
    if ro_stores and body_in:
        p = cfg.find_path(body_in[0], {h.id, cfg.exit.id}, avoid_edges=edges, avoid_nodes={x.id for x in ro_stores})
        ck.check("C13.G3", p is None, "BLE: every item is either written or reported as CANT_WRITE_READ_ONLY", f"{ctx.fkey(f)}:silently-skipped",
                 "BLE put_characteristics can pass over an item without writing it and without a failure record: the caller takes it as written", ctx.loc(f, h),
                 cfg.render_path(p) if p else None)
    # failures are returned under the item's key
    okk = bool(stores)
    for s_ in stores:
        key = strip_sites(T.of(cfg, s_, s_.ast.targets[0].slice))
        okk &= key[0] == "tuple" and len(key[1]) == 2 and all(k[0] == "sub" and k[1][0] == "iter" and k[2] == ("const", i) for i, k in enumerate(key[1]))
    ck.check("C13.G3", okk, "BLE: a failure is returned under the item's own (aid, iid)", f"{ctx.fkey(f)}:failure-key",
             "BLE put_characteristics does not return failures under the item's own key", f.loc())


def _k2(ctx: Context) -> None:
    ck = ctx.ck
    T = ctx.terms
    shapes = {}
    for q in (f"{IPP}.IpPairing.put_characteristics", f"{COAPP}.put_characteristics", f"{BLEP}.put_characteristics"):
        f = ctx.func(q)
        cfg = ctx.cfg(q)
        found = None
        for n in cfg.nodes:
            for x in ast.walk(n.ast) if n.ast is not None and n.kind == "stmt" else []:
                if isinstance(x, ast.Dict) and len(x.keys) == 1 and x.keys[0] is not None and ctx.const(f, x.keys[0], None) == "value":
                    v = strip_sites(T.of(cfg, n, x.values[0]))
                    found = (n, v)
        ok = found is not None and found[1][0] == "sub" and found[1][1][0] == "iter" and found[1][2] == ("const", 2)
        if not ok and found is not None and found[1][0] in ("glob", "cvar", "unknown"):
            # the dict is built inside a comprehension (its value is the comprehension's own variable): what that variable
            # ranges over is not followed here
            ck.unknown("C13.K2", f"{q.rsplit('.', 2)[-2]}: the listener payload {{'value': ..}} is built inside a comprehension (`{found[0].text()[:60]}`): which value it carries is not decided", ctx.loc(f, found[0]))
            continue
        ck.check("C13.K2", ok, f"{q.rsplit('.', 2)[-2]}: notifies {{(aid, iid): {{'value': <the written value>}}}}", f"{ctx.fkey(f)}:notify-shape",
                 f"{q.rsplit('.', 2)[-2]}: listener payload is {show(found[1], 80) if found else 'missing'}", f.loc())


MANIFEST = {
    "technique": "term typing of the success test (status-typed operand), must-pass-through of permission/malformed-entry/after-write gates, "
    "term agreement of keys and indices across the three sibling implementations",
    "level_text": "Static, all paths through the result loops: decides that the success test is made on the status code, that removals/"
    "notifications sit on the right outcome, index correspondence on CoAP, write-before-notify on BLE and sibling agreement. "
    "All reply vectors as values are not enumerated.",
    "level_note": "Trusted: an empty (204) write reply means all items accepted; PDUStatus results only occur for failures (C17). A reply "
    "entry with ids but without a status key is not treated as malformed by the property's list and is not decided.",
}

TWIN_FILES = [
    "aiohomekit/controller/ip/pairing.py",
    "aiohomekit/controller/coap/pairing.py",
    "aiohomekit/controller/coap/connection.py",
    "aiohomekit/controller/ble/pairing.py",
    "aiohomekit/protocol/statuscodes.py",
]
_IP = "aiohomekit/controller/ip/pairing.py"
_CC = "aiohomekit/controller/coap/connection.py"
_BP = "aiohomekit/controller/ble/pairing.py"
VARIANTS = [
    {"name": "description compared with SUCCESS (pinned defect)", "file": _IP,
     "old": "                status_code = to_status_code(status)\n                if status_code != HapStatusCode.SUCCESS:",
     "new": "                status_code = to_status_code(status).description\n                if status_code != HapStatusCode.SUCCESS:", "expect": "C13.T1"},
    {"name": "pop on success instead of failure", "file": _IP, "old": "                if status_code != HapStatusCode.SUCCESS:", "new": "                if status_code == HapStatusCode.SUCCESS:", "expect": "C13.T1"},
    {"name": "status reported from the wrong key", "file": _IP, "old": "                status = characteristic[\"status\"]", "new": "                status = characteristic[\"iid\"]", "expect": ["C13.T2", "C13.T1"]},
    {"name": "id-less entries no longer skipped", "file": _IP,
     "old": "                    not isinstance(characteristic, dict)\n                    or \"aid\" not in characteristic\n                    or \"iid\" not in characteristic",
     "new": "                    not isinstance(characteristic, dict)\n                    or \"aid\" not in characteristic", "expect": "C13.T2"},
    {"name": "write-only characteristics notified", "file": _IP, "old": "            if CharacteristicPermissions.paired_read in char.perms:\n                listener_update[(aid, iid)] = {\"value\": value}",
     "new": "            if True:\n                listener_update[(aid, iid)] = {\"value\": value}", "expect": "C13.G1"},
    {"name": "defaults applied after the entries", "file": _IP,
     "old": "    # Process any characteristics that are present - these override the defaults\n", "new": "    for aid, iid in requested_characteristics or ():\n        pass\n", "expect": []},
    {"name": "status 0 kept", "file": _IP, "old": "        if \"status\" in c and c[\"status\"] == 0:\n            del c[\"status\"]\n", "new": "", "expect": "C13.G2"},
    {"name": "non-dict entries subscripted in format_characteristic_list", "file": _IP,
     "old": "        if not isinstance(c, dict) or \"aid\" not in c or \"iid\" not in c:", "new": "        if \"aid\" not in c or \"iid\" not in c:", "expect": "C13.G2"},
    {"name": "sign normalisation dropped", "file": "aiohomekit/protocol/statuscodes.py", "old": "    normalized = abs(status_code) * -1", "new": "    normalized = status_code", "expect": "C13.K1"},
    {"name": "CoAP: result paired with the next id", "file": _CC,
     "old": "        for idx, result in enumerate(pdu_results):\n            aid_iid_value = ids_values[idx]", "new": "        for idx, result in enumerate(pdu_results, 1):\n            aid_iid_value = ids_values[idx - 0]", "expect": "C13.T3"},
    {"name": "CoAP: minus sign dropped", "file": _CC, "old": "                    \"status\": -result.value,  # XXX\n                }\n            else:\n                # decode TLV", "new": "                    \"status\": result.value,  # XXX\n                }\n            else:\n                # decode TLV", "expect": "C13.T3"},
    {"name": "CoAP: rejected items notified", "file": "aiohomekit/controller/coap/pairing.py",
     "old": "                response_status.get((aid, iid), HapStatusCode.SUCCESS) == HapStatusCode.SUCCESS\n                and CharacteristicPermissions.paired_read in char.perms",
     "new": "                CharacteristicPermissions.paired_read in char.perms", "expect": "C13.T3"},
    {"name": "BLE: notify before the write", "file": _BP,
     "old": "                result = {}\n                if CharacteristicPermissions.timed_write in char.perms:",
     "new": "                result = {}\n                if CharacteristicPermissions.paired_read in char.perms:\n                    self._callback_listeners({result_key: {\"value\": value}})\n                if CharacteristicPermissions.timed_write in char.perms:", "expect": "C13.G3"},
    {"name": "BLE: read-only reported as success", "file": _BP,
     "old": "                    result = {\n                        \"status\": HapStatusCode.CANT_WRITE_READ_ONLY,\n                        \"description\": HapStatusCode.CANT_WRITE_READ_ONLY.description,\n                    }",
     "new": "                    result = {}", "expect": "C13.G3"},
    {"name": "BLE: notifies a constant", "file": _BP, "old": "                        self._callback_listeners({result_key: {\"value\": value}})", "new": "                        self._callback_listeners({result_key: {\"value\": True}})", "expect": "C13.K2"},
]
VARIANTS = [v for v in VARIANTS if v["expect"]]

VARIANTS += [
    {"name": "write reply: a missing characteristics list is read as an empty one (refused write announced as written)", "file": "aiohomekit/controller/ip/pairing.py",
     "old": '            for characteristic in response["characteristics"]:',
     "new": '            for characteristic in response.get("characteristics", []):',
     "expect": "C13.T1"},
]
