"""C17  HAP PDUs are fragmented, reassembled and attributed correctly (BLE, CoAP)."""

from __future__ import annotations

import ast
import struct as _struct

from ..engine.context import Context
from ..engine.loader import EXCLUDED_MODULES, StructMethod
from ..engine.report import norm_stmt
from ..engine.terms import contains, show, strip_sites, subterms
from ..spec import pdu as SPEC

PROPERTY = "C17"
EXPLANATION = (
    "Static analysis of the HAP PDU codecs against the frozen HAP-BLE / HAP-CoAP header layouts. (B1) encoder bound: "
    "every yield of pdu.encode_pdu is classified by its term; the first fragment is the packed request header + packed "
    "length field + data[:fs-K1], a continuation is the packed continuation header + rest[i:i+fs-K2]; K1/K2 must equal "
    "struct.calcsize of the formats packed in that very yield (so header + slice <= fs), the control byte has bit 7 "
    "exactly on continuations, the continuation carries the request's tid, the remainder starts at the first slice's "
    "bound and the range step is the same term as the slice width (every byte once); _write_pdu passes an overhead of "
    "16 = AEAD tag length exactly when the encryption key is present, that argument flows into the subtraction of "
    "_determine_fragment_size, and every written value passes key.encrypt(<one fragment>) on the key-present outcome. "
    "(G1) decoders: tid test (and the 0x80 continuation-flag test) dominate every normal exit on their accepting edge, the "
    "rejecting edge can only raise; unpack slices are contiguous and as wide as calcsize of their format. (G2) _read_pdu: "
    "each decode call is reached from its read only over decrypt's normal edge or the key-absent edge; the loop continues "
    "exactly while len(accumulated) < expected_length of the first decode; first fragment via decode_pdu outside the loop, "
    "later ones via decode_pdu_continuation inside, all with the tid ble_request also gave to _write_pdu. (T1) CoAP batch: "
    "encoder tid = enumerate index, its start equals starting_tid at every call site; decoder steps the expected tid by 1 "
    "and the offset by calcsize(header)+body_len of the same call once per cycle; every return of decode_pdu has the "
    "unpacked length first; the three reject edges return TID_MISMATCH / the item's status / BAD_CONTROL. (T2) the four "
    "*_exit functions store result i under ids[i] (enumerate from 0) and map a PDUStatus to status = -value. "
    "Quantifier: all CFG paths and all fragment sizes / body lengths (symbolic linear bound), not sampled inputs. Added from a seeded fault (two independent occurrences): when the BLE reassembly loop is driven by a countdown of missing bytes, the countdown is reduced by the length of exactly the term that is appended to the body."
)
TRUSTED = [
    "bytes slicing semantics (b[i:j] has min(j, len) - i bytes for 0 <= i <= j) and struct.calcsize of the standard-size formats",
    "ChaCha20-Poly1305 seals each message with a 16-byte tag (encrypt adds exactly 16 bytes)",
    "bleak API: write_gatt_char(characteristic, data, response), read_gatt_char(characteristic) -> one GATT value",
    "enumerate(x) counts from 0, zip/list comprehension/b''.join preserve order",
]

BLE_PDU = "aiohomekit.pdu"
BLE_CLIENT = "aiohomekit.controller.ble.client"
BLEAK = "aiohomekit.controller.ble.bleak"
COAP_PDU = "aiohomekit.controller.coap.pdu"
COAP_CONN = "aiohomekit.controller.coap.connection"
DFS = f"{BLEAK}._determine_fragment_size"
EXIT_FUNCS = [
    f"{COAP_CONN}.CoAPHomeKitConnection._read_characteristics_exit",
    f"{COAP_CONN}.CoAPHomeKitConnection._write_characteristics_exit",
    f"{COAP_CONN}.CoAPHomeKitConnection._subscribe_to_exit",
    f"{COAP_CONN}.CoAPHomeKitConnection._unsubscribe_from_exit",
]


def run(ctx: Context) -> None:
    ck = ctx.ck
    if ck.rule("C17.B1", "no fragment exceeds the negotiated size; every byte emitted once; per-fragment encryption overhead"):
        _b1(ctx)
    if ck.rule("C17.G1", "BLE decoders reject a wrong tid / missing continuation flag; unpack widths equal the slices"):
        _g1(ctx)
    if ck.rule("C17.G2", "BLE reassembly: decrypt before decode, loop while len < expected, first/continuation decoders, request tid"):
        _g2(ctx)
    if ck.rule("C17.T1", "CoAP batch: tid = index from starting_tid, header size agreement, errors keep their length"):
        _t1(ctx)
    if ck.rule("C17.T2", "CoAP results: i-th result stored under ids[i]; PDUStatus -> status = -value"):
        _t2(ctx)


# ====================================================================== generic helpers
def _u(e) -> str:
    return " ".join(ast.unparse(e).split())


def _fields(fmt: str):
    """struct format -> (byte order, tuple of field codes); None for native alignment (sizes platform dependent)."""
    s = "".join(fmt.split())
    if not s or s[0] not in "<>!=":
        return None
    out, num = [], ""
    for c in s[1:]:
        if c.isdigit():
            num += c
            continue
        k = int(num) if num else 1
        num = ""
        if c in "sp":
            out.append(f"{k}{c}")
        else:
            out.extend([c] * k)
    if num:
        return None
    return ("<" if s[0] == "<" else ">" if s[0] in ">!" else "="), tuple(out)


def _size(fmt: str):
    try:
        return _struct.calcsize(fmt)
    except _struct.error:
        return None


def _pack(t):
    """``<Struct>.pack(a..)`` / ``struct.pack(fmt, a..)`` term -> (fmt, args) else None."""
    if not (isinstance(t, tuple) and t and t[0] == "call") or t[3]:
        return None
    fn, args = t[1], t[2]
    if fn[0] == "const" and isinstance(fn[1], StructMethod) and fn[1].method == "pack":
        return fn[1].struct.fmt, tuple(args)
    if fn == ("glob", "struct.pack") and args and args[0][0] == "const" and isinstance(args[0][1], str):
        return args[0][1], tuple(args[1:])
    return None


def _unpack(t):
    """unpack / unpack_from call term -> (fmt, buffer term, offset term or None) else None."""
    if not (isinstance(t, tuple) and t and t[0] == "call") or t[3]:
        return None
    fn, args = t[1], t[2]
    if fn[0] == "const" and isinstance(fn[1], StructMethod) and fn[1].method in ("unpack", "unpack_from") and args:
        if fn[1].method == "unpack" and len(args) == 1:
            return fn[1].struct.fmt, args[0], None
        if fn[1].method == "unpack_from" and len(args) <= 2:
            return fn[1].struct.fmt, args[0], args[1] if len(args) == 2 else None
        return None
    if fn[0] == "glob" and fn[1] in ("struct.unpack", "struct.unpack_from") and len(args) >= 2:
        if args[0][0] == "const" and isinstance(args[0][1], str):
            if fn[1] == "struct.unpack" and len(args) == 2:
                return args[0][1], args[1], None
            if fn[1] == "struct.unpack_from" and len(args) <= 3:
                return args[0][1], args[1], args[2] if len(args) == 3 else None
    return None


def _parts(t):
    return list(t[1]) if t[0] == "add" else [t]


def _alts(t):
    return list(t[1]) if t[0] == "phi" else [t]


def _ci(t):
    if t is not None and t[0] == "const" and isinstance(t[1], int) and not isinstance(t[1], bool):
        return t[1]
    return None


def _slice(t):
    """``base[lo:hi]`` term -> (base, lo, hi) (lo/hi terms or None) else None."""
    if t[0] == "sub" and isinstance(t[2], tuple) and t[2] and t[2][0] == "slice" and t[2][3] is None:
        return t[1], t[2][1], t[2][2]
    return None


def _minus(hi, lo):
    """Terms with hi = lo + W  ->  W (a term, constants folded); None when lo is not a summand of hi."""
    if lo is None:
        return hi
    a, b = _ci(hi), _ci(lo)
    if a is not None and b is not None:
        return ("const", a - b)
    hp = [strip_sites(x) for x in _parts(hi)]
    for x in [strip_sites(x) for x in _parts(lo)]:
        if _ci(x) is not None:
            continue
        if x not in hp:
            return None
        hp.remove(x)
    lc = sum(_ci(x) for x in _parts(lo) if _ci(x) is not None)
    consts = [x for x in hp if _ci(x) is not None]
    rest = [x for x in hp if _ci(x) is None]
    c = sum(_ci(x) for x in consts) - lc
    if not rest:
        return ("const", c)
    if c:
        rest = [("const", c)] + rest
    return rest[0] if len(rest) == 1 else ("add", tuple(rest))


def _less_const(t):
    """``X - K`` -> (X, K) for an integer constant K; a bare X -> (X, 0)."""
    if t[0] == "binop" and t[1] == "Sub" and _ci(t[3]) is not None:
        return t[2], _ci(t[3])
    return t, 0


def _is_call_to(t, dotted_name: str) -> bool:
    return isinstance(t, tuple) and bool(t) and t[0] == "call" and t[1] == ("glob", dotted_name)


def _is_len_of(t, what) -> bool:
    return _is_call_to(t, "len") and len(t[2]) == 1 and strip_sites(t[2][0]) == strip_sites(what)


def _add_operands(e):
    """operands of a (left-nested) chain of `+`"""
    return _add_operands(e.left) + _add_operands(e.right) if isinstance(e, ast.BinOp) and isinstance(e.op, ast.Add) else [e]


def _proj(t):
    """``<call>[k]`` -> (call term, k) else None."""
    if t[0] == "sub" and t[1][0] == "call" and _ci(t[2]) is not None:
        return t[1], _ci(t[2])
    return None


def _presence(t):
    """Condition that asks whether a value is present -> (subject term, True when the condition means 'present')."""
    if t[0] == "unop" and t[1] == "Not":
        s, p = _presence(t[2])
        return s, not p
    if t[0] == "cmp" and len(t[1]) == 1 and t[1][0] in ("Is", "IsNot") and t[2][1] == ("const", None):
        return t[2][0], t[1][0] == "IsNot"
    return t, True


def _key_edges(ctx: Context, cfg, subject):
    """Edges of all tests on the presence of ``subject``: (present edges, absent edges)."""
    pres, absent = [], []
    for n in cfg.nodes:
        if n.kind != "test":
            continue
        s, p = _presence(ctx.terms.of(cfg, n, n.exprs[0]))
        if strip_sites(s) == strip_sites(subject):
            pres += ctx.edges(cfg, n, "T" if p else "F")
            absent += ctx.edges(cfg, n, "F" if p else "T")
    return pres, absent


def _calls_to(ctx: Context, cfg, qual: str):
    out = []
    for n in cfg.nodes:
        if n.copy_of and n.copy_of != "normal":
            continue
        for c in ctx.calls(n):
            if qual in ctx.callee_names(cfg.func, c):
                out.append((n, c))
    return out


def _argmap(call: ast.Call, callee, drop_first: bool = False):
    """parameter name -> argument AST (positional and keyword); None when it cannot be decided."""
    names = callee.pos_params[1:] if drop_first else callee.pos_params
    out = {}
    for i, a in enumerate(call.args):
        if isinstance(a, ast.Starred) or i >= len(names):
            return None
        out[names[i]] = a
    for k in call.keywords:
        if k.arg is None:
            return None
        out[k.arg] = k.value
    return out


def _loop_of(n):
    """Innermost loop (AST) whose body contains the node."""
    loops = [fr[1] for fr in n.frames if fr[0] == "loop" and fr[2] == "body"]
    return loops[-1] if loops else None


def _loops_of(n):
    return [fr[1] for fr in n.frames if fr[0] == "loop" and fr[2] == "body"]


def _cycle_avoiding(cfg, node, avoid_nodes=(), avoid_edges=()):
    """A path node -> ... -> node (at least one edge) that avoids the given nodes / edges, or None."""
    avoid_edges = set(avoid_edges)
    for d, l, e in node.succ:
        if l == "x" or (node.id, d, l, e) in avoid_edges:
            continue
        if d == node.id:
            return [(node.id, l, e), (node.id, None, None)]
        if d in set(avoid_nodes):
            continue
        p = cfg.find_path(d, node.id, avoid_nodes=avoid_nodes, avoid_edges=avoid_edges)
        if p is not None:
            return [(node.id, l, e)] + p
    return None


def _resolve_ast(T, cfg, node, expr):
    """Follow a Name through its unique reaching assignment(s) to the defining expression (AST) and node."""
    du = T.du(cfg)
    cur_node, cur = node, expr
    for _ in range(6):
        if not isinstance(cur, ast.Name):
            break
        rd = du.reaching(cur_node.id, cur.id)
        if len(rd) != 1 or rd[0][1].kind != "assign" or rd[0][1].path:
            break
        cur_node, cur = cfg.nodes[rd[0][0]], rd[0][1].value
    return cur_node, cur


def _loop_elem(T, cfg, head):
    """Term of the element bound by a ``for`` node (evaluated after the binding, not at the join)."""
    tg = head.ast.target
    if isinstance(tg, ast.Name):
        return T.var_after(cfg, head, tg.id)
    if isinstance(tg, (ast.Tuple, ast.List)) and all(isinstance(e, ast.Name) for e in tg.elts):
        return ("tuple", tuple(T.var_after(cfg, head, e.id) for e in tg.elts))
    return ("unknown", "loop target")


def _def_ids(T, cfg, node, var):
    return [x[0] for x in T.du(cfg).reaching(node.id, var)]


def _raises_only(cfg, edge) -> bool:
    """No normal exit is reachable once ``edge`` is taken."""
    return cfg.exit.id not in cfg.reachable_from(edge[1])


def _cmp(t):
    """Single comparison term -> (op, left, right) else None."""
    if t[0] == "cmp" and len(t[1]) == 1 and len(t[2]) == 2:
        return t[1][0], t[2][0], t[2][1]
    return None


_FLIP = {"Lt": "Gt", "Gt": "Lt", "LtE": "GtE", "GtE": "LtE", "Eq": "Eq", "NotEq": "NotEq"}


def _eq_gate(ctx: Context, cfg, is_a, is_b):
    """Tests ``a == b`` / ``a != b`` -> (nodes, edges taken when equal, edges taken when different)."""
    nodes, eq, ne = [], [], []
    for n in cfg.nodes:
        if n.kind != "test":
            continue
        c = _cmp(ctx.terms.of(cfg, n, n.exprs[0]))
        if c is None or c[0] not in ("Eq", "NotEq"):
            continue
        if (is_a(c[1]) and is_b(c[2])) or (is_a(c[2]) and is_b(c[1])):
            nodes.append(n)
            eq += ctx.edges(cfg, n, "T" if c[0] == "Eq" else "F")
            ne += ctx.edges(cfg, n, "F" if c[0] == "Eq" else "T")
    return nodes, eq, ne


def _yields(cfg):
    out = []
    for n in cfg.nodes:
        for e in n.exprs:
            if e is None:
                continue
            for sub in ast.walk(e):
                if isinstance(sub, (ast.Yield, ast.YieldFrom)):
                    out.append((n, sub))
    return out


def _unpack_sites(ctx: Context, cfg):
    """Every unpack call of the function: dicts with node, call term, fmt, buffer term, offset term."""
    out, seen = [], set()
    for n in cfg.nodes:
        if n.copy_of and n.copy_of != "normal":
            continue
        for c in ctx.calls(n):
            if id(c) in seen:
                continue
            t = ctx.terms.of(cfg, n, c)
            u = _unpack(t)
            if u is not None:
                seen.add(id(c))
                out.append({"node": n, "call": c, "term": t, "fmt": u[0], "buf": u[1], "off": u[2]})
    return out


# ====================================================================== C17.B1
def _encoder_model(ctx: Context):
    """Classify every yield of pdu.encode_pdu by the shape of its term (no reporting)."""
    f = ctx.func(f"{BLE_PDU}.encode_pdu")
    cfg = ctx.cfg(f.qualname)
    T = ctx.terms
    m = {"f": f, "cfg": cfg, "yields": [], "problems": [], "tid_param": None}
    for n, y in _yields(cfg):
        if isinstance(y, ast.YieldFrom) or y.value is None:
            m["problems"].append((n, "a bare `yield` / `yield from` - emitted bytes not visible as a term"))
            continue
        v = T.of(cfg, n, y.value)
        if v[0] == "call" and v[1] in (("glob", "bytes"), ("glob", "bytearray")) and len(v[2]) == 1 and not v[3]:
            v = v[2][0]  # bytes(<concatenation>) is the concatenation
        packs, sl, bad, whole = [], None, None, None
        for p in _parts(v):
            pk = _pack(p)
            if pk is not None and sl is None and whole is None:
                packs.append(pk)
            elif _slice(p) is not None and sl is None and whole is None:
                sl = _slice(p)
            elif strip_sites(p)[0] == "param" and sl is None and whole is None and packs:
                whole = strip_sites(p)  # the complete body in one fragment (a single-write fast path)
            else:
                bad = p
        if bad is not None or not packs:
            m["problems"].append((n, f"yielded value `{show(v, 90)}` is not <packed header(s)> [+ one slice of the body]"))
            continue
        fmts = [_fields(pk[0]) for pk in packs]
        if any(x is None for x in fmts):
            m["problems"].append((n, f"header packed with a native-alignment format {[pk[0] for pk in packs]}"))
            continue
        kind = "whole" if whole is not None else "bare" if sl is None else ("first" if sl[1] is None or _ci(sl[1]) == 0 else "cont")
        m["yields"].append({
            "node": n, "kind": kind, "term": v, "slice": sl, "whole": whole,
            "order": {x[0] for x in fmts}, "fields": tuple(c for x in fmts for c in x[1]),
            "args": tuple(a for pk in packs for a in pk[1]), "size": sum(_size(pk[0]) for pk in packs),
        })
    firsts = [y for y in m["yields"] if y["kind"] == "first"]
    if len(firsts) == 1:
        y = firsts[0]
        if y["fields"][: len(SPEC.BLE_REQUEST_HEADER[1])] == SPEC.BLE_REQUEST_HEADER[1] and len(y["args"]) == len(y["fields"]):
            t = y["args"][SPEC.BLE_REQUEST_FIELDS.index("tid")]
            if t[0] == "param":
                m["tid_param"] = t[1]
    return m


def _b1(ctx: Context) -> None:
    ck = ctx.ck
    T = ctx.terms
    R = "C17.B1"
    m = _encoder_model(ctx)
    f, cfg = m["f"], m["cfg"]
    for n, why in m["problems"]:
        ck.unknown(R, f"encode_pdu: {why}", ctx.loc(f, n))
    ys = m["yields"]
    ck.require_min(R, "encode_pdu: classified yields (header only, first fragment, continuation)", len(ys), 3)
    firsts = [y for y in ys if y["kind"] == "first"]
    conts = [y for y in ys if y["kind"] == "cont"]
    bares = [y for y in ys if y["kind"] == "bare"]
    if len(firsts) != 1 or len(conts) != 1 or m["problems"]:
        ck.unknown(R, f"encode_pdu: expected one first-fragment yield and one continuation yield, found {len(firsts)} / {len(conts)}", f.loc())
        return
    y1, y2 = firsts[0], conts[0]
    n1, n2 = y1["node"], y2["node"]

    # ---- the call site in _write_pdu tells which parameter is the negotiated size
    wf = ctx.func(f"{BLE_CLIENT}._write_pdu")
    wcfg = ctx.cfg(wf.qualname)
    sites = _calls_to(ctx, wcfg, f.qualname)
    if len(sites) != 1:
        ck.unknown(R, f"_write_pdu: expected one call of encode_pdu, found {len(sites)}", wf.loc())
        return
    wn, wcall = sites[0]
    am = _argmap(wcall, f)
    if am is None:
        ck.unknown(R, "_write_pdu: arguments of encode_pdu cannot be mapped to parameters", ctx.loc(wf, wn))
        return
    fs_param, fs_term = None, None
    for p, a in am.items():
        t = T.of(wcfg, wn, a)
        if contains(t, lambda s: _is_call_to(s, DFS)):
            fs_param, fs_term = p, t
    if fs_param is None:
        ck.unknown(R, "_write_pdu: no argument of encode_pdu comes from _determine_fragment_size (call not resolved / inlined)", ctx.loc(wf, wn))
        return
    FS = ("param", fs_param)

    # ---- a fragment that carries the whole body: header bytes + len(body) <= negotiated size must follow from its guard
    for yw in [y for y in ys if y["kind"] == "whole"]:
        _bound_whole(ctx, f, cfg, yw, FS, fs_param)

    # ---- first fragment
    want_fields = SPEC.BLE_REQUEST_HEADER[1] + SPEC.BLE_BODY_LENGTH[1]
    base1, _lo1, hi1 = y1["slice"]
    ok_layout = y1["order"] == {SPEC.LITTLE} and y1["fields"] == want_fields and len(y1["args"]) == len(want_fields)
    ck.check(R, ok_layout, f"first fragment header is packed as {SPEC.LITTLE}{''.join(want_fields)} (request header + body length)",
             f"{ctx.fkey(f)}:first:layout", f"encode_pdu: first fragment header fields are {y1['order']}{y1['fields']}, HAP-BLE says {want_fields}", ctx.loc(f, n1))
    if not ok_layout:
        return
    c1 = _ci(y1["args"][0])
    ck.check(R, c1 is not None and c1 & SPEC.CONTROL_FRAGMENT_BIT == 0 and c1 & SPEC.CONTROL_TYPE_MASK == SPEC.CONTROL_TYPE_REQUEST,
             "first fragment: control byte is a request with the continuation bit clear",
             f"{ctx.fkey(f)}:first:control", f"encode_pdu: control byte of the first fragment is {show(y1['args'][0])}", ctx.loc(f, n1))
    ok_len = base1[0] == "param" and _is_len_of(y1["args"][-1], base1)
    ck.check(R, ok_len, "first fragment: the length field is len() of the whole body, the slice is taken from that body",
             f"{ctx.fkey(f)}:first:length-field", f"encode_pdu: length field is {show(y1['args'][-1], 60)}, body sliced from {show(base1, 60)}", ctx.loc(f, n1))
    if hi1 is None:
        ck.unknown(R, "encode_pdu: first fragment slice has no upper bound", ctx.loc(f, n1))
        return
    x1, k1 = _less_const(hi1)
    if x1 != FS:
        ck.unknown(R, f"encode_pdu: first slice bound `{show(hi1, 60)}` is not <{fs_param}> - K", ctx.loc(f, n1))
        return
    _bound(ctx, f, n1, "first", k1, y1["size"], fs_param)

    # ---- continuation
    want2 = SPEC.BLE_CONTINUATION_HEADER[1]
    ok2 = y2["order"] == {SPEC.LITTLE} and y2["fields"] == want2 and len(y2["args"]) == len(want2)
    ck.check(R, ok2, f"continuation header is packed as {SPEC.LITTLE}{''.join(want2)} (control, tid)",
             f"{ctx.fkey(f)}:cont:layout", f"encode_pdu: continuation header fields are {y2['order']}{y2['fields']}, HAP-BLE says {want2}", ctx.loc(f, n2))
    if not ok2:
        return
    c2 = _ci(y2["args"][0])
    ck.check(R, c2 is not None and c1 is not None and c2 == c1 | SPEC.CONTROL_FRAGMENT_BIT,
             "continuation: control byte has bit 7 (0x80) set, other bits as in the first fragment",
             f"{ctx.fkey(f)}:cont:control",
             f"encode_pdu: continuation control byte is {show(y2['args'][0])}; HAP-BLE needs bit 7 (0x80) - the accessory / decode_pdu_continuation rejects the fragment",
             ctx.loc(f, n2))
    tid1 = y1["args"][SPEC.BLE_REQUEST_FIELDS.index("tid")]
    tid2 = y2["args"][SPEC.BLE_CONTINUATION_FIELDS.index("tid")]
    ck.check(R, tid1[0] == "param" and tid1 == tid2, "continuation carries the transaction id of the request header",
             f"{ctx.fkey(f)}:cont:tid", f"encode_pdu: header tid is {show(tid1)}, continuation tid is {show(tid2)}", ctx.loc(f, n2))
    base2, lo2, hi2 = y2["slice"]
    w2 = _minus(hi2, lo2) if hi2 is not None else None
    if w2 is None:
        ck.unknown(R, f"encode_pdu: continuation slice `{show(lo2, 40)}:{show(hi2, 60)}` is not i : i + W", ctx.loc(f, n2))
        return
    x2, k2 = _less_const(w2)
    if x2 != FS:
        ck.unknown(R, f"encode_pdu: continuation slice width `{show(w2, 60)}` is not <{fs_param}> - K", ctx.loc(f, n2))
        return
    _bound(ctx, f, n2, "cont", k2, y2["size"], fs_param)

    # ---- every byte once: rest = body[W1:], offsets range(0, len(rest), W2), slice rest[i:i+W2]
    sb = _slice(base2)
    ok_rest = sb is not None and strip_sites(sb[0]) == strip_sites(base1) and sb[2] is None and sb[1] is not None and strip_sites(sb[1]) == strip_sites(hi1)
    ck.check(R, ok_rest, "the continuation data is body[W1:] where body[:W1] was the first fragment (same term W1)",
             f"{ctx.fkey(f)}:accounting:remainder",
             f"encode_pdu: first fragment takes {show(base1, 30)}[:{show(hi1, 40)}] but the continuation fragments are cut from {show(base2, 80)} - bytes are lost or repeated",
             ctx.loc(f, n2))
    loop = _loop_of(n2)
    heads = [x for x in (cfg.nodes_for(loop) if loop is not None else []) if x.kind == "for"]
    if len(heads) != 1 or len(_loops_of(n2)) != 1 or _loops_of(n1):
        ck.unknown(R, "encode_pdu: the continuation yield is not inside exactly one for-loop / the first yield is inside a loop", ctx.loc(f, n2))
        return
    h = heads[0]
    it = _loop_elem(T, cfg, h)
    rng = it[1] if it[0] == "iter" else None
    if not (strip_sites(it) == strip_sites(lo2) and rng is not None and _is_call_to(rng, "range") and len(rng[2]) == 3 and not rng[3]):
        ck.unknown(R, f"encode_pdu: continuation offset `{show(lo2, 80)}` is not the variable of `for i in range(start, stop, step)`", ctx.loc(f, n2))
        return
    start, stop, step = rng[2]
    ck.check(R, _ci(start) == 0 and _is_len_of(stop, base2), "continuation offsets run over range(0, len(rest), ...)",
             f"{ctx.fkey(f)}:accounting:range", f"encode_pdu: offsets are range({show(start)}, {show(stop, 60)}, ...) over {show(base2, 60)}", ctx.loc(f, h))
    ck.check(R, strip_sites(step) == strip_sites(w2), "the offset advances by exactly the slice width (same term): no byte skipped or repeated",
             f"{ctx.fkey(f)}:accounting:advance",
             f"encode_pdu: continuation fragments take {show(w2, 50)} bytes but the offset advances by {show(step, 50)} - bytes are repeated or skipped between fragments",
             ctx.loc(f, h))
    # control-flow shape: first fragment exactly once before the loop, one continuation per offset, header-only PDU exclusive
    p = cfg.find_path(cfg.entry.id, h.id, avoid_nodes=[n1.id])
    ck.check(R, p is None, "the first fragment is emitted on every path into the continuation loop",
             f"{ctx.fkey(f)}:shape:first-before-loop", "encode_pdu: the continuation loop is reachable without emitting the first fragment", ctx.loc(f, n1),
             cfg.render_path(p) if p else None)
    p = None
    for e in cfg.out_edges(h, ("T",)):
        if e[1] != n2.id:
            p = p or cfg.find_path(e[1], h.id, avoid_nodes=[n2.id])
    ck.check(R, p is None, "every offset of the loop emits its continuation fragment",
             f"{ctx.fkey(f)}:shape:cont-every-iteration", "encode_pdu: an iteration of the continuation loop can skip the yield", ctx.loc(f, n2),
             cfg.render_path(p) if p else None)
    for b in bares:
        nb = b["node"]
        p = cfg.find_path(nb.id, [n1.id, n2.id]) if nb.id not in (n1.id, n2.id) else None
        q = cfg.find_path(n1.id, nb.id)
        ok = p is None and q is None and b["fields"] == SPEC.BLE_REQUEST_HEADER[1] and strip_sites(b["args"]) == strip_sites(y1["args"][: len(b["args"])])
        ck.check(R, ok, f"a body-less request is the {b['size']}-byte request header alone and excludes the fragment path",
                 f"{ctx.fkey(f)}:shape:header-only", "encode_pdu: the header-only PDU is emitted in addition to / with other fields than the fragmented one", ctx.loc(f, nb))

    # ---- overhead of encryption
    _b1_overhead(ctx, wf, wcfg, wn, fs_term)


def _len_value(t):
    """Constant byte length of a term: len(<packed struct>) or an int constant."""
    if _ci(t) is not None:
        return _ci(t)
    if _is_call_to(t, "len") and len(t[2]) == 1:
        pk = _pack(strip_sites(t[2][0]))
        if pk is not None:
            return _size(pk[0])
    return None


def _bound_whole(ctx: Context, f, cfg, yw, FS, fs_param: str) -> None:
    """`yield header + body` (no slice): needs len(body) <= FS - K on every path to it with K >= packed header bytes."""
    ck = ctx.ck
    T = ctx.terms
    n, body, hdr = yw["node"], yw["whole"], yw["size"]
    best = None  # the largest body length any guard on the way still lets through, as FS - K  ->  smallest K
    guards = []
    for tn in cfg.nodes:
        if tn.kind != "test":
            continue
        t = strip_sites(T.of(cfg, tn, tn.exprs[0]))
        if t[0] != "cmp" or len(t[1]) != 1:
            continue
        op, (a, b) = t[1][0], t[2]
        if _is_len_of(b, body):  # E <op> len(body)  ->  len(body) <mirror> E
            a, b, op = b, a, {"Lt": "Gt", "Gt": "Lt", "LtE": "GtE", "GtE": "LtE"}.get(op, op)
        if not _is_len_of(a, body):
            continue
        if not (b[0] == "binop" and b[1] == "Sub" and strip_sites(b[2]) == FS):
            continue
        k = _len_value(strip_sites(b[3]))
        if k is None:
            continue
        # outcome under which len(body) <= FS - K'  holds
        if op == "LtE":
            guards.append((ctx.edges(cfg, tn, "T"), k))
        elif op == "Lt":
            guards.append((ctx.edges(cfg, tn, "T"), k + 1))
        elif op == "Gt":
            guards.append((ctx.edges(cfg, tn, "F"), k))
        elif op == "GtE":
            guards.append((ctx.edges(cfg, tn, "F"), k + 1))
    for edges, k in guards:
        if cfg.find_path(cfg.entry.id, n.id, avoid_edges=edges) is None:
            best = k if best is None else max(best, k)
    if best is None:
        ck.violated("C17.B1", f"{ctx.fkey(f)}:whole:unbounded",
                    f"encode_pdu: `{n.text()[:70]}` emits the whole body in one fragment without a test that bounds len(body) by {fs_param} - K: "
                    "a body larger than the negotiated size goes out in a single oversized write", ctx.loc(f, n), None,
                    "a fragment carrying the whole body is guarded by len(body) <= size - header bytes")
        return
    ck.check("C17.B1", best >= hdr,
             f"single-fragment path: len(body) <= {fs_param} - {best} and {hdr} header bytes are packed: the fragment fits",
             f"{ctx.fkey(f)}:whole:bound",
             f"encode_pdu: the single-fragment path is taken for len(body) <= {fs_param} - {best} but the fragment is {hdr} header bytes + the body: "
             f"bodies of {fs_param} - {hdr - 1} .. {fs_param} - {best} bytes produce a fragment of up to {fs_param} + {hdr - best} bytes (exceeds the negotiated size)",
             ctx.loc(f, n))


def _bound(ctx: Context, f, n, which: str, k: int, hdr: int, fs_param: str) -> None:
    ck = ctx.ck
    name = "first fragment" if which == "first" else "continuation fragment"
    if k < hdr:
        msg = (f"encode_pdu: {name} = {hdr} header bytes + body[..{fs_param} - {k}] = {fs_param} + {hdr - k} bytes for any body that fills it "
               f"(e.g. {fs_param}=20, body of 200 bytes -> {20 + hdr - k}-byte fragment): exceeds the negotiated size")
    else:
        msg = (f"encode_pdu: {name} subtracts {k} but only {hdr} header bytes are packed: for {fs_param} = {hdr + 1} the slice bound "
               f"{hdr + 1 - k} is {'negative and takes all but the tail of the body' if hdr + 1 - k < 0 else 'zero and no progress is made'}")
    ck.check("C17.B1", k == hdr, f"{name}: {hdr} packed header bytes + slice of width {fs_param} - {k} <= {fs_param} (K equals calcsize of the packed formats)",
             f"{ctx.fkey(f)}:{which}:bound", msg, ctx.loc(f, n))


def _b1_overhead(ctx: Context, wf, wcfg, wn, fs_term) -> None:
    ck = ctx.ck
    T = ctx.terms
    R = "C17.B1"
    df = ctx.func(DFS)
    dcfg = ctx.cfg(DFS)
    dcall = [s for s in subterms(fs_term) if _is_call_to(s, DFS)][0]
    names = df.pos_params
    amap = {names[i]: a for i, a in enumerate(dcall[2]) if i < len(names)}
    amap.update({k: v for k, v in dcall[3] if k})
    cands = [(p, a) for p, a in amap.items() if a[0] == "ifexp"]
    if len(cands) != 1:
        ck.unknown(R, f"_write_pdu: expected one conditional overhead argument of _determine_fragment_size, found {len(cands)}: {show(dcall, 140)}", ctx.loc(wf, wn))
        return
    ov, arg = cands[0]
    subject, pol = _presence(arg[1])
    present, absent = (arg[2], arg[3]) if pol else (arg[3], arg[2])
    ck.check(R, _ci(present) == SPEC.AEAD_TAG_LENGTH,
             f"with an encryption key the fragment size is reduced by {SPEC.AEAD_TAG_LENGTH} = length of the AEAD tag added to each fragment",
             f"{ctx.fkey(wf)}:overhead:tag-length",
             f"_write_pdu: overhead with a key is {show(present)}, the ChaCha20-Poly1305 tag is {SPEC.AEAD_TAG_LENGTH} bytes - an encrypted fragment "
             f"is {SPEC.AEAD_TAG_LENGTH - (_ci(present) or 0)} bytes larger than the negotiated size", ctx.loc(wf, wn))
    ck.check(R, _ci(absent) == 0, "without an encryption key no overhead is subtracted",
             f"{ctx.fkey(wf)}:overhead:absent", f"_write_pdu: overhead without a key is {show(absent)}", ctx.loc(wf, wn))
    # the argument flows into the subtraction
    OV = ("param", ov)
    subs = []
    for n in dcfg.nodes:
        a = n.ast
        if n.kind != "stmt":
            continue
        if isinstance(a, ast.AugAssign) and isinstance(a.op, ast.Sub) and T.of(dcfg, n, a.value) == OV:
            subs.append(n)
        elif isinstance(a, ast.Assign):
            t = T.of(dcfg, n, a.value)
            if t[0] == "binop" and t[1] == "Sub" and t[3] == OV:
                subs.append(n)
    _pres, absent_edges = _key_edges(ctx, dcfg, OV)
    gate = list(absent_edges)
    for s in subs:
        gate += ctx.normal_out(dcfg, s)
    rets = [n for n in dcfg.nodes if n.kind == "return"]
    if not rets:
        ck.unknown(R, "_determine_fragment_size: no return", df.loc())
    for r in rets:
        rt = T.of(dcfg, r, r.exprs[0]) if r.exprs else ("const", None)
        has_sub = any(a[0] == "binop" and a[1] == "Sub" and a[3] == OV for a in _alts(rt))
        if not has_sub:
            ck.violated(R, f"{ctx.fkey(df)}:overhead-not-in-result",
                        f"_determine_fragment_size: the returned size {show(rt, 120)} never has `{ov}` subtracted - encrypted fragments exceed the size by the tag",
                        ctx.loc(df, r), None, "the returned fragment size has the overhead subtracted")
            continue
        ctx.must_pass(R, dcfg, r, f"`size -= {ov}` [or {ov} == 0]", gate,
                      desc=f"_determine_fragment_size: every path to the return subtracts `{ov}` unless it is zero")
    # each fragment is sealed on its own, and only sealed fragments are written when a key is present
    ENC = f"{BLE_PDU}.encode_pdu"

    def is_frag(t):
        return t[0] == "iter" and _is_call_to(t[1], ENC)

    def is_enc(t):
        return t[0] == "call" and t[1][0] == "attr" and t[1][2] == "encrypt" and len(t[2]) == 1 and is_frag(t[2][0]) and strip_sites(t[1][1]) == strip_sites(subject)

    enc_nodes = []
    for n in wcfg.nodes:
        for c in ctx.calls(n):
            if isinstance(c.func, ast.Attribute) and c.func.attr == "encrypt":
                t = T.of(wcfg, n, c)
                if is_enc(t):
                    enc_nodes.append(n)
                    _seal_shape(ctx, R, wf, n, c, "encrypt")
                elif contains(t, lambda s_: isinstance(s_, tuple) and s_[:1] in (("cvar",), ("unknown",), ("lparam",))) or any(
                        isinstance(h_, (ast.GeneratorExp, ast.ListComp, ast.SetComp, ast.DictComp, ast.Lambda)) and any(y_ is c for y_ in ast.walk(h_))
                        for r_ in ([n.ast] if n.ast is not None else []) + [e_ for e_ in n.exprs if e_ is not None] for h_ in ast.walk(r_)):
                    # the argument is the variable of a comprehension / generator expression / lambda (a lazy pipeline over the
                    # fragments): what it ranges over is not followed here - not decided rather than reported
                    ck.unknown(R, f"_write_pdu: `{_u(c)[:70]}` encrypts the variable of a comprehension / generator expression: whether that is one fragment of encode_pdu is not decided", ctx.loc(wf, n))
                else:
                    ck.violated(R, f"{ctx.fkey(wf)}:encrypt-shape",
                                f"_write_pdu: `{_u(c)[:70]}` = {show(t, 120)} is not <the key tested for the overhead>.encrypt(<one fragment of encode_pdu>) - "
                                "the 16-byte allowance is per fragment", ctx.loc(wf, n), None, "each fragment is encrypted separately with the key that reduced the size")
    ck.require_min(R, "_write_pdu: per-fragment encrypt sites", len(enc_nodes), 1)
    heads = [n for n in wcfg.nodes if n.kind == "for" and is_frag(_loop_elem(T, wcfg, n))]
    sinks = []  # (node, value term)
    for n, c in ctx.nodes_calling_name(wcfg, "write_gatt_char"):
        am = list(c.args) + [k.value for k in c.keywords if k.arg == "data"]
        if len(am) < 2:
            ck.unknown(R, "_write_pdu: write_gatt_char call without a data argument", ctx.loc(wf, n))
            continue
        darg = [k.value for k in c.keywords if k.arg == "data"][0] if any(k.arg == "data" for k in c.keywords) else c.args[1]
        lst = _list_feeding(ctx, wcfg, n, darg)
        if lst is None:
            sinks.append((n, T.of(wcfg, n, darg)))
        else:
            sinks += lst
    ck.require_min(R, "_write_pdu: values handed to write_gatt_char", len(sinks), 1)
    if len(heads) != 1:
        ck.unknown(R, f"_write_pdu: expected one loop over the fragments of encode_pdu, found {len(heads)}", wf.loc())
        return
    _p, absent_edges = _key_edges(ctx, wcfg, subject)
    gate = list(absent_edges)
    for n in enc_nodes:
        gate += ctx.normal_out(wcfg, n)
    for n, v in sinks:
        odd = [a for a in _alts(v) if not (is_frag(a) or is_enc(a))]
        if odd:
            ck.unknown(R, f"_write_pdu: written value {show(odd[0], 120)} is neither a fragment nor an encrypted fragment", ctx.loc(wf, n))
            continue
        if not ck.check(R, any(is_enc(a) for a in _alts(v)), "_write_pdu: what is written is the result of key.encrypt(fragment) whenever that call was passed",
                        f"{ctx.fkey(wf)}:encrypt-result-unused",
                        f"_write_pdu: the value handed to write_gatt_char is {show(v, 100)} - never the ciphertext, although the size was reduced for the tag and the "
                        "accessory expects sealed fragments", ctx.loc(wf, n)):
            continue
        ctx.must_pass(R, wcfg, n, "key.encrypt(fragment) [or no key]", gate, start=heads[0].id,
                      desc="_write_pdu: with a key every fragment reaches the write only through its own encrypt call")


def _seal_shape(ctx: Context, rule: str, caller, node, call: ast.Call, method: str) -> None:
    """The key wrapper called at ``call`` returns exactly one AEAD ``method`` of its argument: nothing appended, nothing cut."""
    ck = ctx.ck
    T = ctx.terms
    cal = [q for q in ctx.callee_names(caller, call) if q in ctx.prog.functions]
    if len(cal) != 1:
        ck.unknown(rule, f"{caller.name}: `{_u(call)[:60]}` does not resolve to one package function ({cal})", ctx.loc(caller, node))
        return
    g = ctx.prog.functions[cal[0]]
    gcfg = ctx.cfg(g.qualname)
    params = g.pos_params[1:] if g.cls is not None else g.pos_params
    rets = [n for n in gcfg.nodes if n.kind == "return"]
    if len(rets) != 1 or len(params) != 1 or not rets[0].exprs:
        ck.unknown(rule, f"{g.qualname}: expected one data parameter and one return", g.loc())
        return
    t = T.of(gcfg, rets[0], rets[0].exprs[0])
    P = ("param", params[0])
    ok = t[0] == "call" and t[1][0] == "attr" and t[1][2] == method and sum(1 for a in t[2] if a == P) == 1 and not any(contains(a, lambda s: s == P) for a in t[2] if a != P)
    shape = t[0] == "call" or t[0] == "add" or contains(t, lambda s: s == P)
    if not ok and not shape:
        ck.unknown(rule, f"{g.qualname}: returns {show(t, 100)} - not recognised", ctx.loc(g, rets[0]))
        return
    what = "sealed fragment = AEAD(fragment): plaintext + one tag" if method == "encrypt" else "opened fragment = AEAD-open(fragment)"
    ck.check(rule, ok, f"{g.qualname.split('.', 1)[1]}: returns exactly one `.{method}` of its argument ({what})", f"{ctx.fkey(g)}:seal-shape",
             f"{g.qualname}: returns {show(t, 120)}, not a single .{method}(...) of the fragment - the per-fragment overhead is no longer exactly the tag", ctx.loc(g, rets[0]))


def _list_feeding(ctx: Context, cfg, node, expr):
    """``expr`` is the loop variable of ``for x in <local list>``: the (node, term) of every value appended to that list; else None."""
    T = ctx.terms
    if not isinstance(expr, ast.Name):
        return None
    rd = T.du(cfg).reaching(node.id, expr.id)
    if len(rd) != 1 or rd[0][1].kind != "for" or rd[0][1].path:
        return None
    it = rd[0][1].value
    if not isinstance(it, ast.Name):
        return None
    hn = cfg.nodes[rd[0][0]]
    defs = T.du(cfg).reaching(hn.id, it.id)
    if len(defs) != 1 or defs[0][1].kind != "assign":
        return None
    v = defs[0][1].value
    if not (isinstance(v, ast.List) and not v.elts or isinstance(v, ast.Call) and isinstance(v.func, ast.Name) and v.func.id == "list" and not v.args):
        return None
    out = []
    for n in cfg.nodes:
        for c in ctx.calls(n):
            if (isinstance(c.func, ast.Attribute) and c.func.attr == "append" and isinstance(c.func.value, ast.Name) and c.func.value.id == it.id
                    and len(c.args) == 1 and _def_ids(T, cfg, n, it.id) == [defs[0][0]]):
                out.append((n, T.of(cfg, n, c.args[0])))
    return out


# ====================================================================== C17.G1
def _chain(ctx: Context, cfg, want_fields):
    """Unpack sites of a decoder as a contiguous chain of constant slices of one parameter.

    Returns (model | None, problems).  model: data parameter, sites sorted by offset with lo/hi/size, the concatenated
    field codes, the end offset, and ``field(i)`` = term of the i-th header field.
    """
    sites = _unpack_sites(ctx, cfg)
    probs = []
    rows = []
    for s in sites:
        sl = _slice(s["buf"])
        fl = _fields(s["fmt"])
        if sl is None or fl is None or s["off"] is not None:
            probs.append((s["node"], f"`{_u(s['call'])[:60]}`: buffer is not a plain slice / format has native alignment"))
            continue
        base, lo, hi = sl
        lo_i = 0 if lo is None else _ci(lo)
        hi_i = _ci(hi)
        if base[0] != "param" or lo_i is None or hi_i is None:
            probs.append((s["node"], f"`{_u(s['call'])[:60]}`: slice {show(s['buf'], 60)} is not <parameter>[const:const]"))
            continue
        rows.append(dict(s, base=base, lo=lo_i, hi=hi_i, size=_size(s["fmt"]), fl=fl))
    rows.sort(key=lambda r: r["lo"])
    if probs or not rows or len({r["base"] for r in rows}) != 1:
        return None, probs or [(cfg.entry, "no unpack site on a slice of one parameter")]
    fields = []
    for r in rows:
        for i, c in enumerate(x for x in r["fl"][1] if x != "x"):
            fields.append(("sub", r["term"], ("const", i)))
    model = {
        "rows": rows, "data": rows[0]["base"], "codes": tuple(c for r in rows for c in r["fl"][1]),
        "orders": {r["fl"][0] for r in rows}, "end": rows[-1]["hi"], "fields": fields,
    }
    return model, probs


def _check_chain(ctx: Context, f, model, want, what: str) -> bool:
    """Widths equal calcsize, slices contiguous from 0, field codes as the frozen layout."""
    ck = ctx.ck
    R = "C17.G1"
    ok_all = True
    pos = 0
    for r in model["rows"]:
        ok = r["hi"] - r["lo"] == r["size"]
        ok_all &= ck.check(R, ok, f"{f.name}: unpack {r['fmt']} ({r['size']} bytes) reads the slice [{r['lo']}:{r['hi']}]",
                           f"{ctx.fkey(f)}:unpack-width:{r['fmt']}",
                           f"{f.name}: `{_u(r['call'])[:70]}` unpacks {r['size']} bytes ({r['fmt']}) from a slice of {r['hi'] - r['lo']} bytes - struct.error on every PDU",
                           ctx.loc(f, r["node"]))
        ok = r["lo"] == pos
        ok_all &= ck.check(R, ok, f"{f.name}: the {r['fmt']} field group starts at offset {pos}, right after the previous one",
                           f"{ctx.fkey(f)}:unpack-offset:{r['fmt']}", f"{f.name}: {r['fmt']} is read at offset {r['lo']}, the previous field ends at {pos}", ctx.loc(f, r["node"]))
        pos = r["hi"]
    ok = model["orders"] == {want[0]} and model["codes"] == want[1]
    ok_all &= ck.check(R, ok, f"{f.name}: header fields are {want[0]}{''.join(want[1])} ({what})", f"{ctx.fkey(f)}:layout",
                       f"{f.name}: header is unpacked as {sorted(model['orders'])}{model['codes']}, HAP-BLE says {want[0]}{''.join(want[1])}", f.loc())
    return ok_all


def _ble_layout(ctx: Context, report: bool):
    """Model of pdu.decode_pdu / decode_pdu_continuation shared by G1 (reports) and G2 (uses positions)."""
    ck = ctx.ck
    R = "C17.G1"
    T = ctx.terms
    out = {}
    # ---------------- first fragment decoder
    f = ctx.func(f"{BLE_PDU}.decode_pdu")
    cfg = ctx.cfg(f.qualname)
    want = (SPEC.LITTLE, SPEC.BLE_RESPONSE_HEADER[1] + SPEC.BLE_BODY_LENGTH[1])
    model, probs = _chain(ctx, cfg, want)
    if model is None:
        if report:
            for n, why in probs:
                ck.unknown(R, f"decode_pdu: {why}", ctx.loc(f, n))
        return None
    if report:
        ck.require_min(R, "decode_pdu: unpack sites", len(model["rows"]), 2)
        if not _check_chain(ctx, f, model, want, "control, tid, status + body length"):
            return None
    elif not (model["codes"] == want[1] and all(r["hi"] - r["lo"] == r["size"] for r in model["rows"])):
        return None
    D = model["data"]
    i_tid = SPEC.BLE_RESPONSE_FIELDS.index("tid")
    i_st = SPEC.BLE_RESPONSE_FIELDS.index("status")
    tid_t, st_t, len_t = model["fields"][i_tid], model["fields"][i_st], model["fields"][len(SPEC.BLE_RESPONSE_FIELDS)]
    STATUS_CLS = f"{BLE_PDU}.PDUStatus"

    def is_status(t):
        return _is_call_to(t, STATUS_CLS) and len(t[2]) == 1 and strip_sites(t[2][0]) == strip_sites(st_t)

    def is_len(t):
        return strip_sites(t) == strip_sites(len_t)

    def is_body(t):
        s = _slice(t)
        return s is not None and s[0] == D and s[2] is None and _ci(s[1]) is not None

    rets = [n for n in cfg.nodes if n.kind == "return"]
    pos = None
    full = []
    for r in rets:
        t = T.of(cfg, r, r.exprs[0]) if r.exprs else ("const", None)
        if t[0] != "tuple" or len(t[1]) != 3:
            if report:
                ck.unknown(R, f"decode_pdu: return value {show(t, 80)} is not a (status, expected_length, body) triple", ctx.loc(f, r))
            return None
        el = t[1]
        ist = [i for i, x in enumerate(el) if is_status(x)]
        ibody = [i for i, x in enumerate(el) if is_body(x)]
        ilen = [i for i, x in enumerate(el) if is_len(x)]
        if len(ist) == 1 and len(ibody) == 1 and len(ilen) == 1:
            p = (ist[0], ilen[0], ibody[0])
            if pos is not None and pos != p:
                if report:
                    ck.unknown(R, "decode_pdu: returns disagree on the position of status / length / body", ctx.loc(f, r))
                return None
            pos = p
            full.append((r, _ci(_slice(el[ibody[0]])[1])))
    if pos is None:
        if report:
            ck.unknown(R, "decode_pdu: no return of (PDUStatus(status byte), unpacked length, data[k:])", f.loc())
        return None
    for r in rets:
        el = T.of(cfg, r, r.exprs[0])[1]
        short = is_status(el[pos[0]]) and el[pos[1]] == ("const", 0) and el[pos[2]] == ("const", b"")
        if r not in [x[0] for x in full] and not short:
            if report:
                ck.unknown(R, f"decode_pdu: return {show(('tuple', el), 100)} is neither the full triple nor (status, 0, b'')", ctx.loc(f, r))
            return None
    if report:
        # the header-only return (status, 0, b"") is taken exactly when the length field is incomplete: len(data) < end of the
        # length field.  A wider test (<=) drops the declared length of a first fragment that carries the full header and no
        # body byte; a narrower one lets the unpack of the length field fail.
        dname = f.pos_params[1] if len(f.pos_params) > 1 else None
        for r in rets:
            el = T.of(cfg, r, r.exprs[0])[1]
            if not (is_status(el[pos[0]]) and el[pos[1]] == ("const", 0) and el[pos[2]] == ("const", b"")):
                continue
            thr = []
            for n in cfg.nodes:
                if n.kind != "test" or not isinstance(n.exprs[0], ast.Compare) or len(n.exprs[0].ops) != 1:
                    continue
                e = n.exprs[0]
                l, rr = e.left, e.comparators[0]
                op = type(e.ops[0]).__name__
                if not (isinstance(l, ast.Call) and isinstance(l.func, ast.Name) and l.func.id == "len"):
                    l, rr = rr, l
                    op = {"Lt": "Gt", "Gt": "Lt", "LtE": "GtE", "GtE": "LtE"}.get(op, op)
                if not (isinstance(l, ast.Call) and isinstance(l.func, ast.Name) and l.func.id == "len" and l.args and isinstance(l.args[0], ast.Name) and l.args[0].id == dname):
                    continue
                k = ctx.const(f, rr, None)
                if not isinstance(k, int):
                    continue
                # which outcome leads to this return, and which strict bound  len < K'  does it mean?
                for lab in ("T", "F"):
                    for ed in cfg.out_edges(n, (lab,)):
                        if r.id in cfg.reachable_from(ed[1]) | {ed[1]} and not any(r.id in (cfg.reachable_from(e2[1]) | {e2[1]}) for e2 in cfg.out_edges(n, ("F" if lab == "T" else "T",))):
                            bound = {("Lt", "T"): k, ("LtE", "T"): k + 1, ("GtE", "F"): k, ("Gt", "F"): k + 1}.get((op, lab))
                            if bound is not None:
                                thr.append((n, bound))
            if not thr:
                ck.unknown(R, "decode_pdu: the header-only return is not controlled by a test on len(data)", ctx.loc(f, r))
                continue
            for n, bound in thr:
                ck.check(R, bound == model["end"], f"decode_pdu: the header-only return is taken exactly when len(data) < {model['end']} (length field incomplete)",
                         f"{ctx.fkey(f)}:header-only-threshold",
                         f"decode_pdu returns (status, 0, b'') when len(data) < {bound}, but the length field ends at byte {model['end']}: "
                         + ("a first fragment that carries the complete header and length field but no body byte loses its declared length - the continuation fragments are never read"
                            if bound > model["end"] else "a fragment shorter than the length field reaches the unpack of the length field"),
                         ctx.loc(f, n))
        for r, k in full:
            ck.check(R, k == model["end"], f"decode_pdu: the body starts at offset {model['end']}, right after the length field",
                     f"{ctx.fkey(f)}:body-offset", f"decode_pdu: the body is data[{k}:] but the header and length field end at {model['end']}", ctx.loc(f, r))
    # tid gate
    exp = _expected_param(ctx, cfg, tid_t, D)
    if exp is None:
        if report:
            ctx.must_pass(R, cfg, cfg.exit, "tid test [received tid == expected tid]", [],
                          desc="decode_pdu: every normal exit passes the transaction-id test on its equal outcome")
        return None
    if report:
        _tid_gate(ctx, f, cfg, tid_t, exp)
    out["first"] = {"f": f, "data": D[1], "tid": exp, "pos": pos}

    # ---------------- continuation decoder
    g = ctx.func(f"{BLE_PDU}.decode_pdu_continuation")
    gcfg = ctx.cfg(g.qualname)
    want2 = SPEC.BLE_CONTINUATION_HEADER
    m2, probs = _chain(ctx, gcfg, want2)
    if m2 is None:
        if report:
            for n, why in probs:
                ck.unknown(R, f"decode_pdu_continuation: {why}", ctx.loc(g, n))
        return None
    if report:
        ck.require_min(R, "decode_pdu_continuation: unpack sites", len(m2["rows"]), 1)
        if not _check_chain(ctx, g, m2, want2, "control, tid"):
            return None
    elif not (m2["codes"] == want2[1] and all(r["hi"] - r["lo"] == r["size"] for r in m2["rows"])):
        return None
    D2 = m2["data"]
    ctl2 = m2["fields"][SPEC.BLE_CONTINUATION_FIELDS.index("control")]
    tid2 = m2["fields"][SPEC.BLE_CONTINUATION_FIELDS.index("tid")]
    for r in [n for n in gcfg.nodes if n.kind == "return"]:
        t = T.of(gcfg, r, r.exprs[0]) if r.exprs else ("const", None)
        s = _slice(t)
        if s is None or s[0] != D2 or s[2] is not None or _ci(s[1]) is None:
            if report:
                ck.unknown(R, f"decode_pdu_continuation: return value {show(t, 80)} is not data[k:]", ctx.loc(g, r))
            return None
        if report:
            ck.check(R, _ci(s[1]) == m2["end"], f"decode_pdu_continuation: the body starts at offset {m2['end']}, right after the header",
                     f"{ctx.fkey(g)}:body-offset", f"decode_pdu_continuation: returns data[{_ci(s[1])}:] but the header ends at {m2['end']}", ctx.loc(g, r))
    exp2 = _expected_param(ctx, gcfg, tid2, D2)
    if report:
        # continuation flag
        sc = strip_sites(ctl2)
        gate, seen_masks = [], []
        for n in gcfg.nodes:
            if n.kind != "test":
                continue
            t = strip_sites(T.of(gcfg, n, n.exprs[0]))

            def band(x):
                if x[0] == "binop" and x[1] == "BitAnd":
                    if x[2] == sc and _ci(x[3]) is not None:
                        return _ci(x[3])
                    if x[3] == sc and _ci(x[2]) is not None:
                        return _ci(x[2])
                return None

            mk, lab = band(t), "T"
            c = _cmp(t)
            if mk is None and c is not None and c[0] in ("Eq", "NotEq"):
                for a, b in ((c[1], c[2]), (c[2], c[1])):
                    if band(a) is not None and _ci(b) is not None:
                        mk = band(a)
                        if _ci(b) == mk:
                            lab = "T" if c[0] == "Eq" else "F"
                        elif _ci(b) == 0:
                            lab = "F" if c[0] == "Eq" else "T"
                        else:
                            mk = None
            if mk is None:
                continue
            seen_masks.append(mk)
            if mk == SPEC.CONTROL_FRAGMENT_BIT:
                gate += ctx.edges(gcfg, n, lab)
                for e in ctx.edges(gcfg, n, "F" if lab == "T" else "T"):
                    ck.check(R, _raises_only(gcfg, e), "decode_pdu_continuation: a fragment without the continuation flag can only raise",
                             f"{ctx.fkey(g)}:flag-reject-falls-through", "decode_pdu_continuation: with the flag missing a normal exit is reachable",
                             ctx.loc(g, n), gcfg.render_path(gcfg.find_path(e[1], gcfg.exit.id) or []))
        if seen_masks and not gate:
            ck.violated(R, f"{ctx.fkey(g)}:flag-mask",
                        f"decode_pdu_continuation: the control byte is tested with mask(s) {[hex(x) for x in seen_masks]}, the continuation flag is bit 7 (0x80): "
                        "fragments without the flag are accepted / valid continuations rejected", g.loc(), None,
                        "decode_pdu_continuation: every normal exit passes `control & 0x80` on its set outcome")
        else:
            ctx.must_pass(R, gcfg, gcfg.exit, "continuation-flag test [control & 0x80 set]", gate,
                          desc="decode_pdu_continuation: every normal exit passes `control & 0x80` on its set outcome")
        if exp2 is None:
            ctx.must_pass(R, gcfg, gcfg.exit, "tid test [received tid == expected tid]", [],
                          desc="decode_pdu_continuation: every normal exit passes the transaction-id test on its equal outcome")
        else:
            _tid_gate(ctx, g, gcfg, tid2, exp2)
    if exp2 is None:
        return None
    out["cont"] = {"f": g, "data": D2[1], "tid": exp2}
    return out


def _expected_param(ctx: Context, cfg, tid_t, D):
    """The parameter the received tid is compared with (== / !=), or None."""
    st = strip_sites(tid_t)
    names = set()
    for n in cfg.nodes:
        if n.kind != "test":
            continue
        c = _cmp(strip_sites(ctx.terms.of(cfg, n, n.exprs[0])))
        if c is None or c[0] not in ("Eq", "NotEq"):
            continue
        for a, b in ((c[1], c[2]), (c[2], c[1])):
            if a == st and b[0] == "param" and b != D:
                names.add(b[1])
    return names.pop() if len(names) == 1 else None


def _tid_gate(ctx: Context, f, cfg, tid_t, exp: str) -> None:
    ck = ctx.ck
    R = "C17.G1"
    st = strip_sites(tid_t)
    nodes, eq, ne = _eq_gate(ctx, cfg, lambda t: strip_sites(t) == st, lambda t: t == ("param", exp))
    ctx.must_pass(R, cfg, cfg.exit, "tid test [received tid == expected tid]", eq,
                  desc=f"{f.name}: every normal exit passes the transaction-id test on its equal outcome")
    for e in ne:
        ck.check(R, _raises_only(cfg, e), f"{f.name}: a fragment with another transaction id can only raise",
                 f"{ctx.fkey(f)}:tid-reject-falls-through", f"{f.name}: with a wrong transaction id a normal exit is reachable",
                 ctx.loc(f, cfg.nodes[e[0]]), cfg.render_path(cfg.find_path(e[1], cfg.exit.id) or []))


def _g1(ctx: Context) -> None:
    _ble_layout(ctx, report=True)


# ====================================================================== C17.G2
def _g2(ctx: Context) -> None:
    ck = ctx.ck
    T = ctx.terms
    R = "C17.G2"
    lay = _ble_layout(ctx, report=False)
    if lay is None:
        ck.unknown(R, "decode_pdu / decode_pdu_continuation: layout not established (see C17.G1)", "")
        return
    d1, d2 = lay["first"], lay["cont"]
    rf = ctx.func(f"{BLE_CLIENT}._read_pdu")
    cfg = ctx.cfg(rf.qualname)
    Q1, Q2 = d1["f"].qualname, d2["f"].qualname
    calls = [(n, c, "first") for n, c in _calls_to(ctx, cfg, Q1)] + [(n, c, "cont") for n, c in _calls_to(ctx, cfg, Q2)]
    reads = ctx.nodes_calling_name(cfg, "read_gatt_char")
    ck.require_min(R, "_read_pdu: GATT reads", len(reads), 2)
    ck.require_min(R, "_read_pdu: decode call sites", len(calls), 2)
    loops = {id(_loop_of(n)): _loop_of(n) for n, _c in reads if _loop_of(n) is not None}
    if len(loops) != 1:
        ck.unknown(R, f"_read_pdu: expected one reassembly loop containing a GATT read, found {len(loops)}", rf.loc())
        return
    loop = list(loops.values())[0]

    def in_loop(n):
        return any(l is loop for l in _loops_of(n))

    # ---- which decoder sees which fragment
    firsts = [(n, c) for n, c, k in calls if k == "first" and not in_loop(n)]
    conts = [(n, c) for n, c, k in calls if k == "cont" and in_loop(n)]
    for n, c, k in calls:
        if k == "first" and in_loop(n):
            ck.violated(R, f"{ctx.fkey(rf)}:first-decoder-in-loop",
                        "_read_pdu: a later fragment is decoded with decode_pdu - a continuation (control 0x80, 2-byte header, no status/length) is "
                        "parsed as a 5-byte response header, so its first three body bytes are dropped and the flag is never checked",
                        ctx.loc(rf, n), None, "every fragment after the first goes through decode_pdu_continuation")
        if k == "cont" and not in_loop(n):
            ck.violated(R, f"{ctx.fkey(rf)}:continuation-decoder-first",
                        "_read_pdu: the first fragment is decoded with decode_pdu_continuation - status and expected length are never read",
                        ctx.loc(rf, n), None, "the first fragment goes through decode_pdu")
    if len(firsts) != 1 or len(conts) != 1:
        if not any(k == "first" and in_loop(n) or k == "cont" and not in_loop(n) for n, _c, k in calls):
            ck.unknown(R, f"_read_pdu: expected decode_pdu once before the loop and decode_pdu_continuation once inside, found {len(firsts)} / {len(conts)}", rf.loc())
        return
    (n1, c1), (n2, c2) = firsts[0], conts[0]
    ck.holds(R, "_read_pdu: the first fragment goes through decode_pdu (before the loop), every later one through decode_pdu_continuation (inside)", ctx.loc(rf, n2))
    t1, t2 = T.of(cfg, n1, c1), T.of(cfg, n2, c2)
    site1, site2 = t1[4], t2[4]

    # ---- tid: both decoders get the parameter that ble_request fills with the tid it also gave to _write_pdu
    am1, am2 = _argmap(c1, d1["f"]), _argmap(c2, d2["f"])
    if am1 is None or am2 is None or d1["tid"] not in am1 or d2["tid"] not in am2 or d1["data"] not in am1 or d2["data"] not in am2:
        ck.unknown(R, "_read_pdu: decode call arguments cannot be mapped to parameters", ctx.loc(rf, n1))
        return
    tt1, tt2 = T.of(cfg, n1, am1[d1["tid"]]), T.of(cfg, n2, am2[d2["tid"]])
    same = tt1[0] == "param" and tt1 == tt2
    ck.check(R, same, "_read_pdu: both decoders are given the same tid parameter, unmodified", f"{ctx.fkey(rf)}:tid-args",
             f"_read_pdu: decode_pdu expects tid {show(tt1, 50)} but decode_pdu_continuation expects {show(tt2, 50)}", ctx.loc(rf, n2))
    if same:
        _tid_chain(ctx, rf, tt1[1])

    # ---- decrypt before decode
    for n, c, am, d, which in ((n1, c1, am1, d1, "first"), (n2, c2, am2, d2, "continuation")):
        v = T.of(cfg, n, am[d["data"]])
        raws, decs, odd = [], [], []
        for a in _alts(v):
            if a[0] == "await" and a[1][0] == "call" and a[1][1][0] == "attr" and a[1][1][2] == "read_gatt_char":
                raws.append(a)
            elif (a[0] == "call" and a[1][0] == "attr" and a[1][2] == "decrypt" and len(a[2]) == 1 and a[2][0][0] == "await"
                  and a[2][0][1][0] == "call" and a[2][0][1][1][0] == "attr" and a[2][0][1][1][2] == "read_gatt_char"):
                decs.append(a)
            else:
                odd.append(a)
        if odd or not (raws or decs):
            ck.unknown(R, f"_read_pdu: the {which} decoder is fed {show(v, 140)}: neither a GATT read nor key.decrypt(<GATT read>)", ctx.loc(rf, n))
            continue
        srcs = {strip_sites(x) for x in raws} | {strip_sites(x[2][0]) for x in decs}
        src_sites = {x[1][4] for x in raws} | {x[2][0][1][4] for x in decs}
        rnodes = [rn for rn, rc in reads if T.of(cfg, rn, rc)[4] in src_sites]
        if len(src_sites) != 1 or len(rnodes) != 1 or len(srcs) != 1:
            ck.unknown(R, f"_read_pdu: the {which} decoder is fed from {len(src_sites)} different reads", ctx.loc(rf, n))
            continue
        rn = rnodes[0]
        if (_loop_of(rn) is loop) != (which == "continuation"):
            ck.unknown(R, f"_read_pdu: the {which} decoder is fed by a read on the other side of the loop", ctx.loc(rf, n))
            continue
        keys = {strip_sites(x[1][1]) for x in decs}
        dec_nodes = []
        for m in cfg.nodes:
            for cc in ctx.calls(m):
                if isinstance(cc.func, ast.Attribute) and cc.func.attr == "decrypt":
                    t = T.of(cfg, m, cc)
                    if len(t[2]) == 1 and t[2][0][0] == "await" and t[2][0][1][0] == "call" and t[2][0][1][4] in src_sites:
                        dec_nodes.append(m)
                        _seal_shape(ctx, R, rf, m, cc, "decrypt")
                        keys.add(strip_sites(t[1][1]))
        gate = []
        for m in dec_nodes:
            gate += ctx.normal_out(cfg, m)
        if len(keys) == 1:
            _p, absent = _key_edges(ctx, cfg, list(keys)[0])
            gate += absent
        elif len(keys) > 1:
            ck.unknown(R, f"_read_pdu: the {which} fragment is decrypted with {len(keys)} different keys", ctx.loc(rf, n))
            continue
        if not decs and dec_nodes:
            ck.violated(R, f"{ctx.fkey(rf)}:{which}:decrypt-result-unused",
                        f"_read_pdu: the {which} fragment is decrypted but the decoder is given the ciphertext {show(v, 80)}",
                        ctx.loc(rf, n), None, f"the {which} fragment is decrypted before it is decoded")
            continue
        ctx.must_pass(R, cfg, n, f"key.decrypt({which} fragment) [or no key]", gate, start=rn.id,
                      desc=f"_read_pdu: the {which} fragment reaches its decoder only through decrypt (normal outcome) or with no key")

    # ---- accumulate exactly while len(data) < expected_length
    i_st, i_len, i_body = d1["pos"]

    def first_proj(t, k):
        p = _proj(t)
        return p is not None and p[0][0] == "call" and len(p[0]) == 5 and p[0][4] == site1 and p[1] == k

    def is_cont(t):
        return t[0] == "call" and len(t) == 5 and t[4] == site2

    def acc(t, depth=0):
        """'ok' | 'order' | 'no':  ACC := first body | loop-carried | phi(ACC..) | ACC + continuation body"""
        if depth > 8:
            return "no"
        if first_proj(t, i_body) or t[0] == "loopvar":
            return "ok"
        if t[0] == "phi":
            rs = [acc(x, depth + 1) for x in t[1]]
            return "no" if "no" in rs else ("order" if "order" in rs else "ok")
        if t[0] == "add":
            ps = list(t[1])
            kinds = ["c" if is_cont(p) else acc(p, depth + 1) for p in ps]
            if "no" in kinds:
                return "no"
            if kinds[0] in ("ok",) and all(k == "c" for k in kinds[1:]) and len(kinds) >= 2:
                return "ok"
            return "order"
        return "no"

    tests = []
    for n in cfg.nodes:
        if n.kind != "test":
            continue
        c = _cmp(T.of(cfg, n, n.exprs[0]))
        if c is None:
            continue
        op, l, r = c
        if first_proj(l, i_len) and _is_call_to(r, "len"):
            op, l, r = _FLIP.get(op), r, l
        if op is None or not (_is_call_to(l, "len") and len(l[2]) == 1 and first_proj(r, i_len)):
            continue
        tests.append((n, op, l[2][0]))
    if not tests:
        # ---- the same loop driven by a countdown: `missing = expected - len(first body)`; `while missing > 0:` .. `missing -= len(X)`
        # with the body collected by `chunks.append(Y)` / `data += Y`.  The countdown tracks the body only if what is subtracted
        # is the length of exactly what is appended: X is Y (the decoded continuation body - not the raw fragment with its header)
        done_cd = False
        for n in cfg.nodes:
            if n.kind != "test":
                continue
            e0 = n.exprs[0]
            if not (isinstance(e0, ast.Compare) and len(e0.ops) == 1 and isinstance(e0.left, ast.Name) and isinstance(e0.ops[0], (ast.Gt, ast.NotEq))
                    and ctx.const(rf, e0.comparators[0], None) == 0):
                continue
            m = e0.left.id
            subs, init_ok = [], False
            for d in cfg.nodes:
                a = d.ast
                if d.kind != "stmt" or a is None:
                    continue
                if isinstance(a, ast.AugAssign) and isinstance(a.target, ast.Name) and a.target.id == m and isinstance(a.op, ast.Sub):
                    subs.append(d)
                elif type(a) is ast.Assign and len(a.targets) == 1 and isinstance(a.targets[0], ast.Name) and a.targets[0].id == m:
                    t0 = strip_sites(T.of(cfg, d, a.value))
                    init_ok = t0[0] == "binop" and t0[1] == "Sub" and first_proj(T.of(cfg, d, a.value.left) if isinstance(a.value, ast.BinOp) else ("unknown", ""), i_len) \
                        and isinstance(a.value, ast.BinOp) and _is_call_to(T.of(cfg, d, a.value.right), "len") and first_proj(T.of(cfg, d, a.value.right)[2][0], i_body)
            if not subs or not init_ok:
                continue
            # what is collected in the loop
            adds = []
            for d in cfg.nodes:
                a = d.ast
                if d.kind != "stmt" or a is None or not any(fr[0] == "loop" for fr in d.frames):
                    continue
                if isinstance(a, ast.AugAssign) and isinstance(a.op, ast.Add) and not (isinstance(a.target, ast.Name) and a.target.id == m):
                    adds.append((d, a.value))
                for c_ in ctx.calls(d):
                    if isinstance(c_.func, ast.Attribute) and c_.func.attr in ("append", "extend") and len(c_.args) == 1 and isinstance(d.ast, ast.Expr):
                        adds.append((d, c_.args[0]))
            adds = [(d, v) for d, v in adds if is_cont(T.of(cfg, d, v))]
            if len(subs) != 1 or len(adds) != 1:
                continue
            sd = subs[0]
            st = T.of(cfg, sd, sd.ast.value)
            same = _is_call_to(st, "len") and len(st[2]) == 1 and strip_sites(st[2][0]) == strip_sites(T.of(cfg, adds[0][0], adds[0][1]))
            if same or (_is_call_to(st, "len") and len(st[2]) == 1):
                ck.check(R, same, "_read_pdu: the countdown of missing bytes is reduced by the length of exactly what is added to the body",
                         f"{ctx.fkey(rf)}:countdown-counts-other-bytes",
                         f"_read_pdu counts down the missing bytes by `{sd.text()}` = len({show(st[2][0], 60)}) but adds {show(T.of(cfg, adds[0][0], adds[0][1]), 60)} to the body: "
                         "the raw fragment includes its two header bytes, so a response in three or more fragments ends one fragment early (truncated body, a fragment left unread; "
                         "on an encrypted session the counters fall out of step)", ctx.loc(rf, sd))
                done_cd = True
        if not done_cd:
            ck.unknown(R, "_read_pdu: no test compares len(<accumulated body>) with the expected length returned by decode_pdu - loop condition not recognised", rf.loc())
        return
    cont_edges, stop_edges = [], []
    for n, op, a in tests:
        shape = acc(a)
        if shape == "no":
            ck.unknown(R, f"_read_pdu: the length test measures {show(a, 120)}, not first body + continuation bodies", ctx.loc(rf, n))
            return
        ck.check(R, shape == "ok", "_read_pdu: the measured buffer is the first body followed by the continuation bodies in arrival order",
                 f"{ctx.fkey(rf)}:accumulate-order", f"_read_pdu: continuation bodies are not appended behind what was received before: {show(a, 120)}", ctx.loc(rf, n))
        lab = {}
        for x in ("T", "F"):
            for e in ctx.edges(cfg, n, x):
                lab[x] = n2.id in cfg.reachable_from(e[1], avoid_nodes=[n.id])
        if sorted(lab.values()) != [False, True]:
            ck.unknown(R, "_read_pdu: cannot tell which outcome of the length test reads another fragment", ctx.loc(rf, n))
            return
        cont_lab = "T" if lab["T"] else "F"
        reads_more_when = op if cont_lab == "T" else {"Lt": "GtE", "GtE": "Lt", "Gt": "LtE", "LtE": "Gt", "Eq": "NotEq", "NotEq": "Eq"}[op]
        why = {
            "LtE": "with `<=` a complete body (len == expected) still waits for a fragment that never comes",
            "NotEq": "with `!=` an accessory that sends more than announced is read forever",
            "Gt": "the comparison is inverted: nothing is read when data is missing", "GtE": "the comparison is inverted",
            "Eq": "another fragment is read exactly when the body is complete",
        }
        ck.check(R, reads_more_when == "Lt", "_read_pdu: another fragment is read exactly while len(data) < expected_length",
                 f"{ctx.fkey(rf)}:loop-operator",
                 f"_read_pdu: another fragment is read while len(data) {reads_more_when} expected_length - {why.get(reads_more_when, '')}", ctx.loc(rf, n))
        if reads_more_when == "Lt":
            cont_edges += ctx.edges(cfg, n, cont_lab)
            stop_edges += ctx.edges(cfg, n, "F" if cont_lab == "T" else "T")
    if not cont_edges:
        return
    ctx.must_pass(R, cfg, n2, "length test [len(data) < expected_length]", cont_edges, start=n1.id,
                  desc="_read_pdu: a continuation fragment is only read while data is missing")
    p = _cycle_avoiding(cfg, n2, avoid_edges=cont_edges)
    ck.check(R, p is None, "_read_pdu: the length test is repeated before every further fragment", f"{ctx.fkey(rf)}:loop-test-every-cycle",
             "_read_pdu: a second continuation fragment can be read without re-testing the length", ctx.loc(rf, n2), cfg.render_path(p) if p else None)
    rets = [n for n in cfg.nodes if n.kind == "return"]
    for r in rets:
        if r.id not in cfg.reachable_from(n1.id):
            continue
        ctx.must_pass(R, cfg, r, "length test [len(data) >= expected_length]", stop_edges, start=n1.id,
                      desc="_read_pdu: the result is returned only when the announced length has arrived")
        t = T.of(cfg, r, r.exprs[0]) if r.exprs else ("const", None)
        ok = t[0] == "tuple" and len(t[1]) == 2 and first_proj(t[1][0], i_st) and acc(t[1][1]) == "ok"
        if not ok and not (t[0] == "tuple" and len(t[1]) == 2):
            ck.unknown(R, f"_read_pdu: return value {show(t, 100)} is not (status, body)", ctx.loc(rf, r))
            continue
        ck.check(R, ok, "_read_pdu: returns the status of the first fragment and the reassembled body", f"{ctx.fkey(rf)}:result",
                 f"_read_pdu: returns {show(t, 140)} instead of (status of the first fragment, reassembled body)", ctx.loc(rf, r))


def _tid_chain(ctx: Context, rf, read_tid_param: str) -> None:
    """ble_request gives one and the same tid term to _write_pdu (-> encode_pdu header) and to _read_pdu."""
    ck = ctx.ck
    T = ctx.terms
    R = "C17.G2"
    m = _encoder_model(ctx)
    wf = ctx.func(f"{BLE_CLIENT}._write_pdu")
    wcfg = ctx.cfg(wf.qualname)
    bf = ctx.func(f"{BLE_CLIENT}.ble_request")
    bcfg = ctx.cfg(bf.qualname)
    if m["tid_param"] is None:
        ck.unknown(R, "encode_pdu: tid position of the request header not established (see C17.B1)", m["f"].loc())
        return
    es = _calls_to(ctx, wcfg, m["f"].qualname)
    ws = _calls_to(ctx, bcfg, wf.qualname)
    rs = _calls_to(ctx, bcfg, rf.qualname)
    if len(es) != 1 or len(ws) != 1 or len(rs) != 1:
        ck.unknown(R, f"ble_request/_write_pdu: expected one call each of encode_pdu, _write_pdu, _read_pdu; found {len(es)}, {len(ws)}, {len(rs)}", bf.loc())
        return
    ea = _argmap(es[0][1], m["f"])
    wa = _argmap(ws[0][1], wf)
    ra = _argmap(rs[0][1], rf)
    if ea is None or wa is None or ra is None or m["tid_param"] not in ea or read_tid_param not in ra:
        ck.unknown(R, "ble_request: tid arguments cannot be mapped to parameters", bf.loc())
        return
    wt = T.of(wcfg, es[0][0], ea[m["tid_param"]])
    if wt[0] != "param" or wt[1] not in wa:
        ck.unknown(R, f"_write_pdu: the tid given to encode_pdu is {show(wt, 60)}, not a parameter passed through", ctx.loc(wf, es[0][0]))
        return
    a, b = T.of(bcfg, ws[0][0], wa[wt[1]]), T.of(bcfg, rs[0][0], ra[read_tid_param])
    ck.check(R, a == b and a[0] != "const", "ble_request: the tid packed into the request header is the tid both response decoders expect (one value, drawn once)",
             f"{ctx.fkey(bf)}:request-tid", f"ble_request: request is written with tid {show(a, 60)} but the response is checked against {show(b, 60)}", ctx.loc(bf, rs[0][0]))


# ====================================================================== C17.T1
def _enum_const(ctx: Context, cls_qual: str, member: str):
    try:
        return ("const", ctx.prog.const_of(f"{cls_qual}.{member}"))
    except Exception:  # noqa: BLE001 - NotConst / vanished member
        return None


def _t1(ctx: Context) -> None:
    item = _t1_item_decoder(ctx)
    start_e = _t1_encoder(ctx)
    sparam = _t1_batch_decoder(ctx, item) if item is not None else None
    _t1_call_sites(ctx, start_e, sparam)


def _t1_item_decoder(ctx: Context):
    """coap.pdu.decode_pdu: header width, every return starts with the unpacked length, reject edges map to their kind."""
    ck = ctx.ck
    T = ctx.terms
    R = "C17.T1"
    f = ctx.func(f"{COAP_PDU}.decode_pdu")
    cfg = ctx.cfg(f.qualname)
    ups = _unpack_sites(ctx, cfg)
    if len(ups) != 1:
        ck.unknown(R, f"coap decode_pdu: expected one header unpack, found {len(ups)}", f.loc())
        return None
    u = ups[0]
    sl = _slice(u["buf"])
    fl = _fields(u["fmt"])
    hdr = _size(u["fmt"])
    if sl is None or fl is None or u["off"] is not None or sl[0][0] != "param" or _ci(sl[2]) is None or (sl[1] is not None and _ci(sl[1]) is None):
        ck.unknown(R, f"coap decode_pdu: header is unpacked from {show(u['buf'], 80)}, not <parameter>[const:const]", ctx.loc(f, u["node"]))
        return None
    D = sl[0]
    lo, hi = (_ci(sl[1]) or 0), _ci(sl[2])
    want = SPEC.COAP_RESPONSE_HEADER
    ok = fl == want
    ck.check(R, ok, f"coap decode_pdu: header fields are {want[0]}{''.join(want[1])} (control, tid, status, body length) = {hdr} bytes",
             f"{ctx.fkey(f)}:layout", f"coap decode_pdu: header is unpacked as {u['fmt']}, HAP over CoAP says {want[0]}{''.join(want[1])}", ctx.loc(f, u["node"]))
    if not ok:
        return None
    ck.check(R, lo == 0 and hi - lo == hdr, f"coap decode_pdu: the {hdr}-byte header is unpacked from the slice [0:{hdr}]", f"{ctx.fkey(f)}:unpack-width",
             f"coap decode_pdu: {u['fmt']} ({hdr} bytes) is unpacked from data[{lo}:{hi}]", ctx.loc(f, u["node"]))
    U = strip_sites(u["term"])
    fld = {name: ("sub", U, ("const", i)) for i, name in enumerate(SPEC.COAP_RESPONSE_FIELDS)}
    L = fld["body_length"]
    CLS = f"{COAP_PDU}.PDUStatus"
    st_term = ("call", ("glob", CLS), (fld["status"],), ())
    kinds = {k: _enum_const(ctx, CLS, k) for k in ("SUCCESS", "TID_MISMATCH", "BAD_CONTROL")}
    if any(v is None for v in kinds.values()):
        ck.unknown(R, f"coap PDUStatus: members SUCCESS / TID_MISMATCH / BAD_CONTROL not all constant: {kinds}", f.loc())
        return None
    vals = {k: (v[1][0] if isinstance(v[1], tuple) else v[1]) for k, v in kinds.items()}
    ck.check(R, all(isinstance(vals[k], int) and vals[k] > SPEC.WIRE_STATUS_MAX for k in ("TID_MISMATCH", "BAD_CONTROL")) and vals["TID_MISMATCH"] != vals["BAD_CONTROL"],
             "coap PDUStatus: the decoder's own error kinds lie outside the one-byte wire status range and differ",
             f"{COAP_PDU}:PDUStatus:custom-values", f"coap PDUStatus: TID_MISMATCH={vals['TID_MISMATCH']}, BAD_CONTROL={vals['BAD_CONTROL']} collide with wire status bytes or each other", f.loc())

    # returns: the unpacked length first
    rets = [n for n in cfg.nodes if n.kind == "return"]
    ck.require_min(R, "coap decode_pdu: returns", len(rets), 4)
    rt = {}
    oks = []
    for r in rets:
        t = strip_sites(T.of(cfg, r, r.exprs[0])) if r.exprs else ("const", None)
        if t[0] != "tuple" or len(t[1]) != 2:
            ck.unknown(R, f"coap decode_pdu: return value {show(t, 80)} is not a (length, body-or-status) pair", ctx.loc(f, r))
            return None
        rt[r.id] = t[1]
        ck.check(R, t[1][0] == L, "coap decode_pdu: the return starts with the body length unpacked from this item's header (an error item advances by its own length)",
                 f"{ctx.fkey(f)}:return-length:{norm_stmt(show(t[1][1], 60))}",
                 f"coap decode_pdu: `{r.text()}` returns {show(t[1][0], 60)} as the length: decode_all_pdus then advances by the wrong amount and every later item of the batch is "
                 "parsed from inside this item's body (shifted results)", ctx.loc(f, r))
        s = _slice(t[1][1])
        if s is not None:
            oks.append(r)
            w = _minus(s[2], s[1]) if s[2] is not None else None
            good = s[0] == D and _ci(s[1]) == hdr and w == L
            ck.check(R, good, f"coap decode_pdu: the body is data[{hdr}:{hdr} + body_len] - starts right after the {hdr}-byte header and has the announced length",
                     f"{ctx.fkey(f)}:body-slice", f"coap decode_pdu: the body is {show(t[1][1], 100)}; the header is {hdr} bytes and the announced length is {show(L, 40)}", ctx.loc(f, r))
    if len(oks) != 1:
        ck.unknown(R, f"coap decode_pdu: expected one return of a body slice, found {len(oks)}", f.loc())
        return None
    okr = oks[0]

    # reject edges
    def band(x):
        if x[0] == "binop" and x[1] == "BitAnd":
            if x[2] == fld["control"]:
                return _ci(x[3])
            if x[3] == fld["control"]:
                return _ci(x[2])
        return None

    gates = {"tid": ([], []), "status": ([], []), "control": ([], [])}
    exp_params = set()
    for n in cfg.nodes:
        if n.kind != "test":
            continue
        c = _cmp(strip_sites(T.of(cfg, n, n.exprs[0])))
        if c is None or c[0] not in ("Eq", "NotEq"):
            continue
        kind = None
        for a, b in ((c[1], c[2]), (c[2], c[1])):
            if a == fld["tid"] and b[0] == "param" and b != D:
                kind = "tid"
                exp_params.add(b[1])
            elif a == st_term and b == kinds["SUCCESS"]:
                kind = "status"
            elif band(a) == SPEC.CONTROL_TYPE_MASK and _ci(b) == SPEC.CONTROL_TYPE_RESPONSE:
                kind = "control"
        if kind:
            gates[kind][0].extend(ctx.edges(cfg, n, "T" if c[0] == "Eq" else "F"))
            gates[kind][1].extend(ctx.edges(cfg, n, "F" if c[0] == "Eq" else "T"))
    names = {"tid": "tid test [received tid == expected tid]", "status": "status test [status == SUCCESS]",
             "control": f"control test [control & {SPEC.CONTROL_TYPE_MASK:#04x} == {SPEC.CONTROL_TYPE_RESPONSE:#04x} (response)]"}
    expect = {"tid": kinds["TID_MISMATCH"], "status": st_term, "control": kinds["BAD_CONTROL"]}
    label = {"tid": "PDUStatus.TID_MISMATCH", "status": "the item's own status", "control": "PDUStatus.BAD_CONTROL"}
    n_g = 0
    for k in ("tid", "status", "control"):
        acc_e, rej_e = gates[k]
        ctx.must_pass(R, cfg, okr, names[k], acc_e, desc=f"coap decode_pdu: a body is returned only through the {names[k]}")
        for e in rej_e:
            n_g += 1
            reach = cfg.reachable_from(e[1], avoid_nodes=[okr.id])
            got = [rt[x] for x in reach if x in rt]
            good = bool(got) and all(g[1] == expect[k] for g in got) and okr.id not in cfg.reachable_from(e[1])
            ck.check(R, good, f"coap decode_pdu: a failed {k} test makes the item {label[k]}", f"{ctx.fkey(f)}:reject-kind:{k}",
                     f"coap decode_pdu: after a failed {k} test the item becomes {[show(g[1], 50) for g in got]} instead of {label[k]}", ctx.loc(f, cfg.nodes[e[0]]))
    ck.require_min(R, "coap decode_pdu: reject edges (tid, status, control)", n_g, 3)
    if len(exp_params) != 1:
        return None
    return {"f": f, "hdr": hdr, "data": D[1], "tid": exp_params.pop()}


def _t1_encoder(ctx: Context):
    """coap.pdu.encode_all_pdus: tid = enumerate index; returns the start value of the enumeration (None if unknown)."""
    ck = ctx.ck
    T = ctx.terms
    R = "C17.T1"
    f = ctx.func(f"{COAP_PDU}.encode_all_pdus")
    cfg = ctx.cfg(f.qualname)
    rets = [n for n in cfg.nodes if n.kind == "return"]
    if len(rets) != 1 or not rets[0].exprs:
        ck.unknown(R, f"encode_all_pdus: expected one return, found {len(rets)}", f.loc())
        return None
    r = rets[0]
    t = strip_sites(T.of(cfg, r, r.exprs[0]))
    if not (t[0] == "call" and t[1] == ("attr", ("const", b""), "join") and len(t[2]) == 1 and t[2][0][0] == "comp"
            and t[2][0][1] in ("ListComp", "GeneratorExp") and len(t[2][0][3]) == 1):
        ck.unknown(R, f"encode_all_pdus: result {show(t, 120)} is not b''.join(<one PDU per item, one generator>)", ctx.loc(f, r))
        return None
    _k, _kind, elt, gens = t[2][0]
    tgt, it, conds = gens[0]
    ps = _parts(elt)
    pk = _pack(ps[0]) if ps else None
    if pk is None or len(ps) != 2 or conds or not (_is_call_to(it, "enumerate") and it[2]) or tgt[0] != "tuple" or len(tgt[1]) != 2:
        ck.unknown(R, f"encode_all_pdus: item {show(elt, 100)} for {show(tgt, 30)} in {show(it, 60)} is not <packed header> + body over enumerate(...) "
                      "(encode_pdu not inlined?)", ctx.loc(f, r))
        return None
    fmt, args = pk
    want = SPEC.COAP_REQUEST_HEADER
    ok = _fields(fmt) == want and len(args) == len(want[1])
    ck.check(R, ok, f"coap encode_pdu: request header is packed as {want[0]}{''.join(want[1])} (control, opcode, tid, iid, body length)",
             f"{COAP_PDU}:encode_pdu:layout", f"coap encode_pdu: header packed as {fmt}, HAP over CoAP says {want[0]}{''.join(want[1])}", ctx.loc(f, r))
    if not ok:
        return None
    a = dict(zip(SPEC.COAP_REQUEST_FIELDS, args))
    idx_t, item_t = tgt[1]
    ck.check(R, a["tid"] == idx_t, "encode_all_pdus: the tid of each request is the enumerate index of its item",
             f"{ctx.fkey(f)}:tid-is-index", f"encode_all_pdus: tid is {show(a['tid'], 60)}, not the enumerate index {show(idx_t, 30)}", ctx.loc(f, r))
    src = it[2][0]
    def part(i):  # the i-th part of the zipped item: indexed, or unpacked in the loop target `idx, (iid, body)`
        if item_t[0] == "tuple" and len(item_t[1]) == 2:
            return item_t[1][i]
        return ("sub", item_t, ("const", i))

    okz = (_is_call_to(src, "zip") and len(src[2]) == 2 and src[2][0][0] == "param" and src[2][1][0] == "param" and src[2][0] != src[2][1]
           and a["iid"] == part(0) and ps[1] == part(1) and _is_len_of(a["body_length"], ps[1]))
    ck.check(R, okz, "encode_all_pdus: item i carries iids[i], data[i] and len(data[i]) (zip of the two parameters)",
             f"{ctx.fkey(f)}:zip", f"encode_all_pdus: item is built from {show(src, 60)}: iid {show(a['iid'], 40)}, body {show(ps[1], 40)}, length {show(a['body_length'], 40)}", ctx.loc(f, r))
    c0 = _ci(a["control"])
    ck.check(R, c0 is not None and c0 & (SPEC.CONTROL_FRAGMENT_BIT | SPEC.CONTROL_TYPE_MASK) == SPEC.CONTROL_TYPE_REQUEST,
             "coap encode_pdu: control byte is an unfragmented request", f"{COAP_PDU}:encode_pdu:control", f"coap encode_pdu: control byte is {show(a['control'])}", ctx.loc(f, r))
    start = None
    if len(it[2]) == 1 and not it[3]:
        start = 0
    elif len(it[2]) == 2 and not it[3]:
        start = _ci(it[2][1])
    elif len(it[2]) == 1 and len(it[3]) == 1 and it[3][0][0] == "start":
        start = _ci(it[3][0][1])
    if start is None:
        ck.unknown(R, f"encode_all_pdus: start of {show(it, 60)} is not a constant", ctx.loc(f, r))
    return start


def _t1_batch_decoder(ctx: Context, item):
    """coap.pdu.decode_all_pdus: expected tid and offset are stepped once per item by 1 / header + own length."""
    ck = ctx.ck
    T = ctx.terms
    R = "C17.T1"
    f = ctx.func(f"{COAP_PDU}.decode_all_pdus")
    cfg = ctx.cfg(f.qualname)
    du = T.du(cfg)
    sites = _calls_to(ctx, cfg, item["f"].qualname)
    if len(sites) != 1 or _loop_of(sites[0][0]) is None:
        ck.unknown(R, f"decode_all_pdus: expected one call of decode_pdu inside a loop, found {len(sites)}", f.loc())
        return None
    dn, dc = sites[0]
    loop = _loop_of(dn)
    dsite = T.of(cfg, dn, dc)[4]
    am = _argmap(dc, item["f"])
    if am is None or item["tid"] not in am or item["data"] not in am:
        ck.unknown(R, "decode_all_pdus: arguments of decode_pdu cannot be mapped", ctx.loc(f, dn))
        return None

    def proj_of_call(t, k):
        p = _proj(t)
        return p is not None and len(p[0]) == 5 and p[0][4] == dsite and p[1] == k

    def stepped(expr, what):
        """expr is a variable with one definition before the loop and one `+=` inside: (var, init term, step node, step term)."""
        n0, e0 = _resolve_ast(T, cfg, dn, expr)
        if not isinstance(e0, ast.Name):
            ck.unknown(R, f"decode_all_pdus: {what} `{_u(expr)}` is not a stepped variable", ctx.loc(f, dn))
            return None
        defs = du.reaching(n0.id, e0.id)
        inits = [(i, d) for i, d in defs if _loop_of(cfg.nodes[i]) is None]
        steps = [(i, d) for i, d in defs if _loop_of(cfg.nodes[i]) is loop and len(_loops_of(cfg.nodes[i])) == len(_loops_of(dn))]
        if len(inits) != 1 or len(steps) != 1 or len(defs) != 2 or inits[0][1].kind != "assign" or inits[0][1].path:
            ck.unknown(R, f"decode_all_pdus: {what} `{e0.id}` has {len(defs)} reaching definitions, expected one initialisation and one step per item", ctx.loc(f, dn))
            return None
        si, sd = steps[0]
        sn = cfg.nodes[si]
        if sd.kind == "aug" and isinstance(sd.extra, ast.Add):
            st = T.of(cfg, sn, sd.value)
        elif sd.kind == "assign" and not sd.path and isinstance(sd.value, ast.BinOp) and isinstance(sd.value.op, ast.Add) and (lambda ops_: any(
                isinstance(o_, ast.Name) and o_.id == e0.id for o_ in ops_) and sum(1 for o_ in ops_ for y_ in ast.walk(o_) if isinstance(y_, ast.Name) and y_.id == e0.id) == 1)(_add_operands(sd.value)):
            # `v = v + a + b` (the variable once, as an operand of the sum): the step is a + b
            rest_ = [o_ for o_ in _add_operands(sd.value) if not (isinstance(o_, ast.Name) and o_.id == e0.id)]
            st = T.of(cfg, sn, rest_[0])
            for o_ in rest_[1:]:
                from ..engine.terms import _binop as _bo

                st = _bo("Add", st, T.of(cfg, sn, o_))
        else:
            ck.unknown(R, f"decode_all_pdus: {what} is stepped by `{sn.text()}`, not by `+=`", ctx.loc(f, sn))
            return None
        init = T.of(cfg, cfg.nodes[inits[0][0]], inits[0][1].value)
        if init[0] not in ("param", "const"):
            ck.unknown(R, f"decode_all_pdus: {what} starts at {show(init, 60)}, neither a parameter nor a constant", ctx.loc(f, dn))
            return None
        p = _cycle_avoiding(cfg, dn, avoid_nodes=[si])
        ck.check(R, p is None, f"decode_all_pdus: {what} is stepped exactly once between two items", f"{ctx.fkey(f)}:{what.split()[0]}:once-per-item",
                 f"decode_all_pdus: the next item can be decoded without stepping the {what}", ctx.loc(f, sn), cfg.render_path(p) if p else None)
        q = cfg.find_path(cfg.entry.id, si, avoid_nodes=[dn.id])
        ck.check(R, q is None, f"decode_all_pdus: {what} is stepped after the item was decoded", f"{ctx.fkey(f)}:{what.split()[0]}:after-decode",
                 f"decode_all_pdus: the {what} is stepped before the first item is decoded", ctx.loc(f, sn), cfg.render_path(q) if q else None)
        return e0.id, init, sn, st

    # expected tid
    sparam = None
    r1 = stepped(am[item["tid"]], "expected tid")
    if r1 is not None:
        _v, init, sn, st = r1
        if init[0] != "param":
            ck.unknown(R, f"decode_all_pdus: the expected tid starts at {show(init, 60)}, not at a parameter", ctx.loc(f, dn))
        else:
            sparam = init[1]
            ck.holds(R, f"decode_all_pdus: the first item is expected with tid = parameter `{sparam}`", ctx.loc(f, dn))
        ck.check(R, _ci(st) == 1, "decode_all_pdus: item i is expected with tid starting_tid + i (step 1)", f"{ctx.fkey(f)}:tid-step",
                 f"decode_all_pdus: the expected tid advances by {show(st, 40)} per item but the encoder numbers items consecutively - every item after the first is TID_MISMATCH",
                 ctx.loc(f, sn))
    # offset
    _n, de = _resolve_ast(T, cfg, dn, am[item["data"]])
    dt = T.of(cfg, dn, am[item["data"]])
    s = _slice(dt)
    if not (isinstance(de, ast.Subscript) and isinstance(de.slice, ast.Slice) and de.slice.lower is not None and de.slice.upper is None and de.slice.step is None
            and s is not None and s[0][0] == "param"):
        ck.unknown(R, f"decode_all_pdus: decode_pdu is given {show(dt, 80)}, not <parameter>[offset:]", ctx.loc(f, dn))
        return sparam
    P = s[0]
    r2 = stepped(de.slice.lower, "offset")
    off_var = None
    if r2 is not None:
        off_var, init, sn, st = r2
        ck.check(R, _ci(init) == 0, "decode_all_pdus: the first item is decoded at offset 0", f"{ctx.fkey(f)}:offset-init",
                 f"decode_all_pdus: the offset starts at {show(init, 40)}", ctx.loc(f, dn))
        ps = _parts(st)
        cs = [p for p in ps if _ci(p) is not None]
        ls = [p for p in ps if _ci(p) is None]
        if len(cs) != 1 or len(ls) != 1:
            ck.unknown(R, f"decode_all_pdus: the offset advances by {show(st, 80)}, not <constant> + <length>", ctx.loc(f, sn))
        else:
            k = _ci(cs[0])
            ck.check(R, k == item["hdr"], f"decode_all_pdus: the offset advances by the header size {item['hdr']} = calcsize of the unpacked header = start of the body slice",
                     f"{ctx.fkey(f)}:offset-header-size",
                     f"decode_all_pdus: the offset advances by {k} + body_len but an item occupies {item['hdr']} + body_len bytes: the second item of every batch is decoded "
                     f"{abs(item['hdr'] - k)} byte(s) {'early' if k < item['hdr'] else 'late'} (wrong tid/status/length, shifted or missing results)", ctx.loc(f, sn))
            ck.check(R, proj_of_call(ls[0], 0), "decode_all_pdus: ... plus the length returned for this very item (element 0 of the same decode_pdu call)",
                     f"{ctx.fkey(f)}:offset-own-length", f"decode_all_pdus: the offset advances by {show(ls[0], 80)}, not by the length decode_pdu returned for this item", ctx.loc(f, sn))
    # results
    apps = []
    for n in cfg.nodes:
        if _loop_of(n) is not loop and loop not in _loops_of(n):
            continue
        for c in ctx.calls(n):
            if isinstance(c.func, ast.Attribute) and c.func.attr == "append" and len(c.args) == 1 and isinstance(c.func.value, ast.Name) and proj_of_call(T.of(cfg, n, c.args[0]), 1):
                apps.append((n, c.func.value.id))
    if len(apps) != 1:
        ck.unknown(R, f"decode_all_pdus: expected one `results.append(<element 1 of the decode_pdu call>)`, found {len(apps)}", ctx.loc(f, dn))
    else:
        an, lst = apps[0]
        p = _cycle_avoiding(cfg, dn, avoid_nodes=[an.id])
        nested = len(_loops_of(an)) != len(_loops_of(dn))
        ck.check(R, p is None and not nested, "decode_all_pdus: every decoded item appends exactly one result (body or error kind), in order",
                 f"{ctx.fkey(f)}:one-result-per-item", "decode_all_pdus: an item can be decoded without appending its result - later results shift to earlier indices",
                 ctx.loc(f, an), cfg.render_path(p) if p else None)
        for r in [n for n in cfg.nodes if n.kind == "return"]:
            ok = bool(r.exprs) and isinstance(r.exprs[0], ast.Name) and r.exprs[0].id == lst and _def_ids(T, cfg, r, lst) == _def_ids(T, cfg, an, lst) and len(_def_ids(T, cfg, an, lst)) == 1
            ck.check(R, ok, "decode_all_pdus: returns the list the results were appended to", f"{ctx.fkey(f)}:returns-results",
                     f"decode_all_pdus: `{r.text()}` does not return the result list", ctx.loc(f, r))
    # termination: another item exactly while offset < len(data)
    if off_var is not None:
        found = 0
        for n in cfg.nodes:
            if n.kind != "test":
                continue
            cp = n.exprs[0]
            c = _cmp(T.of(cfg, n, cp))
            if c is None or not isinstance(cp, ast.Compare):
                continue
            op, l, r = c
            la, ra = cp.left, cp.comparators[0]
            if _is_len_of(l, P):
                op, l, r, la, ra = _FLIP.get(op), r, l, ra, la
            if op is None or not _is_len_of(r, P):
                continue
            _nn, le = _resolve_ast(T, cfg, n, la)
            if not (isinstance(le, ast.Name) and le.id == off_var):
                continue
            found += 1
            lab = {}
            for x in ("T", "F"):
                for e in ctx.edges(cfg, n, x):
                    lab[x] = dn.id in cfg.reachable_from(e[1], avoid_nodes=[n.id])
            if sorted(lab.values()) != [False, True]:
                ck.unknown(R, "decode_all_pdus: cannot tell which outcome of the end test decodes another item", ctx.loc(f, n))
                continue
            more = op if lab["T"] else {"Lt": "GtE", "GtE": "Lt", "Gt": "LtE", "LtE": "Gt", "Eq": "NotEq", "NotEq": "Eq"}[op]
            ck.check(R, more == "Lt", "decode_all_pdus: another item is decoded exactly while offset < len(data)", f"{ctx.fkey(f)}:end-test",
                     f"decode_all_pdus: another item is decoded while offset {more} len(data)" + (" - after the last item an empty slice is unpacked (struct.error), the whole batch is lost" if more in ("LtE", "NotEq") else ""),
                     ctx.loc(f, n))
            p = _cycle_avoiding(cfg, dn, avoid_nodes=[n.id])
            ck.check(R, p is None, "decode_all_pdus: the end test is evaluated between any two items", f"{ctx.fkey(f)}:end-test-every-item",
                     "decode_all_pdus: the next item can be decoded without the end test", ctx.loc(f, n), cfg.render_path(p) if p else None)
        if not found:
            ck.unknown(R, "decode_all_pdus: no test compares the offset with len(data) - end of batch not recognised", f.loc())
    return sparam


def _t1_call_sites(ctx: Context, start_e, sparam) -> None:
    ck = ctx.ck
    T = ctx.terms
    R = "C17.T1"
    prog = ctx.prog
    DEC, ENC = f"{COAP_PDU}.decode_all_pdus", f"{COAP_PDU}.encode_all_pdus"
    df = ctx.func(DEC)
    n_sites = 0
    for g in prog.package_functions():
        if isinstance(g.node, ast.Lambda):
            continue
        m = g.module
        if m.name != COAP_PDU and not any(prog.resolve_dotted(m, k).startswith(COAP_PDU) for k in m.imports):
            continue
        gcfg = ctx.cfg(g.qualname)
        decs = _calls_to(ctx, gcfg, DEC)
        if not decs:
            continue
        encs = _calls_to(ctx, gcfg, ENC)
        for n, c in decs:
            n_sites += 1
            am = _argmap(c, df)
            if sparam is None or start_e is None or am is None or sparam not in am:
                ck.unknown(R, f"{g.name}: starting tid of `{_u(c)[:60]}` cannot be compared with the encoder (see above)", ctx.loc(g, n))
                continue
            st = T.of(gcfg, n, am[sparam])
            if not encs:
                ck.unknown(R, f"{g.name}: decode_all_pdus without an encode_all_pdus in the same function", ctx.loc(g, n))
                continue
            if _ci(st) is None:
                ck.unknown(R, f"{g.name}: starting tid {show(st, 60)} is not a constant", ctx.loc(g, n))
                continue
            ck.check(R, _ci(st) == start_e, f"{g.name}: responses are matched from tid {start_e}, the first tid the encoder assigns",
                     f"{ctx.fkey(g)}:starting-tid",
                     f"{g.name}: the encoder numbers the requests from {start_e} but the responses are expected from {_ci(st)}: every item of every batch becomes TID_MISMATCH",
                     ctx.loc(g, n))
    ck.require_min(R, "call sites of decode_all_pdus", n_sites, 1)


# ====================================================================== C17.T2
def _t2(ctx: Context) -> None:
    ck = ctx.ck
    T = ctx.terms
    R = "C17.T2"
    STATUS_CLS = f"{COAP_PDU}.PDUStatus"
    POST_ALL = f"{COAP_CONN}.EncryptionContext.post_all"
    n_funcs = n_stores = n_status = n_sites = 0
    for q in EXIT_FUNCS:
        f = ctx.func(q)
        cfg = ctx.cfg(q)
        owner = f.cls
        # ---- call sites tell which parameter holds the requested ids and which the results
        ids_p = res_p = None
        callers = []
        for g in (owner.methods.values() if owner is not None else []):
            if g.qualname == q or isinstance(g.node, ast.Lambda):
                continue
            gcfg = ctx.cfg(g.qualname)
            for n, c in _calls_to(ctx, gcfg, q):
                callers.append((g, gcfg, n, c))
        if not callers:
            ck.unknown(R, f"{f.name}: no call site found", f.loc())
            continue
        site_ok = True
        for g, gcfg, n, c in callers:
            am = _argmap(c, f, drop_first=True)
            if am is None:
                ck.unknown(R, f"{g.name}: arguments of {f.name} cannot be mapped", ctx.loc(g, n))
                site_ok = False
                continue
            terms = {p: T.of(gcfg, n, a) for p, a in am.items()}
            rp = [p for p, t in terms.items() if t[0] == "await" and t[1][0] == "call" and POST_ALL in ctx.callee_names(g, _await_call(gcfg, T, n, am[p]) or c)]
            rp = rp or [p for p, t in terms.items() if t[0] == "await" and t[1][0] == "call" and t[1][1][0] == "attr" and t[1][1][2] == "post_all"]
            ip = [p for p in terms if p not in rp]
            if len(rp) != 1 or len(ip) != 1:
                ck.unknown(R, f"{g.name}: cannot tell the ids argument from the results argument of {f.name}: {[show(t, 50) for t in terms.values()]}", ctx.loc(g, n))
                site_ok = False
                continue
            if (ids_p, res_p) not in ((None, None), (ip[0], rp[0])):
                ck.unknown(R, f"{f.name}: call sites disagree on the roles of the parameters", ctx.loc(g, n))
                site_ok = False
                continue
            ids_p, res_p = ip[0], rp[0]
            # the iid list that was sent is derived, in order, from the same ids
            n_sites += 1
            post = terms[res_p][1]
            idt = strip_sites(terms[ids_p])
            srcs = [idt] + ([strip_sites(idt[2][0])] if _is_call_to(idt, "list") and len(idt[2]) == 1 else [])
            iids = strip_sites(post[2][1]) if len(post[2]) >= 2 else ("unknown", "")
            ok = (iids[0] == "comp" and iids[1] == "ListComp" and len(iids[3]) == 1 and not iids[3][0][2] and iids[3][0][1] in srcs
                  and _is_call_to(iids[2], "int") and iids[2][2] == (("sub", iids[3][0][0], ("const", 1)),))
            if iids[0] != "comp":
                ck.unknown(R, f"{g.name}: the iid list given to post_all is {show(iids, 80)}, not a list comprehension", ctx.loc(g, n))
            else:
                ck.check(R, ok, f"{g.name}: request i is int(ids[i][1]) - the iid list is derived in order from the ids given to {f.name}",
                         f"{ctx.fkey(g)}:iids-from-ids", f"{g.name}: iids are {show(iids, 100)} but results are attributed to {show(idt, 60)}", ctx.loc(g, n))
        if not site_ok or ids_p is None:
            continue
        n_funcs += 1
        IDS, RES = ("param", ids_p), ("param", res_p)
        # ---- the loop over enumerate(results)
        heads = []
        for n in cfg.nodes:
            if n.kind != "for":
                continue
            el = _loop_elem(T, cfg, n)
            it = el[1][0] if el[0] == "tuple" and len(el[1]) == 2 else None
            src = it[1][1] if it is not None and it[0] == "sub" and it[1][0] == "iter" else None
            if src is not None and _is_call_to(src, "enumerate") and src[2] and src[2][0] == RES:
                heads.append((n, src, el))
        if len(heads) != 1:
            ck.unknown(R, f"{f.name}: expected one `for i, result in enumerate(<results parameter>)`, found {len(heads)}", f.loc())
            continue
        h, en, el = heads[0]
        start = 0 if len(en[2]) == 1 and not en[3] else (_ci(en[2][1]) if len(en[2]) == 2 and not en[3] else (_ci(en[3][0][1]) if len(en[2]) == 1 and len(en[3]) == 1 and en[3][0][0] == "start" else None))
        ck.check(R, start == 0, f"{f.name}: results are enumerated from 0", f"{ctx.fkey(f)}:enumerate-start",
                 f"{f.name}: results are enumerated from {start if start is not None else show(en, 60)}: result i is attributed to ids[i + {start}]", ctx.loc(f, h))
        IDX, RESULT = strip_sites(el[1][0]), strip_sites(el[1][1])
        KEYBASE = ("sub", IDS, IDX)
        # ---- stores
        st_edges_T = []
        for n in cfg.nodes:
            if n.kind == "test":
                t = strip_sites(T.of(cfg, n, n.exprs[0]))
                if _is_call_to(t, "isinstance") and len(t[2]) == 2 and t[2][0] == RESULT and t[2][1] == ("glob", STATUS_CLS):
                    st_edges_T += ctx.edges(cfg, n, "T")
        stores = []
        for n in cfg.nodes:
            a = n.ast
            if n.kind == "stmt" and isinstance(a, ast.Assign) and len(a.targets) == 1 and isinstance(a.targets[0], ast.Subscript) and h.ast in _loops_of(n):
                tg = a.targets[0]
                if isinstance(tg.slice, ast.Slice) or not isinstance(tg.value, ast.Name):
                    continue
                stores.append((n, tg, strip_sites(T.of(cfg, n, tg.slice)), strip_sites(T.of(cfg, n, a.value))))
        if not stores and not st_edges_T:
            ck.unknown(R, f"{f.name}: neither a `results[key] = ...` store nor an isinstance(result, PDUStatus) test in the loop", ctx.loc(f, h))
            continue
        err_nodes = []
        for n, tg, key, val in stores:
            n_stores += 1
            good = key == KEYBASE or key == ("tuple", (("sub", KEYBASE, ("const", 0)), ("sub", KEYBASE, ("const", 1))))
            other = [s for s in subterms(key) if s[0] == "sub" and s[1] == IDS and s[2] != IDX]
            if not good and not other:
                ck.unknown(R, f"{f.name}: store key {show(key, 100)} is not ids[i] / (ids[i][0], ids[i][1])", ctx.loc(f, n))
                continue
            ck.check(R, good, f"{f.name}: result i is stored under {ids_p}[i] (i = enumerate index of that result)",
                     f"{ctx.fkey(f)}:store-key:{norm_stmt(_u(tg.value))}",
                     f"{f.name}: result i is stored under {show(key, 100)} - not the id the i-th request was made for (results attributed to the wrong characteristic"
                     + (", IndexError on the last item)" if other else ")"), ctx.loc(f, n))
            # error mapping
            on_err = bool(st_edges_T) and cfg.find_path(h.id, n.id, avoid_edges=st_edges_T) is None
            if on_err:
                err_nodes.append(n.id)
                if val[0] != "dict":
                    ck.unknown(R, f"{f.name}: error entry {show(val, 80)} is not a dict literal", ctx.loc(f, n))
                    continue
                sv = [v for k, v in val[1] if k == ("const", "status")]
                if len(sv) != 1:
                    ck.unknown(R, f"{f.name}: error entry {show(val, 80)} has no single 'status' item", ctx.loc(f, n))
                    continue
                n_status += 1
                want = ("unop", "USub", ("attr", RESULT, "value"))
                ck.check(R, sv[0] == want, f"{f.name}: a PDUStatus result becomes status = -result.value (of that same result)",
                         f"{ctx.fkey(f)}:status-mapping",
                         f"{f.name}: a failed item is reported with status {show(sv[0], 60)} instead of -result.value (HAP status codes are negative; a positive/foreign value "
                         "reads as another outcome)", ctx.loc(f, n))
            else:
                # success entry of a read: the value must come from this result
                vs = [v for k, v in val[1] if k == ("const", "value")] if val[0] == "dict" else []
                for v in vs:
                    al = _alts(v)
                    from_result = [a for a in al if contains(a, lambda s: s == RESULT) or contains(a, lambda s: s == KEYBASE)]
                    # a constant empty value next to decoded ones is the `empty result` case of a conditional assignment
                    srcs_ok = bool(from_result) and all(a in from_result or a in (("const", b""), ("const", None)) for a in al)
                    ck.check(R, srcs_ok, f"{f.name}: the value stored for ids[i] is decoded from result i", f"{ctx.fkey(f)}:value-source",
                             f"{f.name}: the stored value {show(v, 100)} does not come from the i-th result", ctx.loc(f, n))
        # an error item is always recorded
        if not st_edges_T:
            ck.unknown(R, f"{f.name}: no isinstance(result, PDUStatus) test in the loop", ctx.loc(f, h))
            continue
        p = None
        for e in st_edges_T:
            if e[1] in err_nodes:
                continue
            p = p or cfg.find_path(e[1], h.id, avoid_nodes=err_nodes)
        ck.check(R, p is None, f"{f.name}: every PDUStatus result is recorded as a per-item error before the next item", f"{ctx.fkey(f)}:error-recorded",
                 f"{f.name}: a failed item can pass without an entry - the error is hidden", ctx.loc(f, h), cfg.render_path(p) if p else None)
    ck.require_min(R, "CoAP *_exit functions analysed", n_funcs, 4)
    ck.require_min(R, "CoAP *_exit: results[key] stores", n_stores, 5)
    ck.require_min(R, "CoAP *_exit: status mappings", n_status, 4)
    ck.require_min(R, "CoAP *_exit: call sites", n_sites, 4)


def _await_call(cfg, T, node, expr):
    """The Call AST awaited by ``expr`` (following a unique temporary), or None."""
    _n, e = _resolve_ast(T, cfg, node, expr)
    if isinstance(e, ast.Await) and isinstance(e.value, ast.Call):
        return e.value
    return None


# ====================================================================== thorough tier
def run_thorough(ctx: Context) -> None:
    """Whole-package sweep: every struct unpack whose buffer is a slice must read exactly calcsize(format) bytes."""
    ck = ctx.ck
    R = "C17.G1"
    if not ck.rule(R, "BLE decoders reject a wrong tid / missing continuation flag; unpack widths equal the slices"):
        return
    n_sliced = n_whole = n_open = 0
    for g in ctx.prog.package_functions():
        if isinstance(g.node, ast.Lambda) or g.module.name in EXCLUDED_MODULES:
            continue
        cfg = ctx.cfg(g.qualname)
        for s in _unpack_sites(ctx, cfg):
            sl = _slice(s["buf"])
            size = _size(s["fmt"])
            if sl is None or s["off"] is not None or size is None:
                n_whole += 1
                continue
            base, lo, hi = sl
            w = _minus(hi, lo) if hi is not None else None
            if w is None or _ci(w) is None:
                n_open += 1
                ck.note(f"sweep: {g.qualname}: `{_u(s['call'])[:60]}` slice width {show(w, 40) if w else 'open'} not constant - not decided")
                continue
            n_sliced += 1
            ck.check(R, _ci(w) == size, f"sweep: {g.qualname.split('.', 1)[1]}: unpack {s['fmt']} ({size} bytes) reads a slice of {_ci(w)} bytes",
                     f"{ctx.fkey(g)}:sweep-unpack-width:{s['fmt']}",
                     f"{g.qualname}: `{_u(s['call'])[:70]}` unpacks {size} bytes from a slice of {_ci(w)} bytes - struct.error on every message", ctx.loc(g, s["node"]))
    ck.require_min(R, "sweep: unpack sites on constant-width slices", n_sliced, 4)
    ck.extra_coverage["sweep_unpack_sites"] = {"sliced_checked": n_sliced, "whole_field_not_applicable": n_whole, "non_constant_width_not_decided": n_open}


MANIFEST = {
    "technique": "def-use term comparison of slice bounds / struct formats / loop steps (symbolic linear bound) + CFG must-pass-through gates with exact outcomes",
    "level_text": "Static, all paths and all fragment sizes / body lengths / batch shapes (symbolic, not sampled): decides that each BLE fragment is "
    "calcsize(packed headers) + a slice of width size - calcsize(...) (so never larger than the negotiated size), that the continuation header has bit 7 "
    "and the request's tid, that first slice / remainder / range step / continuation slice use the same terms (every body byte emitted once), that the "
    "16-byte AEAD overhead is subtracted exactly when a key is present and every written fragment passed its own encrypt; that both BLE decoders "
    "reject a wrong tid / missing 0x80 flag before any normal exit with unpack widths equal to their slices; that _read_pdu decrypts before decoding, "
    "reads exactly while len(data) < expected_length, uses decode_pdu for the first and decode_pdu_continuation for later fragments with the tid of the "
    "request; that the CoAP batch encoder numbers items from the starting tid the decoder expects, header size 5 agrees in unpack / body slice / "
    "offset step, every return carries the unpacked length, the three reject edges map to TID_MISMATCH / status / BAD_CONTROL; and that *_exit stores "
    "result i under ids[i] with status = -value. These are necessary structural conditions of the property.",
    "level_note": "NOT decided: equality of reassembled and sent opcode/iid/body as values over all inputs and cut points (DESIGN section 8) - only the byte "
    "accounting, bounds, gates and constant agreement from which it follows given Python slice semantics; the size of an encrypted fragment relies on the "
    "library adding exactly a 16-byte tag (constant checked against the frozen spec value, library trusted); behaviour for fragment sizes below the header "
    "size (negative slice bounds) is outside the property's quantifier; opcode/iid attribution on the BLE request side is only checked by header field "
    "order, not against caller intent. Layout tables in sa/spec/pdu.py are written from the HAP specification, not from the code.",
}

TWIN_FILES = [
    "aiohomekit/pdu.py",
    "aiohomekit/controller/ble/client.py",
    "aiohomekit/controller/ble/bleak.py",
    "aiohomekit/controller/coap/pdu.py",
    "aiohomekit/controller/coap/connection.py",
    "aiohomekit/controller/ble/key.py",
]
_P, _C, _B, _CP, _CC, _K = TWIN_FILES
VARIANTS = [
    # ---- Appendix A
    {"name": "first fragment subtracts 5 instead of 7", "file": _P, "old": "next_size = fragment_size - 7", "new": "next_size = fragment_size - 5", "expect": "C17.B1"},
    {"name": "continuation control byte 0x40", "file": _P, "old": "STRUCT_BB_PACK(0x80, tid)", "new": "STRUCT_BB_PACK(0x40, tid)", "expect": "C17.B1"},
    {"name": "tid test deleted from decode_pdu", "file": _P,
     "old": "    if tid != expected_tid:\n        raise ValueError(f\"Expected transaction {expected_tid} but got transaction {tid}\")\n\n    if status != PDUStatus.SUCCESS:",
     "new": "    if status != PDUStatus.SUCCESS:", "expect": "C17.G1"},
    {"name": "offset += 4 + body_len", "file": _CP, "old": "offset += 5 + body_len", "new": "offset += 4 + body_len", "expect": "C17.T1"},
    {"name": "error item returns length 0", "file": _CP, "old": "return (body_len, PDUStatus.TID_MISMATCH)", "new": "return (0, PDUStatus.TID_MISMATCH)", "expect": "C17.T1"},
    {"name": "encoder enumerates from 1", "file": _CP, "old": "for (idx, iid_data) in enumerate(iids_data)", "new": "for (idx, iid_data) in enumerate(iids_data, 1)", "expect": "C17.T1"},
    # ---- own
    {"name": "reassembly loop uses <=", "file": _C, "old": "while len(data) < expected_length:", "new": "while len(data) <= expected_length:", "expect": "C17.G2"},
    {"name": "continuation decoded with decode_pdu", "file": _C, "old": "data += decode_pdu_continuation(tid, next)", "new": "data += decode_pdu(tid, next)[2]", "expect": "C17.G2"},
    {"name": "continuation decrypted after decoding", "file": _C,
     "old": "        if decryption_key:\n            try:\n                next = decryption_key.decrypt(bytes(next))\n            except DecryptionError:\n                raise EncryptionError(\"Decryption failed\")\n        if debug:\n            logger.debug(\"Read fragment: %s\", next)\n\n        data += decode_pdu_continuation(tid, next)",
     "new": "        body = decode_pdu_continuation(tid, next)\n        if decryption_key:\n            try:\n                body = decryption_key.decrypt(bytes(body))\n            except DecryptionError:\n                raise EncryptionError(\"Decryption failed\")\n        data += body",
     "expect": "C17.G2"},
    {"name": "first fragment decoded without decrypting", "file": _C, "old": "            data = decryption_key.decrypt(bytes(data))\n", "new": "            decryption_key.decrypt(bytes(data))\n", "expect": "C17.G2"},
    {"name": "continuation checked against another tid", "file": _C, "old": "decode_pdu_continuation(tid, next)", "new": "decode_pdu_continuation(tid + 1, next)", "expect": "C17.G2"},
    {"name": "response checked against a fresh tid", "file": _C, "old": "return await _read_pdu(client, decryption_key, handle, tid)",
     "new": "return await _read_pdu(client, decryption_key, handle, random.randrange(1, 254))", "expect": "C17.G2"},
    {"name": "key overhead constant 8", "file": _C, "old": "KEY_OVERHEAD_SIZE = 16", "new": "KEY_OVERHEAD_SIZE = 8", "expect": "C17.B1"},
    {"name": "overhead subtracted when the key is absent", "file": _C, "old": "KEY_OVERHEAD_SIZE if encryption_key else 0", "new": "0 if encryption_key else KEY_OVERHEAD_SIZE", "expect": "C17.B1"},
    {"name": "overhead no longer subtracted", "file": _B, "old": "        fragment_size -= additional_overhead_size", "new": "        pass", "expect": "C17.B1"},
    {"name": "fragments written unencrypted", "file": _C, "old": "            data = encryption_key.encrypt(bytes(data))\n", "new": "            encryption_key.encrypt(bytes(data))\n", "expect": "C17.B1"},
    {"name": "sealed fragment gets a trailing byte", "file": _K, "old": "data = self.key.encrypt(b\"\", PACK_NONCE(self.counter), data)",
     "new": "data = self.key.encrypt(b\"\", PACK_NONCE(self.counter), data) + b\"\\x00\"", "expect": "C17.B1"},
    {"name": "offset advances by slice width - 1", "file": _P, "old": "range(0, len(data), next_size)", "new": "range(0, len(data), next_size - 1)", "expect": "C17.B1"},
    {"name": "remainder skips one byte", "file": _P, "old": "    data = data[next_size:]", "new": "    data = data[next_size + 1 :]", "expect": "C17.B1"},
    {"name": "continuation subtracts 1 instead of 2", "file": _P, "old": "next_size = fragment_size - 2", "new": "next_size = fragment_size - 1", "expect": "C17.B1"},
    {"name": "header unpacked from 4 bytes", "file": _P, "old": "STRUCT_BBB_UNPACK(data[:3])", "new": "STRUCT_BBB_UNPACK(data[:4])", "expect": "C17.G1"},
    {"name": "continuation flag tested with 0x40", "file": _P, "old": "if not (control & 0x80):", "new": "if not (control & 0x40):", "expect": "C17.G1"},
    {"name": "continuation flag test inverted", "file": _P, "old": "if not (control & 0x80):", "new": "if control & 0x80:", "expect": "C17.G1"},
    {"name": "continuation tid test only logs", "file": _P,
     "old": "    if tid != expected_tid:\n        raise ValueError(f\"Expected transaction {expected_tid} but got transaction {tid}\")\n\n    return data[2:]",
     "new": "    if tid != expected_tid:\n        logger.warning(f\"Expected transaction {expected_tid} but got transaction {tid}\")\n\n    return data[2:]", "expect": "C17.G1"},
    {"name": "continuation body from offset 3", "file": _P, "old": "    return data[2:]", "new": "    return data[3:]", "expect": "C17.G1"},
    {"name": "batch decoded from tid 1", "file": _CC, "old": "return decode_all_pdus(0, res_pdu)", "new": "return decode_all_pdus(1, res_pdu)", "expect": "C17.T1"},
    {"name": "expected tid stepped by 2", "file": _CP, "old": "        idx += 1\n        offset", "new": "        idx += 2\n        offset", "expect": "C17.T1"},
    {"name": "tid mismatch reported as BAD_CONTROL", "file": _CP, "old": "return (body_len, PDUStatus.TID_MISMATCH)", "new": "return (body_len, PDUStatus.BAD_CONTROL)", "expect": "C17.T1"},
    {"name": "coap body slice one byte short", "file": _CP, "old": "data[5 : 5 + body_len]", "new": "data[5 : 4 + body_len]", "expect": "C17.T1"},
    {"name": "batch end test uses >", "file": _CP, "old": "if offset >= len(data):", "new": "if offset > len(data):", "expect": "C17.T1"},
    {"name": "coap status failure falls through", "file": _CP, "old": "        return (body_len, status)\n", "new": "        pass\n", "expect": "C17.T1"},
    {"name": "ids[idx + 1]", "file": _CC, "old": "            aid_iid = ids[idx]\n            if isinstance(result, PDUStatus):\n                logger.debug(\"Failed to read",
     "new": "            aid_iid = ids[idx + 1]\n            if isinstance(result, PDUStatus):\n                logger.debug(\"Failed to read", "expect": "C17.T2"},
    {"name": "minus sign dropped on the status", "file": _CC, "old": "\"status\": -result.value,  # XXX", "new": "\"status\": result.value,  # XXX", "expect": "C17.T2"},
    {"name": "results enumerated from 1", "file": _CC, "old": "        for idx, result in enumerate(pdu_results):\n            aid_iid_value = ids_values[idx]",
     "new": "        for idx, result in enumerate(pdu_results, 1):\n            aid_iid_value = ids_values[idx]", "expect": "C17.T2"},
    {"name": "subscribe error not recorded", "file": _CC,
     "old": "            if isinstance(result, PDUStatus):\n                results[key] = {\n                    \"descripton\": result.description,\n                    \"status\": -result.value,  # XXX\n                }\n            else:\n                logger.debug(\n                    \"Subscribed to",
     "new": "            if isinstance(result, PDUStatus):\n                pass\n            else:\n                logger.debug(\n                    \"Subscribed to", "expect": "C17.T2"},
]
