"""C17  HAP PDUs are fragmented, reassembled and attributed correctly (BLE, CoAP)."""

from __future__ import annotations

import ast
import struct as _struct

from ..engine.context import Context
from ..engine.loader import EXCLUDED_MODULES, StructMethod
from ..engine.report import norm_stmt
from ..engine.terms import contains, show, strip_sites, subterms
from ..spec import pdu as SPEC

PROPERTY = "C17"
EXPLANATION = (
    "Static analysis of the HAP PDU codecs against the frozen HAP-BLE / HAP-CoAP header layouts. (B1) encoder bound: "
    "every yield of pdu.encode_pdu is classified by its term; the first fragment is the packed request header + packed "
    "length field + data[:fs-K1], a continuation is the packed continuation header + rest[i:i+fs-K2]; K1/K2 must equal "
    "struct.calcsize of the formats packed in that very yield (so header + slice <= fs), the control byte has bit 7 "
    "exactly on continuations, the continuation carries the request's tid, the remainder starts at the first slice's "
    "bound and the range step is the same term as the slice width (every byte once); _write_pdu passes an overhead of "
    "16 = AEAD tag length exactly when the encryption key is present, that argument flows into the subtraction of "
    "_determine_fragment_size, and every written value passes key.encrypt(<one fragment>) on the key-present outcome. "
    "(G1) decoders: tid test (and the 0x80 continuation-flag test) dominate every normal exit on their accepting edge, the "
    "rejecting edge can only raise; unpack slices are contiguous and as wide as calcsize of their format. (G2) _read_pdu: "
    "each decode call is reached from its read only over decrypt's normal edge or the key-absent edge; the loop continues "
    "exactly while len(accumulated) < expected_length of the first decode; first fragment via decode_pdu outside the loop, "
    "later ones via decode_pdu_continuation inside, all with the tid ble_request also gave to _write_pdu. (T1) CoAP batch: "
    "encoder tid = enumerate index, its start equals starting_tid at every call site; decoder steps the expected tid by 1 "
    "and the offset by calcsize(header)+body_len of the same call once per cycle; every return of decode_pdu has the "
    "unpacked length first; the three reject edges return TID_MISMATCH / the item's status / BAD_CONTROL. (T2) the four "
    "*_exit functions store result i under ids[i] (enumerate from 0) and map a PDUStatus to status = -value. "
    "Quantifier: all CFG paths and all fragment sizes / body lengths (symbolic linear bound), not sampled inputs."
)
TRUSTED = [
    "bytes slicing semantics (b[i:j] has min(j, len) - i bytes for 0 <= i <= j) and struct.calcsize of the standard-size formats",
    "ChaCha20-Poly1305 seals each message with a 16-byte tag (encrypt adds exactly 16 bytes)",
    "bleak API: write_gatt_char(characteristic, data, response), read_gatt_char(characteristic) -> one GATT value",
    "enumerate(x) counts from 0, zip/list comprehension/b''.join preserve order",
]

BLE_PDU = "aiohomekit.pdu"
BLE_CLIENT = "aiohomekit.controller.ble.client"
BLEAK = "aiohomekit.controller.ble.bleak"
COAP_PDU = "aiohomekit.controller.coap.pdu"
COAP_CONN = "aiohomekit.controller.coap.connection"
DFS = f"{BLEAK}._determine_fragment_size"
EXIT_FUNCS = [
    f"{COAP_CONN}.CoAPHomeKitConnection._read_characteristics_exit",
    f"{COAP_CONN}.CoAPHomeKitConnection._write_characteristics_exit",
    f"{COAP_CONN}.CoAPHomeKitConnection._subscribe_to_exit",
    f"{COAP_CONN}.CoAPHomeKitConnection._unsubscribe_from_exit",
]


def run(ctx: Context) -> None:
    ck = ctx.ck
    if ck.rule("C17.B1", "no fragment exceeds the negotiated size; every byte emitted once; per-fragment encryption overhead"):
        _b1(ctx)
    if ck.rule("C17.G1", "BLE decoders reject a wrong tid / missing continuation flag; unpack widths equal the slices"):
        _g1(ctx)
    if ck.rule("C17.G2", "BLE reassembly: decrypt before decode, loop while len < expected, first/continuation decoders, request tid"):
        _g2(ctx)
    if ck.rule("C17.T1", "CoAP batch: tid = index from starting_tid, header size agreement, errors keep their length"):
        _t1(ctx)
    if ck.rule("C17.T2", "CoAP results: i-th result stored under ids[i]; PDUStatus -> status = -value"):
        _t2(ctx)


# ====================================================================== generic helpers
def _u(e) -> str:
    return " ".join(ast.unparse(e).split())


def _fields(fmt: str):
    """struct format -> (byte order, tuple of field codes); None for native alignment (sizes platform dependent)."""
    s = "".join(fmt.split())
    if not s or s[0] not in "<>!=":
        return None
    out, num = [], ""
    for c in s[1:]:
        if c.isdigit():
            num += c
            continue
        k = int(num) if num else 1
        num = ""
        if c in "sp":
            out.append(f"{k}{c}")
        else:
            out.extend([c] * k)
    if num:
        return None
    return ("<" if s[0] == "<" else ">" if s[0] in ">!" else "="), tuple(out)


def _size(fmt: str):
    try:
        return _struct.calcsize(fmt)
    except _struct.error:
        return None


def _pack(t):
    """``<Struct>.pack(a..)`` / ``struct.pack(fmt, a..)`` term -> (fmt, args) else None."""
    if not (isinstance(t, tuple) and t and t[0] == "call") or t[3]:
        return None
    fn, args = t[1], t[2]
    if fn[0] == "const" and isinstance(fn[1], StructMethod) and fn[1].method == "pack":
        return fn[1].struct.fmt, tuple(args)
    if fn == ("glob", "struct.pack") and args and args[0][0] == "const" and isinstance(args[0][1], str):
        return args[0][1], tuple(args[1:])
    return None


def _unpack(t):
    """unpack / unpack_from call term -> (fmt, buffer term, offset term or None) else None."""
    if not (isinstance(t, tuple) and t and t[0] == "call") or t[3]:
        return None
    fn, args = t[1], t[2]
    if fn[0] == "const" and isinstance(fn[1], StructMethod) and fn[1].method in ("unpack", "unpack_from") and args:
        if fn[1].method == "unpack" and len(args) == 1:
            return fn[1].struct.fmt, args[0], None
        if fn[1].method == "unpack_from" and len(args) <= 2:
            return fn[1].struct.fmt, args[0], args[1] if len(args) == 2 else None
        return None
    if fn[0] == "glob" and fn[1] in ("struct.unpack", "struct.unpack_from") and len(args) >= 2:
        if args[0][0] == "const" and isinstance(args[0][1], str):
            if fn[1] == "struct.unpack" and len(args) == 2:
                return args[0][1], args[1], None
            if fn[1] == "struct.unpack_from" and len(args) <= 3:
                return args[0][1], args[1], args[2] if len(args) == 3 else None
    return None


def _parts(t):
    return list(t[1]) if t[0] == "add" else [t]


def _alts(t):
    return list(t[1]) if t[0] == "phi" else [t]


def _ci(t):
    if t is not None and t[0] == "const" and isinstance(t[1], int) and not isinstance(t[1], bool):
        return t[1]
    return None


def _slice(t):
    """``base[lo:hi]`` term -> (base, lo, hi) (lo/hi terms or None) else None."""
    if t[0] == "sub" and isinstance(t[2], tuple) and t[2] and t[2][0] == "slice" and t[2][3] is None:
        return t[1], t[2][1], t[2][2]
    return None


def _minus(hi, lo):
    """Terms with hi = lo + W  ->  W (a term, constants folded); None when lo is not a summand of hi."""
    if lo is None:
        return hi
    a, b = _ci(hi), _ci(lo)
    if a is not None and b is not None:
        return ("const", a - b)
    hp = [strip_sites(x) for x in _parts(hi)]
    for x in [strip_sites(x) for x in _parts(lo)]:
        if _ci(x) is not None:
            continue
        if x not in hp:
            return None
        hp.remove(x)
    lc = sum(_ci(x) for x in _parts(lo) if _ci(x) is not None)
    consts = [x for x in hp if _ci(x) is not None]
    rest = [x for x in hp if _ci(x) is None]
    c = sum(_ci(x) for x in consts) - lc
    if not rest:
        return ("const", c)
    if c:
        rest = [("const", c)] + rest
    return rest[0] if len(rest) == 1 else ("add", tuple(rest))


def _less_const(t):
    """``X - K`` -> (X, K) for an integer constant K; a bare X -> (X, 0)."""
    if t[0] == "binop" and t[1] == "Sub" and _ci(t[3]) is not None:
        return t[2], _ci(t[3])
    return t, 0


def _is_call_to(t, dotted_name: str) -> bool:
    return isinstance(t, tuple) and bool(t) and t[0] == "call" and t[1] == ("glob", dotted_name)


def _is_len_of(t, what) -> bool:
    return _is_call_to(t, "len") and len(t[2]) == 1 and strip_sites(t[2][0]) == strip_sites(what)


def _proj(t):
    """``<call>[k]`` -> (call term, k) else None."""
    if t[0] == "sub" and t[1][0] == "call" and _ci(t[2]) is not None:
        return t[1], _ci(t[2])
    return None


def _presence(t):
    """Condition that asks whether a value is present -> (subject term, True when the condition means 'present')."""
    if t[0] == "unop" and t[1] == "Not":
        s, p = _presence(t[2])
        return s, not p
    if t[0] == "cmp" and len(t[1]) == 1 and t[1][0] in ("Is", "IsNot") and t[2][1] == ("const", None):
        return t[2][0], t[1][0] == "IsNot"
    return t, True


def _key_edges(ctx: Context, cfg, subject):
    """Edges of all tests on the presence of ``subject``: (present edges, absent edges)."""
    pres, absent = [], []
    for n in cfg.nodes:
        if n.kind != "test":
            continue
        s, p = _presence(ctx.terms.of(cfg, n, n.exprs[0]))
        if strip_sites(s) == strip_sites(subject):
            pres += ctx.edges(cfg, n, "T" if p else "F")
            absent += ctx.edges(cfg, n, "F" if p else "T")
    return pres, absent


def _calls_to(ctx: Context, cfg, qual: str):
    out = []
    for n in cfg.nodes:
        if n.copy_of and n.copy_of != "normal":
            continue
        for c in ctx.calls(n):
            if qual in ctx.callee_names(cfg.func, c):
                out.append((n, c))
    return out


def _argmap(call: ast.Call, callee, drop_first: bool = False):
    """parameter name -> argument AST (positional and keyword); None when it cannot be decided."""
    names = callee.pos_params[1:] if drop_first else callee.pos_params
    out = {}
    for i, a in enumerate(call.args):
        if isinstance(a, ast.Starred) or i >= len(names):
            return None
        out[names[i]] = a
    for k in call.keywords:
        if k.arg is None:
            return None
        out[k.arg] = k.value
    return out


def _loop_of(n):
    """Innermost loop (AST) whose body contains the node."""
    loops = [fr[1] for fr in n.frames if fr[0] == "loop" and fr[2] == "body"]
    return loops[-1] if loops else None


def _loops_of(n):
    return [fr[1] for fr in n.frames if fr[0] == "loop" and fr[2] == "body"]


def _cycle_avoiding(cfg, node, avoid_nodes=(), avoid_edges=()):
    """A path node -> ... -> node (at least one edge) that avoids the given nodes / edges, or None."""
    avoid_edges = set(avoid_edges)
    for d, l, e in node.succ:
        if l == "x" or (node.id, d, l, e) in avoid_edges:
            continue
        if d == node.id:
            return [(node.id, l, e), (node.id, None, None)]
        if d in set(avoid_nodes):
            continue
        p = cfg.find_path(d, node.id, avoid_nodes=avoid_nodes, avoid_edges=avoid_edges)
        if p is not None:
            return [(node.id, l, e)] + p
    return None


def _resolve_ast(T, cfg, node, expr):
    """Follow a Name through its unique reaching assignment(s) to the defining expression (AST) and node."""
    du = T.du(cfg)
    cur_node, cur = node, expr
    for _ in range(6):
        if not isinstance(cur, ast.Name):
            break
        rd = du.reaching(cur_node.id, cur.id)
        if len(rd) != 1 or rd[0][1].kind != "assign" or rd[0][1].path:
            break
        cur_node, cur = cfg.nodes[rd[0][0]], rd[0][1].value
    return cur_node, cur


def _loop_elem(T, cfg, head):
    """Term of the element bound by a ``for`` node (evaluated after the binding, not at the join)."""
    tg = head.ast.target
    if isinstance(tg, ast.Name):
        return T.var_after(cfg, head, tg.id)
    if isinstance(tg, (ast.Tuple, ast.List)) and all(isinstance(e, ast.Name) for e in tg.elts):
        return ("tuple", tuple(T.var_after(cfg, head, e.id) for e in tg.elts))
    return ("unknown", "loop target")


def _def_ids(T, cfg, node, var):
    return [x[0] for x in T.du(cfg).reaching(node.id, var)]


def _raises_only(cfg, edge) -> bool:
    """No normal exit is reachable once ``edge`` is taken."""
    return cfg.exit.id not in cfg.reachable_from(edge[1])


def _cmp(t):
    """Single comparison term -> (op, left, right) else None."""
    if t[0] == "cmp" and len(t[1]) == 1 and len(t[2]) == 2:
        return t[1][0], t[2][0], t[2][1]
    return None


_FLIP = {"Lt": "Gt", "Gt": "Lt", "LtE": "GtE", "GtE": "LtE", "Eq": "Eq", "NotEq": "NotEq"}


def _eq_gate(ctx: Context, cfg, is_a, is_b):
    """Tests ``a == b`` / ``a != b`` -> (nodes, edges taken when equal, edges taken when different)."""
    nodes, eq, ne = [], [], []
    for n in cfg.nodes:
        if n.kind != "test":
            continue
        c = _cmp(ctx.terms.of(cfg, n, n.exprs[0]))
        if c is None or c[0] not in ("Eq", "NotEq"):
            continue
        if (is_a(c[1]) and is_b(c[2])) or (is_a(c[2]) and is_b(c[1])):
            nodes.append(n)
            eq += ctx.edges(cfg, n, "T" if c[0] == "Eq" else "F")
            ne += ctx.edges(cfg, n, "F" if c[0] == "Eq" else "T")
    return nodes, eq, ne


def _yields(cfg):
    out = []
    for n in cfg.nodes:
        for e in n.exprs:
            if e is None:
                continue
            for sub in ast.walk(e):
                if isinstance(sub, (ast.Yield, ast.YieldFrom)):
                    out.append((n, sub))
    return out


def _unpack_sites(ctx: Context, cfg):
    """Every unpack call of the function: dicts with node, call term, fmt, buffer term, offset term."""
    out, seen = [], set()
    for n in cfg.nodes:
        if n.copy_of and n.copy_of != "normal":
            continue
        for c in ctx.calls(n):
            if id(c) in seen:
                continue
            t = ctx.terms.of(cfg, n, c)
            u = _unpack(t)
            if u is not None:
                seen.add(id(c))
                out.append({"node": n, "call": c, "term": t, "fmt": u[0], "buf": u[1], "off": u[2]})
    return out


# ====================================================================== C17.B1
def _encoder_model(ctx: Context):
    """Classify every yield of pdu.encode_pdu by the shape of its term (no reporting)."""
    f = ctx.func(f"{BLE_PDU}.encode_pdu")
    cfg = ctx.cfg(f.qualname)
    T = ctx.terms
    m = {"f": f, "cfg": cfg, "yields": [], "problems": [], "tid_param": None}
    for n, y in _yields(cfg):
        if isinstance(y, ast.YieldFrom) or y.value is None:
            m["problems"].append((n, "a bare `yield` / `yield from` - emitted bytes not visible as a term"))
            continue
        v = T.of(cfg, n, y.value)
        packs, sl, bad = [], None, None
        for p in _parts(v):
            pk = _pack(p)
            if pk is not None and sl is None:
                packs.append(pk)
            elif _slice(p) is not None and sl is None:
                sl = _slice(p)
            else:
                bad = p
        if bad is not None or not packs:
            m["problems"].append((n, f"yielded value `{show(v, 90)}` is not <packed header(s)> [+ one slice of the body]"))
            continue
        fmts = [_fields(pk[0]) for pk in packs]
        if any(x is None for x in fmts):
            m["problems"].append((n, f"header packed with a native-alignment format {[pk[0] for pk in packs]}"))
            continue
        kind = "bare" if sl is None else ("first" if sl[1] is None or _ci(sl[1]) == 0 else "cont")
        m["yields"].append({
            "node": n, "kind": kind, "term": v, "slice": sl,
            "order": {x[0] for x in fmts}, "fields": tuple(c for x in fmts for c in x[1]),
            "args": tuple(a for pk in packs for a in pk[1]), "size": sum(_size(pk[0]) for pk in packs),
        })
    firsts = [y for y in m["yields"] if y["kind"] == "first"]
    if len(firsts) == 1:
        y = firsts[0]
        if y["fields"][: len(SPEC.BLE_REQUEST_HEADER[1])] == SPEC.BLE_REQUEST_HEADER[1] and len(y["args"]) == len(y["fields"]):
            t = y["args"][SPEC.BLE_REQUEST_FIELDS.index("tid")]
            if t[0] == "param":
                m["tid_param"] = t[1]
    return m


def _b1(ctx: Context) -> None:
    ck = ctx.ck
    T = ctx.terms
    R = "C17.B1"
    m = _encoder_model(ctx)
    f, cfg = m["f"], m["cfg"]
    for n, why in m["problems"]:
        ck.unknown(R, f"encode_pdu: {why}", ctx.loc(f, n))
    ys = m["yields"]
    ck.require_min(R, "encode_pdu: classified yields (header only, first fragment, continuation)", len(ys), 3)
    firsts = [y for y in ys if y["kind"] == "first"]
    conts = [y for y in ys if y["kind"] == "cont"]
    bares = [y for y in ys if y["kind"] == "bare"]
    if len(firsts) != 1 or len(conts) != 1 or m["problems"]:
        ck.unknown(R, f"encode_pdu: expected one first-fragment yield and one continuation yield, found {len(firsts)} / {len(conts)}", f.loc())
        return
    y1, y2 = firsts[0], conts[0]
    n1, n2 = y1["node"], y2["node"]

    # ---- the call site in _write_pdu tells which parameter is the negotiated size
    wf = ctx.func(f"{BLE_CLIENT}._write_pdu")
    wcfg = ctx.cfg(wf.qualname)
    sites = _calls_to(ctx, wcfg, f.qualname)
    if len(sites) != 1:
        ck.unknown(R, f"_write_pdu: expected one call of encode_pdu, found {len(sites)}", wf.loc())
        return
    wn, wcall = sites[0]
    am = _argmap(wcall, f)
    if am is None:
        ck.unknown(R, "_write_pdu: arguments of encode_pdu cannot be mapped to parameters", ctx.loc(wf, wn))
        return
    fs_param, fs_term = None, None
    for p, a in am.items():
        t = T.of(wcfg, wn, a)
        if contains(t, lambda s: _is_call_to(s, DFS)):
            fs_param, fs_term = p, t
    if fs_param is None:
        ck.unknown(R, "_write_pdu: no argument of encode_pdu comes from _determine_fragment_size (call not resolved / inlined)", ctx.loc(wf, wn))
        return
    FS = ("param", fs_param)

    # ---- first fragment
    want_fields = SPEC.BLE_REQUEST_HEADER[1] + SPEC.BLE_BODY_LENGTH[1]
    base1, _lo1, hi1 = y1["slice"]
    ok_layout = y1["order"] == {SPEC.LITTLE} and y1["fields"] == want_fields and len(y1["args"]) == len(want_fields)
    ck.check(R, ok_layout, f"first fragment header is packed as {SPEC.LITTLE}{''.join(want_fields)} (request header + body length)",
             f"{ctx.fkey(f)}:first:layout", f"encode_pdu: first fragment header fields are {y1['order']}{y1['fields']}, HAP-BLE says {want_fields}", ctx.loc(f, n1))
    if not ok_layout:
        return
    c1 = _ci(y1["args"][0])
    ck.check(R, c1 is not None and c1 & SPEC.CONTROL_FRAGMENT_BIT == 0 and c1 & SPEC.CONTROL_TYPE_MASK == SPEC.CONTROL_TYPE_REQUEST,
             "first fragment: control byte is a request with the continuation bit clear",
             f"{ctx.fkey(f)}:first:control", f"encode_pdu: control byte of the first fragment is {show(y1['args'][0])}", ctx.loc(f, n1))
    ok_len = base1[0] == "param" and _is_len_of(y1["args"][-1], base1)
    ck.check(R, ok_len, "first fragment: the length field is len() of the whole body, the slice is taken from that body",
             f"{ctx.fkey(f)}:first:length-field", f"encode_pdu: length field is {show(y1['args'][-1], 60)}, body sliced from {show(base1, 60)}", ctx.loc(f, n1))
    if hi1 is None:
        ck.unknown(R, "encode_pdu: first fragment slice has no upper bound", ctx.loc(f, n1))
        return
    x1, k1 = _less_const(hi1)
    if x1 != FS:
        ck.unknown(R, f"encode_pdu: first slice bound `{show(hi1, 60)}` is not <{fs_param}> - K", ctx.loc(f, n1))
        return
    _bound(ctx, f, n1, "first", k1, y1["size"], fs_param)

    # ---- continuation
    want2 = SPEC.BLE_CONTINUATION_HEADER[1]
    ok2 = y2["order"] == {SPEC.LITTLE} and y2["fields"] == want2 and len(y2["args"]) == len(want2)
    ck.check(R, ok2, f"continuation header is packed as {SPEC.LITTLE}{''.join(want2)} (control, tid)",
             f"{ctx.fkey(f)}:cont:layout", f"encode_pdu: continuation header fields are {y2['order']}{y2['fields']}, HAP-BLE says {want2}", ctx.loc(f, n2))
    if not ok2:
        return
    c2 = _ci(y2["args"][0])
    ck.check(R, c2 is not None and c1 is not None and c2 == c1 | SPEC.CONTROL_FRAGMENT_BIT,
             "continuation: control byte has bit 7 (0x80) set, other bits as in the first fragment",
             f"{ctx.fkey(f)}:cont:control",
             f"encode_pdu: continuation control byte is {show(y2['args'][0])}; HAP-BLE needs bit 7 (0x80) - the accessory / decode_pdu_continuation rejects the fragment",
             ctx.loc(f, n2))
    tid1 = y1["args"][SPEC.BLE_REQUEST_FIELDS.index("tid")]
    tid2 = y2["args"][SPEC.BLE_CONTINUATION_FIELDS.index("tid")]
    ck.check(R, tid1[0] == "param" and tid1 == tid2, "continuation carries the transaction id of the request header",
             f"{ctx.fkey(f)}:cont:tid", f"encode_pdu: header tid is {show(tid1)}, continuation tid is {show(tid2)}", ctx.loc(f, n2))
    base2, lo2, hi2 = y2["slice"]
    w2 = _minus(hi2, lo2) if hi2 is not None else None
    if w2 is None:
        ck.unknown(R, f"encode_pdu: continuation slice `{show(lo2, 40)}:{show(hi2, 60)}` is not i : i + W", ctx.loc(f, n2))
        return
    x2, k2 = _less_const(w2)
    if x2 != FS:
        ck.unknown(R, f"encode_pdu: continuation slice width `{show(w2, 60)}` is not <{fs_param}> - K", ctx.loc(f, n2))
        return
    _bound(ctx, f, n2, "cont", k2, y2["size"], fs_param)

    # ---- every byte once: rest = body[W1:], offsets range(0, len(rest), W2), slice rest[i:i+W2]
    sb = _slice(base2)
    ok_rest = sb is not None and strip_sites(sb[0]) == strip_sites(base1) and sb[2] is None and sb[1] is not None and strip_sites(sb[1]) == strip_sites(hi1)
    ck.check(R, ok_rest, "the continuation data is body[W1:] where body[:W1] was the first fragment (same term W1)",
             f"{ctx.fkey(f)}:accounting:remainder",
             f"encode_pdu: first fragment takes {show(base1, 30)}[:{show(hi1, 40)}] but the continuation fragments are cut from {show(base2, 80)} - bytes are lost or repeated",
             ctx.loc(f, n2))
    loop = _loop_of(n2)
    heads = [x for x in (cfg.nodes_for(loop) if loop is not None else []) if x.kind == "for"]
    if len(heads) != 1 or len(_loops_of(n2)) != 1 or _loops_of(n1):
        ck.unknown(R, "encode_pdu: the continuation yield is not inside exactly one for-loop / the first yield is inside a loop", ctx.loc(f, n2))
        return
    h = heads[0]
    it = _loop_elem(T, cfg, h)
    rng = it[1] if it[0] == "iter" else None
    if not (strip_sites(it) == strip_sites(lo2) and rng is not None and _is_call_to(rng, "range") and len(rng[2]) == 3 and not rng[3]):
        ck.unknown(R, f"encode_pdu: continuation offset `{show(lo2, 80)}` is not the variable of `for i in range(start, stop, step)`", ctx.loc(f, n2))
        return
    start, stop, step = rng[2]
    ck.check(R, _ci(start) == 0 and _is_len_of(stop, base2), "continuation offsets run over range(0, len(rest), ...)",
             f"{ctx.fkey(f)}:accounting:range", f"encode_pdu: offsets are range({show(start)}, {show(stop, 60)}, ...) over {show(base2, 60)}", ctx.loc(f, h))
    ck.check(R, strip_sites(step) == strip_sites(w2), "the offset advances by exactly the slice width (same term): no byte skipped or repeated",
             f"{ctx.fkey(f)}:accounting:advance",
             f"encode_pdu: continuation fragments take {show(w2, 50)} bytes but the offset advances by {show(step, 50)} - "
             + ("bytes between fragments are repeated" if True else ""), ctx.loc(f, h))
    # control-flow shape: first fragment exactly once before the loop, one continuation per offset, header-only PDU exclusive
    p = cfg.find_path(cfg.entry.id, h.id, avoid_nodes=[n1.id])
    ck.check(R, p is None, "the first fragment is emitted on every path into the continuation loop",
             f"{ctx.fkey(f)}:shape:first-before-loop", "encode_pdu: the continuation loop is reachable without emitting the first fragment", ctx.loc(f, n1),
             cfg.render_path(p) if p else None)
    p = None
    for e in cfg.out_edges(h, ("T",)):
        if e[1] != n2.id:
            p = p or cfg.find_path(e[1], h.id, avoid_nodes=[n2.id])
    ck.check(R, p is None, "every offset of the loop emits its continuation fragment",
             f"{ctx.fkey(f)}:shape:cont-every-iteration", "encode_pdu: an iteration of the continuation loop can skip the yield", ctx.loc(f, n2),
             cfg.render_path(p) if p else None)
    for b in bares:
        nb = b["node"]
        p = cfg.find_path(nb.id, [n1.id, n2.id]) if nb.id not in (n1.id, n2.id) else None
        q = cfg.find_path(n1.id, nb.id)
        ok = p is None and q is None and b["fields"] == SPEC.BLE_REQUEST_HEADER[1] and strip_sites(b["args"]) == strip_sites(y1["args"][: len(b["args"])])
        ck.check(R, ok, f"a body-less request is the {b['size']}-byte request header alone and excludes the fragment path",
                 f"{ctx.fkey(f)}:shape:header-only", "encode_pdu: the header-only PDU is emitted in addition to / with other fields than the fragmented one", ctx.loc(f, nb))

    # ---- overhead of encryption
    _b1_overhead(ctx, wf, wcfg, wn, fs_term)


def _bound(ctx: Context, f, n, which: str, k: int, hdr: int, fs_param: str) -> None:
    ck = ctx.ck
    name = "first fragment" if which == "first" else "continuation fragment"
    if k < hdr:
        msg = (f"encode_pdu: {name} = {hdr} header bytes + body[..{fs_param} - {k}] = {fs_param} + {hdr - k} bytes for any body that fills it "
               f"(e.g. {fs_param}=20, body of 200 bytes -> {20 + hdr - k}-byte fragment): exceeds the negotiated size")
    else:
        msg = (f"encode_pdu: {name} subtracts {k} but only {hdr} header bytes are packed: for {fs_param} = {hdr + 1} the slice bound "
               f"{hdr + 1 - k} is {'negative and takes all but the tail of the body' if hdr + 1 - k < 0 else 'zero and no progress is made'}")
    ck.check("C17.B1", k == hdr, f"{name}: {hdr} packed header bytes + slice of width {fs_param} - {k} <= {fs_param} (K equals calcsize of the packed formats)",
             f"{ctx.fkey(f)}:{which}:bound", msg, ctx.loc(f, n))


def _b1_overhead(ctx: Context, wf, wcfg, wn, fs_term) -> None:
    ck = ctx.ck
    T = ctx.terms
    R = "C17.B1"
    df = ctx.func(DFS)
    dcfg = ctx.cfg(DFS)
    dcall = [s for s in subterms(fs_term) if _is_call_to(s, DFS)][0]
    names = df.pos_params
    amap = {names[i]: a for i, a in enumerate(dcall[2]) if i < len(names)}
    amap.update({k: v for k, v in dcall[3] if k})
    cands = [(p, a) for p, a in amap.items() if a[0] == "ifexp"]
    if len(cands) != 1:
        ck.unknown(R, f"_write_pdu: expected one conditional overhead argument of _determine_fragment_size, found {len(cands)}: {show(dcall, 140)}", ctx.loc(wf, wn))
        return
    ov, arg = cands[0]
    subject, pol = _presence(arg[1])
    present, absent = (arg[2], arg[3]) if pol else (arg[3], arg[2])
    ck.check(R, _ci(present) == SPEC.AEAD_TAG_LENGTH,
             f"with an encryption key the fragment size is reduced by {SPEC.AEAD_TAG_LENGTH} = length of the AEAD tag added to each fragment",
             f"{ctx.fkey(wf)}:overhead:tag-length",
             f"_write_pdu: overhead with a key is {show(present)}, the ChaCha20-Poly1305 tag is {SPEC.AEAD_TAG_LENGTH} bytes - an encrypted fragment "
             f"is {SPEC.AEAD_TAG_LENGTH - (_ci(present) or 0)} bytes larger than the negotiated size", ctx.loc(wf, wn))
    ck.check(R, _ci(absent) == 0, "without an encryption key no overhead is subtracted",
             f"{ctx.fkey(wf)}:overhead:absent", f"_write_pdu: overhead without a key is {show(absent)}", ctx.loc(wf, wn))
    # the argument flows into the subtraction
    OV = ("param", ov)
    subs = []
    for n in dcfg.nodes:
        a = n.ast
        if n.kind != "stmt":
            continue
        if isinstance(a, ast.AugAssign) and isinstance(a.op, ast.Sub) and T.of(dcfg, n, a.value) == OV:
            subs.append(n)
        elif isinstance(a, ast.Assign):
            t = T.of(dcfg, n, a.value)
            if t[0] == "binop" and t[1] == "Sub" and t[3] == OV:
                subs.append(n)
    _pres, absent_edges = _key_edges(ctx, dcfg, OV)
    gate = list(absent_edges)
    for s in subs:
        gate += ctx.normal_out(dcfg, s)
    rets = [n for n in dcfg.nodes if n.kind == "return"]
    if not rets:
        ck.unknown(R, "_determine_fragment_size: no return", df.loc())
    for r in rets:
        rt = T.of(dcfg, r, r.exprs[0]) if r.exprs else ("const", None)
        has_sub = any(a[0] == "binop" and a[1] == "Sub" and a[3] == OV for a in _alts(rt))
        if not has_sub:
            ck.violated(R, f"{ctx.fkey(df)}:overhead-not-in-result",
                        f"_determine_fragment_size: the returned size {show(rt, 120)} never has `{ov}` subtracted - encrypted fragments exceed the size by the tag",
                        ctx.loc(df, r), None, "the returned fragment size has the overhead subtracted")
            continue
        ctx.must_pass(R, dcfg, r, f"`size -= {ov}` [or {ov} == 0]", gate,
                      desc=f"_determine_fragment_size: every path to the return subtracts `{ov}` unless it is zero")
    # each fragment is sealed on its own, and only sealed fragments are written when a key is present
    ENC = f"{BLE_PDU}.encode_pdu"

    def is_frag(t):
        return t[0] == "iter" and _is_call_to(t[1], ENC)

    def is_enc(t):
        return t[0] == "call" and t[1][0] == "attr" and t[1][2] == "encrypt" and len(t[2]) == 1 and is_frag(t[2][0]) and strip_sites(t[1][1]) == strip_sites(subject)

    enc_nodes = []
    for n in wcfg.nodes:
        for c in ctx.calls(n):
            if isinstance(c.func, ast.Attribute) and c.func.attr == "encrypt":
                t = T.of(wcfg, n, c)
                if is_enc(t):
                    enc_nodes.append(n)
                else:
                    ck.violated(R, f"{ctx.fkey(wf)}:encrypt-shape",
                                f"_write_pdu: `{_u(c)[:70]}` = {show(t, 120)} is not <the key tested for the overhead>.encrypt(<one fragment of encode_pdu>) - "
                                "the 16-byte allowance is per fragment", ctx.loc(wf, n), None, "each fragment is encrypted separately with the key that reduced the size")
    ck.require_min(R, "_write_pdu: per-fragment encrypt sites", len(enc_nodes), 1)
    heads = [n for n in wcfg.nodes if n.kind == "for" and is_frag(_loop_elem(T, wcfg, n))]
    sinks = []  # (node, value term)
    for n, c in ctx.nodes_calling_name(wcfg, "write_gatt_char"):
        am = list(c.args) + [k.value for k in c.keywords if k.arg == "data"]
        if len(am) < 2:
            ck.unknown(R, "_write_pdu: write_gatt_char call without a data argument", ctx.loc(wf, n))
            continue
        darg = [k.value for k in c.keywords if k.arg == "data"][0] if any(k.arg == "data" for k in c.keywords) else c.args[1]
        lst = _list_feeding(ctx, wcfg, n, darg)
        if lst is None:
            sinks.append((n, T.of(wcfg, n, darg)))
        else:
            sinks += lst
    ck.require_min(R, "_write_pdu: values handed to write_gatt_char", len(sinks), 1)
    if len(heads) != 1:
        ck.unknown(R, f"_write_pdu: expected one loop over the fragments of encode_pdu, found {len(heads)}", wf.loc())
        return
    _p, absent_edges = _key_edges(ctx, wcfg, subject)
    gate = list(absent_edges)
    for n in enc_nodes:
        gate += ctx.normal_out(wcfg, n)
    for n, v in sinks:
        odd = [a for a in _alts(v) if not (is_frag(a) or is_enc(a))]
        if odd:
            ck.unknown(R, f"_write_pdu: written value {show(odd[0], 120)} is neither a fragment nor an encrypted fragment", ctx.loc(wf, n))
            continue
        ctx.must_pass(R, wcfg, n, "key.encrypt(fragment) [or no key]", gate, start=heads[0].id,
                      desc="_write_pdu: with a key every fragment reaches the write only through its own encrypt call")


def _list_feeding(ctx: Context, cfg, node, expr):
    """``expr`` is the loop variable of ``for x in <local list>``: the (node, term) of every value appended to that list; else None."""
    T = ctx.terms
    if not isinstance(expr, ast.Name):
        return None
    rd = T.du(cfg).reaching(node.id, expr.id)
    if len(rd) != 1 or rd[0][1].kind != "for" or rd[0][1].path:
        return None
    it = rd[0][1].value
    if not isinstance(it, ast.Name):
        return None
    hn = cfg.nodes[rd[0][0]]
    defs = T.du(cfg).reaching(hn.id, it.id)
    if len(defs) != 1 or defs[0][1].kind != "assign":
        return None
    v = defs[0][1].value
    if not (isinstance(v, ast.List) and not v.elts or isinstance(v, ast.Call) and isinstance(v.func, ast.Name) and v.func.id == "list" and not v.args):
        return None
    out = []
    for n in cfg.nodes:
        for c in ctx.calls(n):
            if (isinstance(c.func, ast.Attribute) and c.func.attr == "append" and isinstance(c.func.value, ast.Name) and c.func.value.id == it.id
                    and len(c.args) == 1 and _def_ids(T, cfg, n, it.id) == [defs[0][0]]):
                out.append((n, T.of(cfg, n, c.args[0])))
    return out
