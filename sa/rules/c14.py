"""C14  Values prepared for writing respect format, range and step."""

from __future__ import annotations

import ast

from ..engine.context import Context, compare_parts, is_membership
from ..engine.loader import dotted, walk_expr, walk_own
from ..engine.partial import PartialProfile, _unparse
from ..engine.report import norm_stmt
from ..engine.terms import ANY, Cap, contains, match, show, strip_sites, subterms

PROPERTY = "C14"
EXPLANATION = (
    "Static analysis of check_convert_value: (X1) with the decimal module's partial operations as raise sites - "
    "Decimal(x) on caller data raises InvalidOperation/TypeError/ValueError, and comparisons (max/min), arithmetic and "
    "int()/to_integral_value() on a Decimal built from caller data raise InvalidOperation/OverflowError/ValueError for "
    "NaN/Infinity unless dominated by an is_finite() guard - the escape set of the bool and number branches is "
    "{FormatError}; (G1) no assignment of a constant precision below 20 digits to a local decimal context is reachable "
    "on a path where the format may be an integer format (2^64-1 has 20 digits); (T1) shape: clamp to min/max precedes "
    "rounding, rounding mode ROUND_HALF_UP is set before the arithmetic, the rounded value is "
    "offset + to_integral((val-offset)/step)*step with offset = minValue or 0, integer formats end in int(), others in "
    "float(), bool yields 1/0, the format tables list exactly the HAP numeric formats; (G2) Service.build_update passes "
    "every payload value through check_convert_value. Quantifier: all paths and all exception classes - not values."
)
TRUSTED = ["decimal module semantics (signalling NaN comparisons, 28-digit default context)", "str() of any object does not raise"]

Q = "aiohomekit.model.characteristics.characteristic.check_convert_value"
FORMAT_ERROR = "aiohomekit.exceptions.FormatError"
INTEGER_FORMATS = {"uint8", "uint16", "uint32", "uint64", "int"}


class _Profile(PartialProfile):
    """decimal hazards in addition to the generic table"""

    def __init__(self, ctx):
        super().__init__("c14", {Q: {"c14": True}})
        self._ctx = ctx

    def _ops(self, ctx, cfg, n, sub, ops):
        yield from super()._ops(ctx, cfg, n, sub, ops)
        if cfg.func.qualname != Q:
            return
        f = cfg.func
        T = ctx.terms
        val = f.pos_params[0] if f.pos_params else None

        def raw_input(t) -> bool:
            """the caller's value itself (not yet converted) occurs in t"""
            if not isinstance(t, tuple) or not t:
                return False
            if t == ("param", val):
                return True
            if t[0] == "const":
                return False
            if t[0] == "call" and t[1] == ("glob", "decimal.Decimal"):
                return False
            return any(raw_input(x) for x in t if isinstance(x, tuple))

        if isinstance(sub, ast.Call) and sub.args and ctx.resolve_name(f, sub.func) == "decimal.Decimal":
            if raw_input(T.of(cfg, n, sub.args[0])):
                for cls in ("decimal.InvalidOperation", "TypeError", "ValueError"):
                    yield cls, None, "Decimal(<input>)"

        def from_input(e) -> bool:
            t = T.of(cfg, n, e)
            return contains(
                t,
                lambda s: s[0] == "call" and s[1] == ("glob", "decimal.Decimal") and s[2]
                and contains(s[2][0], lambda z: z == ("param", val)),
            )

        hazard = None
        if isinstance(sub, ast.Call) and isinstance(sub.func, ast.Name) and sub.func.id in ("max", "min") and any(from_input(a) for a in sub.args):
            hazard = (f"{sub.func.id}(…) on a Decimal built from the input", ("decimal.InvalidOperation",))
        elif isinstance(sub, ast.Call) and isinstance(sub.func, ast.Name) and sub.func.id == "int" and sub.args and from_input(sub.args[0]):
            hazard = ("int(…) of a Decimal built from the input", ("OverflowError", "ValueError"))
        elif isinstance(sub, ast.BinOp) and isinstance(sub.op, (ast.Sub, ast.Div, ast.Mult, ast.Add)) and (from_input(sub.left) or from_input(sub.right)):
            hazard = ("arithmetic on a Decimal built from the input", ("decimal.InvalidOperation",))
        if hazard is None:
            return
        guards = []
        for m in cfg.nodes:
            if m.kind != "test":
                continue
            e = m.exprs[0]
            if isinstance(e, ast.Call) and isinstance(e.func, ast.Attribute) and e.func.attr == "is_finite" and from_input_at(T, cfg, m, e.func.value, val):
                guards += cfg.out_edges(m, ("T",))
            if isinstance(e, ast.Call) and isinstance(e.func, ast.Attribute) and e.func.attr in ("is_nan", "is_infinite") and from_input_at(T, cfg, m, e.func.value, val):
                # a single is_nan / is_infinite test does not exclude the other; "neither" does: the false outcome of one of
                # them, where that test is itself reached only through the false outcome of a test of the other kind
                other = "is_infinite" if e.func.attr == "is_nan" else "is_nan"
                first = [e2 for m2 in cfg.nodes if m2.kind == "test" and m2.id != m.id and isinstance(m2.exprs[0], ast.Call) and isinstance(m2.exprs[0].func, ast.Attribute)
                         and m2.exprs[0].func.attr == other and from_input_at(T, cfg, m2, m2.exprs[0].func.value, val) for e2 in cfg.out_edges(m2, ("F",))]
                if first and cfg.find_path(cfg.entry.id, m.id, avoid_edges=first) is None:
                    guards += cfg.out_edges(m, ("F",))
        for cls in hazard[1]:
            yield cls, guards, hazard[0]


def from_input_at(T, cfg, node, e, val) -> bool:
    t = T.of(cfg, node, e)
    return contains(
        t,
        lambda s: s[0] == "call" and s[1] == ("glob", "decimal.Decimal") and s[2] and contains(s[2][0], lambda z: z == ("param", val)),
    )


def run(ctx: Context) -> None:
    ck = ctx.ck
    f = ctx.func(Q)
    if ck.rule("C14.X1", "only FormatError escapes the bool and number branches"):
        _x1(ctx)
    if ck.rule("C14.G1", "no low-precision decimal context on integer paths"):
        _g1(ctx)
    if ck.rule("C14.T1", "shape of clamp / rounding / finalisation"):
        _t1(ctx)
    if ck.rule("C14.G2", "build_update converts every value"):
        _g2(ctx)


def _x1(ctx: Context) -> None:
    ck = ctx.ck
    f = ctx.func(Q)
    prof = _Profile(ctx)
    prof.prepare(ctx)
    fl = ctx.flow_with(prof)
    cfg = fl.cfg(Q)
    ck.stats["c14_partial_sites"] = sorted({f"{s[2]} -> {s[3]} ({'guarded' if s[4] else 'raise site'})" for s in prof.sites})
    nsites = len(prof.sites)
    ck.require_min("C14.X1", "partial-operation sites in check_convert_value", nsites, 4)
    # region of interest: bool + number branches = everything except nodes under the data/tlv8 tests
    other = set()
    for n in cfg.nodes:
        if n.kind == "test":
            cp = compare_parts(n.exprs[0])
            if cp and cp[1] == "Eq":
                v = ctx.const(f, cp[2], None)
                if v in ("data", "tlv8"):
                    for e in cfg.out_edges(n, ("T",)):
                        other |= cfg.reachable_from(e[1], avoid_nodes=[x.id for x in cfg.nodes if x.kind == "test" and x.id != n.id and not cfg.in_region(x, "if", n.ast if False else None)]) & {
                            x.id for x in cfg.nodes if any(fr[0] == "if" and fr[2] == "body" and fr[1].test is n.exprs[0] for fr in x.frames)
                        }
    bad: dict[str, list] = {}
    for src, lab, exc in cfg.xexit.pred:
        if lab != "x" or exc == FORMAT_ERROR:
            continue
        # origin node: walk back over finally / with-exit copies that merely forward the exception
        cur = src
        for _ in range(10):
            nd = cfg.nodes[cur]
            if not nd.copy_of:
                break
            back = [s2 for (s2, l2, e2) in nd.pred if l2 == "x" and e2 == exc]
            if not back:
                break
            cur = back[0]
        if cur in other:
            continue
        if cfg.nodes[cur] not in bad.setdefault(exc, []):
            bad[exc].append(cfg.nodes[cur])
    if not bad:
        ck.holds("C14.X1", f"escapes(check_convert_value, bool+number branches) = {{FormatError}} over {nsites} partial-operation sites", f.loc())
    for exc, nodes in sorted(bad.items()):
        for n in nodes:
            what = next((s[2] for s in prof.sites if s[0] == Q and s[1] == n.lineno and s[3] == exc), n.text())
            ck.violated(
                "C14.X1",
                f"{ctx.fkey(f)}:escapes:{exc.rsplit('.', 1)[-1]}:{norm_stmt(what)}",
                f"check_convert_value lets {exc} escape from `{n.text()}` ({what}): an input that cannot be converted must fail with FormatError",
                ctx.loc(f, n),
                cfg.render_path(cfg.find_path(cfg.entry.id, n.id) or []) + [f"  -> raises {exc}, not caught"],
                "only FormatError escapes",
            )


def _g1(ctx: Context) -> None:
    ck = ctx.ck
    f = ctx.func(Q)
    cfg = ctx.cfg(Q)
    T = ctx.terms
    sites = 0
    # edges that certify "the format is not an integer format"
    int_types = ctx.prog.const_of("aiohomekit.model.characteristics.characteristic.INTEGER_TYPES")
    nonint_edges = []
    for n in cfg.nodes:
        if n.kind != "test":
            continue
        m = is_membership(n.exprs[0])
        if m is not None:
            coll = ctx.const(f, m[1], None)
            if coll is not None and set(coll) >= INTEGER_FORMATS and "float" not in set(coll):
                nonint_edges += cfg.out_edges(n, ("F",) if m[2] else ("T",))
            continue
        cp = compare_parts(n.exprs[0])
        if cp and cp[1] in ("Eq", "NotEq") and ctx.const(f, cp[2], None) == "float":
            nonint_edges += cfg.out_edges(n, ("T",) if cp[1] == "Eq" else ("F",))
            continue
        # the same membership question kept in a local (`is_integer = char.format in INTEGER_TYPES ... if not is_integer`)
        tt = strip_sites(T.of(cfg, n, n.exprs[0]))
        if tt[0] == "cmp" and tt[1] in (("In",), ("NotIn",)) and tt[2][1][0] == "const":
            try:
                coll = set(tt[2][1][1])
            except TypeError:
                coll = None
            if coll is not None and coll >= INTEGER_FORMATS and "float" not in coll:
                nonint_edges += cfg.out_edges(n, ("F",) if tt[1] == ("In",) else ("T",))
    for n in cfg.nodes:
        a = n.ast
        if n.kind == "stmt" and isinstance(a, ast.Assign) and len(a.targets) == 1 and isinstance(a.targets[0], ast.Attribute) and a.targets[0].attr == "prec":
            recv = T.of(cfg, n, a.targets[0].value)
            if not contains(recv, lambda s: s[0] == "call" and s[1][0] == "glob" and s[1][1] in ("decimal.localcontext", "decimal.getcontext", "decimal.Context")):
                continue
            sites += 1
            k = ctx.const(f, a.value, None)
            if not isinstance(k, int):
                ck.unknown("C14.G1", f"precision assigned is not a constant: `{n.text()}`", ctx.loc(f, n))
                continue
            if k >= 20:
                ck.holds("C14.G1", f"precision {k} >= 20 digits", ctx.loc(f, n))
                continue
            p = cfg.find_path(cfg.entry.id, n.id, avoid_edges=nonint_edges)
            ck.check(
                "C14.G1",
                p is None,
                f"`{n.text()}` only on paths where the format is not an integer format",
                f"{ctx.fkey(f)}:low-precision-on-integer-path",
                f"check_convert_value: a {k}-digit decimal context is entered for integer formats too: integers above 10^{k} "
                f"lose digits when rounded to the step (uint32, step 1, 16777217 -> 16777200)",
                ctx.loc(f, n),
                cfg.render_path(p) if p else None,
            )
    if sites == 0:
        # no reduced precision at all: then the default 28-digit context applies, which is exact for 64-bit integers
        ck.holds("C14.G1", "no local precision is assigned (default 28 digits)", f.loc())
    ck.check("C14.G1", set(int_types) == INTEGER_FORMATS, "INTEGER_TYPES lists exactly uint8/16/32/64 and int",
             "aiohomekit.model.characteristics.characteristic:INTEGER_TYPES", f"INTEGER_TYPES = {sorted(int_types)}", f.loc())
    num_types = ctx.prog.const_of("aiohomekit.model.characteristics.characteristic.NUMBER_TYPES")
    ck.check("C14.G1", set(num_types) == INTEGER_FORMATS | {"float"}, "NUMBER_TYPES = INTEGER_TYPES + float",
             "aiohomekit.model.characteristics.characteristic:NUMBER_TYPES", f"NUMBER_TYPES = {sorted(num_types)}", f.loc())


def _t1(ctx: Context) -> None:
    ck = ctx.ck
    f = ctx.func(Q)
    cfg = ctx.cfg(Q)
    T = ctx.terms
    val, char = (f.pos_params + [None, None])[:2]
    DEC = ("glob", "decimal.Decimal")

    def dec(x):
        return ("callpat", DEC, (x,), None)

    def cattr(name):
        return ("attr", ("param", char), name)

    # the conversion of the caller's value is exact: Decimal(<the value itself>) - no detour through a binary double
    convs = []
    for n in cfg.nodes:
        for c in ctx.calls(n):
            if ctx.resolve_name(f, c.func) == "decimal.Decimal" and c.args:
                t = strip_sites(T.of(cfg, n, c.args[0]))
                if contains(t, lambda s: s == ("param", val)) and not contains(t, lambda s: s[0] == "call" and s[1] == DEC):
                    convs.append((n, t))
    if not convs:
        ck.unknown("C14.T1", "check_convert_value: the Decimal conversion of the input was not found", f.loc())
    for n, t in convs:
        exact = t == ("param", val) or t == ("call", ("glob", "str"), (("param", val),), ())
        lossy = contains(t, lambda s: s[0] == "call" and s[1] in (("glob", "float"), ("glob", "int"), ("glob", "round")))
        ck.check("C14.T1", exact, "the input is converted with Decimal(<input>) itself (exact for integers of any magnitude)", f"{ctx.fkey(f)}:inexact-conversion",
                 f"check_convert_value converts the input through {show(t, 100)}"
                 + (": a binary double keeps only 53 significant bits, integer inputs above 2^53 (uint64) change value before clamping/rounding" if lossy else ""),
                 ctx.loc(f, n))
    # the rounding statement: X = offset + to_integral((v - offset) / step) * step
    # candidates by VALUE: every assignment whose value term contains the integral rounding of a quotient (the formula may be
    # split over temporaries - `steps = (..).to_integral_value(); x = offset + steps * step` - the term of the last one is whole)
    cands = []
    for n in cfg.nodes:
        if n.kind == "stmt" and isinstance(n.ast, ast.Assign):
            v0 = n.ast.value
            is_final = isinstance(v0, ast.Call) and isinstance(v0.func, ast.Name) and v0.func.id in ("int", "float")
            if is_final:
                continue
            t = strip_sites(T.of(cfg, n, v0))
            if contains(t, lambda s: s[0] == "call" and s[1][0] == "attr" and s[1][2] == "to_integral_value" and contains(s[1][1], lambda z: z[0] == "binop" and z[1] == "Div")):
                cands.append((n, t))
    if not cands:
        ck.unknown("C14.T1", "check_convert_value: the step-rounding statement was not found", f.loc())
        return
    OFF, STEP, V = Cap("off", structural=True), Cap("step", structural=True), Cap("v", structural=True)
    pat = ("add", (OFF, ("binop", "Mult", ("call", ("attr", ("binop", "Div", ("binop", "Sub", V, OFF), STEP), "to_integral_value"), (), ()), STEP)))
    pat2 = ("add", (OFF, ("binop", "Mult", STEP, ("call", ("attr", ("binop", "Div", ("binop", "Sub", V, OFF), STEP), "to_integral_value"), (), ()))))  # commuted product
    rounding = None
    b = None
    for n, t in sorted(cands, key=lambda x: x[0].lineno):
        b = match(pat, t) or match(pat2, t)
        if b is not None:
            rounding = (n, t)
            break
    if rounding is None:
        rounding = max(cands, key=lambda x: len(repr(x[1])))
    rn, rt = rounding
    ck.check("C14.T1", b is not None, "rounded value = offset + to_integral((val - offset) / step) * step (same offset, same step)",
             f"{ctx.fkey(f)}:rounding-formula", f"check_convert_value: rounding formula is {show(rt, 300)}", ctx.loc(f, rn))
    if b is not None:
        off, step, v = b["off"], b["step"], b["v"]
        ok_off = match(("call", DEC, (("ifexp", ("cmp", ("IsNot",), (cattr("minValue"), ("const", None))), cattr("minValue"), ("const", 0)),), ()), off) is not None
        # the same offset through a shared lower bound: L = Decimal(minValue) if minValue is not None else None; L if L is not None else Decimal(0)
        LOW = ("ifexp", ("cmp", ("IsNot",), (cattr("minValue"), ("const", None))), ("call", DEC, (cattr("minValue"),), ()), ("const", None))
        ok_off = ok_off or off == ("ifexp", ("cmp", ("IsNot",), (LOW, ("const", None))), LOW, ("call", DEC, (("const", 0),), ()))
        if not ok_off and off[0] == "phi":
            # the offset chosen by statements (`lower = Decimal(minValue) if .. else None` ... `if lower is not None: offset =
            # lower else: offset = Decimal(0)`): its possible values are exactly Decimal(minValue) and Decimal(0) (a `None`
            # that a test on the local excludes is not a value of the offset).  Which one is taken where is not re-derived
            # here (the choice is made through a local copy of the bound); a constant or foreign offset is still reported.
            def _arms(t_):
                if t_[0] in ("phi",):
                    return [a_ for x_ in t_[1] for a_ in _arms(x_)]
                if t_[0] == "ifexp":
                    return _arms(t_[2]) + _arms(t_[3])
                return [t_]

            vals = {a_ for a_ in _arms(off) if a_ != ("const", None)}
            ok_off = vals == {("call", DEC, (cattr("minValue"),), ()), ("call", DEC, (("const", 0),), ())}
        ck.check("C14.T1", ok_off, "offset = Decimal(minValue if minValue is not None else 0)", f"{ctx.fkey(f)}:offset",
                 f"check_convert_value: grid offset is {show(off, 160)}", ctx.loc(f, rn))
        ck.check("C14.T1", step == ("call", DEC, (cattr("minStep"),), ()), "step = Decimal(minStep)", f"{ctx.fkey(f)}:step",
                 f"check_convert_value: step is {show(step, 120)}", ctx.loc(f, rn))
        has_max = contains(v, lambda s: s[0] == "call" and s[1] == ("glob", "max") and ("call", DEC, (cattr("minValue"),), ()) in s[2])
        has_min = contains(v, lambda s: s[0] == "call" and s[1] == ("glob", "min") and ("call", DEC, (cattr("maxValue"),), ()) in s[2])
        if not (has_max and has_min) and contains(v, lambda s_: s_[0] == "phi"):
            # clamp written with comparisons: `if x <= lower: x = lower` / `if x >= upper: x = upper` before the rounding
            def mentions(t, a):
                return contains(t, lambda s_: s_ == ("call", DEC, (cattr(a),), ()))

            # only assignments to the variable that enters the rounding are clamps of it
            vnames = {x.id for x in ast.walk(rn.ast.value) if isinstance(x, ast.Name) and strip_sites(T.of(cfg, rn, x)) == v}
            is_v = lambda n_: not vnames or (isinstance(n_.ast.targets[0], ast.Name) and n_.ast.targets[0].id in vnames)  # noqa: E731
            lo_nodes = [n for n in cfg.nodes if n.kind == "stmt" and isinstance(n.ast, ast.Assign) and is_v(n) and mentions(strip_sites(T.of(cfg, n, n.ast.value)), "minValue")
                        and not mentions(strip_sites(T.of(cfg, n, n.ast.value)), "maxValue") and n.id != rn.id and cfg.find_path(n.id, rn.id) is not None and isinstance(n.ast.value, ast.Name)]
            hi_nodes = [n for n in cfg.nodes if n.kind == "stmt" and isinstance(n.ast, ast.Assign) and is_v(n) and mentions(strip_sites(T.of(cfg, n, n.ast.value)), "maxValue")
                        and not mentions(strip_sites(T.of(cfg, n, n.ast.value)), "minValue") and n.id != rn.id and cfg.find_path(n.id, rn.id) is not None and isinstance(n.ast.value, ast.Name)]

            def guarded(nodes, ops, bound):
                if not nodes:
                    return False
                for an in nodes:
                    es = []
                    for tn in cfg.nodes:
                        if tn.kind == "test":
                            tt = strip_sites(T.of(cfg, tn, tn.exprs[0]))
                            if tt[0] == "cmp" and len(tt[1]) == 1 and tt[1][0] in ops and mentions(tt[2][1], bound):
                                es += cfg.out_edges(tn, ("T",))
                    if not es or cfg.find_path(cfg.entry.id, an.id, avoid_edges=es) is not None:
                        return False
                return True

            has_max = guarded(lo_nodes, ("LtE", "Lt"), "minValue")
            has_min = guarded(hi_nodes, ("GtE", "Gt"), "maxValue")
        ck.check("C14.T1", has_max and has_min, "the value entering the rounding has been clamped to minValue and maxValue",
                 f"{ctx.fkey(f)}:clamp-before-rounding", f"check_convert_value: rounding input is {show(v, 300)} (clamp missing or after rounding)", ctx.loc(f, rn))
        # clamps are guarded by `is not None`
    # no clamp *after* rounding is required; but the order matters: a clamp after the rounding node would un-grid the value
    late = []
    for n in cfg.nodes:
        if n.id in cfg.reachable_from(rn.id) and n.id != rn.id:
            for c in ctx.calls(n):
                if isinstance(c.func, ast.Name) and c.func.id in ("max", "min"):
                    late.append(n)
    ck.check("C14.T1", not late, "no clamp after the rounding (the result stays on the grid)", f"{ctx.fkey(f)}:clamp-after-rounding",
             f"check_convert_value: `{late[0].text() if late else ''}` clamps after rounding: the result can leave the step grid", ctx.loc(f, late[0] if late else rn))
    # rounding mode
    modes = []
    for n in cfg.nodes:
        a = n.ast
        if n.kind == "stmt" and isinstance(a, ast.Assign) and isinstance(a.targets[0], ast.Attribute) and a.targets[0].attr == "rounding":
            modes.append((n, ctx.resolve_name(f, a.value)))
    okm = len(modes) == 1 and modes[0][1] == "decimal.ROUND_HALF_UP"
    if okm:
        okm = cfg.find_path(cfg.entry.id, rn.id, avoid_nodes=[modes[0][0].id]) is None
    ck.check("C14.T1", okm, "rounding mode ROUND_HALF_UP is set before the rounding arithmetic on every path",
             f"{ctx.fkey(f)}:rounding-mode", f"check_convert_value: rounding mode is {[m[1] for m in modes]} / not set before the arithmetic", ctx.loc(f, rn))
    # the arithmetic happens inside the local context
    in_ctx = any(fr[0] == "with" and fr[2] == "body" and any(
        isinstance(it.context_expr, ast.Call) and ctx.resolve_name(f, it.context_expr.func) == "decimal.localcontext" for it in fr[1].items) for fr in rn.frames)
    ck.check("C14.T1", in_ctx, "the rounding runs inside a local decimal context (the caller's context is not modified)",
             f"{ctx.fkey(f)}:local-context", "check_convert_value: rounding no longer runs in `with localcontext()`", ctx.loc(f, rn))
    # finalisation
    fin_int = fin_float = None
    for n in cfg.nodes:
        if (n.kind == "stmt" and isinstance(n.ast, ast.Assign)) or (n.kind == "return" and n.exprs):
            t = strip_sites(T.of(cfg, n, n.ast.value))
            if t[0] == "call" and t[1] == ("glob", "int") and len(t[2]) == 1 and t[2][0][0] == "call" and t[2][0][1][0] == "attr" and t[2][0][1][2] == "to_integral_value":
                fin_int = n
            if t[0] == "call" and t[1] == ("glob", "float") and len(t[2]) == 1 and n.id in cfg.reachable_from(rn.id) | {rn.id}:
                fin_float = n
    ok = fin_int is not None and fin_float is not None
    if ok:
        gate_int, gate_float = [], []
        for n in cfg.nodes:
            if n.kind == "test":
                m = is_membership(n.exprs[0])
                if m is not None:
                    coll = ctx.const(f, m[1], None)
                    if coll is not None and set(coll) == INTEGER_FORMATS:
                        gate_int += cfg.out_edges(n, ("T",) if m[2] else ("F",))
                        gate_float += cfg.out_edges(n, ("F",) if m[2] else ("T",))
                    continue
                tt = strip_sites(T.of(cfg, n, n.exprs[0]))  # the membership kept in a local
                # inside the number branch the formats are the integer formats and float: `format == float` is `format not in INTEGER`
                if tt[0] == "cmp" and tt[1] in (("Eq",), ("NotEq",)) and ("const", "float") in tt[2] and n.id in cfg.reachable_from(rn.id):
                    isf = tt[1] == ("Eq",)
                    gate_float += cfg.out_edges(n, ("T",) if isf else ("F",))
                    gate_int += cfg.out_edges(n, ("F",) if isf else ("T",))
                    continue
                if tt[0] == "cmp" and tt[1] in (("In",), ("NotIn",)) and tt[2][1][0] == "const":
                    try:
                        coll = set(tt[2][1][1])
                    except TypeError:
                        coll = None
                    if coll == INTEGER_FORMATS:
                        pos = tt[1] == ("In",)
                        gate_int += cfg.out_edges(n, ("T",) if pos else ("F",))
                        gate_float += cfg.out_edges(n, ("F",) if pos else ("T",))
        ok = cfg.find_path(cfg.entry.id, fin_int.id, avoid_edges=gate_int) is None and cfg.find_path(cfg.entry.id, fin_float.id, avoid_edges=gate_float) is None
        # every return of the number branch passes one of the two
        rets = [n for n in cfg.nodes if n.kind == "return" and n.id in cfg.reachable_from(rn.id)]
        for r in rets:
            if r.id not in (fin_int.id, fin_float.id) and cfg.find_path(rn.id, r.id, avoid_nodes=[fin_int.id, fin_float.id]) is not None:
                ok = False
    ck.check("C14.T1", ok, "integer formats end in int(val.to_integral_value()), others in float(val)", f"{ctx.fkey(f)}:finalisation",
             "check_convert_value: the int/float finalisation changed (integer formats must yield int, float must yield float)", f.loc())
    # bool branch returns 1/0
    def _arms01(t_):
        if t_[0] == "ifexp":
            return _arms01(t_[2]) + _arms01(t_[3])
        if t_[0] == "phi":
            return [a_ for x_ in t_[1] for a_ in _arms01(x_)]
        return [t_]

    # the return(s) whose value is 1 or 0 and nothing else, however the choice is written (conditional expression,
    # if/else into a temporary, two returns)
    bool_rets = [n for n in cfg.nodes if n.kind == "return" and n.exprs and n.exprs[0] is not None
                 and set(_arms01(strip_sites(T.of(cfg, n, n.exprs[0])))) <= {("const", 1), ("const", 0)}]
    vals01 = {a_ for n in bool_rets for a_ in _arms01(strip_sites(T.of(cfg, n, n.exprs[0])))}
    okb = vals01 == {("const", 1), ("const", 0)}
    if okb:
        gate = []
        for n in cfg.nodes:
            if n.kind == "test":
                cp = compare_parts(n.exprs[0])
                if cp and cp[1] == "Eq" and ctx.const(f, cp[2], None) == "bool":
                    gate += cfg.out_edges(n, ("T",))
        okb = bool(gate) and all(cfg.find_path(cfg.entry.id, br.id, avoid_edges=gate) is None for br in bool_rets)
        # and the bool outcome cannot reach any other return
        for e in gate:
            for r in [x for x in cfg.nodes if x.kind == "return" and x not in bool_rets]:
                if cfg.find_path(e[1], r.id) is not None:
                    okb = False
    ck.check("C14.T1", okb, "bool format yields exactly 1 or 0", f"{ctx.fkey(f)}:bool-branch",
             "check_convert_value: the bool branch no longer returns `1 if val else 0`", f.loc())
    # strtobool table
    sf = ctx.func("aiohomekit.model.characteristics.characteristic.strtobool")
    scfg = ctx.cfg(sf.qualname)
    tables = {}
    undecided = []

    def _returned_after(edge):
        """the constant returned on the straight-line code behind ``edge`` (assignments of constants followed), else None"""
        env, cur, seen = {}, edge[1], set()
        while cur not in seen:
            seen.add(cur)
            r = scfg.nodes[cur]
            if r.kind == "return":
                e_ = r.exprs[0] if r.exprs else None
                if isinstance(e_, ast.Name) and e_.id in env:
                    return env[e_.id]
                return ctx.const(sf, e_, None) if e_ is not None else None
            if r.kind == "stmt" and isinstance(r.ast, ast.Assign) and len(r.ast.targets) == 1 and isinstance(r.ast.targets[0], ast.Name):
                v_ = r.ast.value
                if isinstance(v_, ast.Constant):
                    env[r.ast.targets[0].id] = v_.value
                elif isinstance(v_, ast.Name) and v_.id in env:
                    env[r.ast.targets[0].id] = env[v_.id]
                else:
                    env.pop(r.ast.targets[0].id, None)
            elif r.kind not in ("stmt", "join", "block", "pass") and r.kind != "stmt":
                if r.kind == "test":
                    return None
            outs = [d for (d, l, x) in r.succ if l != "x"]
            if len(outs) != 1:
                return None
            cur = outs[0]
        return None

    for n in scfg.nodes:
        if n.kind == "test":
            m = is_membership(n.exprs[0])
            if m:
                coll = ctx.const(sf, m[1], None)
                for e in scfg.out_edges(n, ("T",)):
                    got = _returned_after(e)
                    if got is None or coll is None:
                        undecided.append(n)
                    else:
                        tables[got] = tables.get(got, set()) | set(coll)
    if undecided or not tables:
        ck.unknown("C14.T1", f"strtobool: what is returned for the words of `{undecided[0].text() if undecided else '<no membership test>'}` is not read", sf.loc())
    else:
        ck.check("C14.T1", tables.get(1) == {"y", "yes", "t", "true", "on", "1"} and tables.get(0) == {"n", "no", "f", "false", "off", "0"},
                 "strtobool truth tables", f"{ctx.fkey(sf)}:tables", f"strtobool tables are {tables}", sf.loc())


def _g2(ctx: Context) -> None:
    ck = ctx.ck
    q = "aiohomekit.model.services.service.Service.build_update"
    f = ctx.func(q)
    cfg = ctx.cfg(q)
    T = ctx.terms
    apps = []
    for n in cfg.nodes:
        for c in ctx.calls(n):
            if isinstance(c.func, ast.Attribute) and c.func.attr == "append" and c.args:
                apps.append((n, strip_sites(T.of(cfg, n, c.args[0]))))
    # the same list written as a comprehension (returned, or kept in a local first): its element, in loop-variable terms
    from ..engine.terms import comp_as_loop

    for n in cfg.nodes:
        if n.kind == "return" and n.exprs and n.exprs[0] is not None:
            cl = comp_as_loop(strip_sites(T.of(cfg, n, n.exprs[0])))
            if cl is not None and not cl[1]:
                apps.append((n, cl[0]))
    ok = bool(apps)
    for n, t in apps:
        good = False
        if t[0] == "tuple" and len(t[1]) == 3:
            v = t[1][2]
            if v[0] == "call" and v[1] == ("glob", Q) and len(v[2]) == 2:
                raw, ch = v[2]
                # raw = the payload value of this iteration, ch = self[char_type] of the same iteration
                good = raw[0] == "sub" and raw[1][0] == "iter" and ch[0] == "sub" and ch[1] == ("param", "self") and ch[2][0] == "sub" and ch[2][1] == raw[1]
                # ... or `for key in payload: check_convert_value(payload[key], self[key])`: value and characteristic of the same key
                good = good or (raw[0] == "sub" and raw[2][0] == "iter" and raw[2][1] == raw[1] and ch == ("sub", ("param", "self"), raw[2]))
                iid_ok = t[1][1] == ("attr", ch, "iid")
                good = good and iid_ok
        ok &= good
        ck.check("C14.G2", good, "build_update: every payload value is passed through check_convert_value with its own characteristic",
                 f"{ctx.fkey(f)}:unconverted", f"build_update appends {show(t, 200)}", ctx.loc(f, n))
    if not apps:
        ck.unknown("C14.G2", "build_update: no append found", f.loc())
    # the loop has no filter / early exit
    early = [x for x in walk_own(f.node) if isinstance(x, (ast.Break, ast.Continue))]
    ck.check("C14.G2", not early, "build_update: no item of the payload is skipped", f"{ctx.fkey(f)}:skips",
             "build_update skips payload items", f.loc())


MANIFEST = {
    "technique": "inter-procedural escape sets with the decimal module's partial operations as raise sites (guard-edge analysis), "
    "must-pass-through for the precision/rounding-mode statements, term pattern matching of the rounding formula",
    "level_text": "Static, all paths: decides the exception clause (only FormatError escapes the bool/number branches, including "
    "NaN/Infinity hazards) and the integer-exactness clause (no sub-20-digit context on integer paths), plus the shape of "
    "clamp/rounding/finalisation. 'Nearest grid point' as a numeric fact for all inputs is NOT decided by any static "
    "argument in reach; the shape rule is a necessary condition only.",
    "level_note": "Trusted: decimal semantics as tabulated (Decimal() conversion errors; NaN comparison/arithmetic signals; "
    "int(Infinity) overflows); str() never raises. The data/tlv8 branches are outside the property's numeric scope.",
}

TWIN_FILES = ["aiohomekit/model/characteristics/characteristic.py", "aiohomekit/model/services/service.py"]
_F = "aiohomekit/model/characteristics/characteristic.py"
VARIANTS = [
    {"name": "only ValueError caught around Decimal() (pinned defect)", "file": _F,
     "old": "        except (ValueError, TypeError, InvalidOperation):", "new": "        except ValueError:", "expect": "C14.X1"},
    {"name": "finite guard removed", "file": _F,
     "old": "        if not val.is_finite():\n", "new": "        if False:\n", "expect": "C14.X1"},
    {"name": "bool conversion error not translated", "file": _F,
     "old": "        try:\n            val = strtobool(str(val))\n        except ValueError:\n            raise FormatError(f'\"{val}\" is no valid \"{char.format}\"!')",
     "new": "        val = strtobool(str(val))", "expect": "C14.X1"},
    {"name": "6-digit context for all formats (pinned defect)", "file": _F,
     "old": "                if char.format not in INTEGER_TYPES:\n", "new": "                if True:\n", "expect": "C14.G1"},
    {"name": "ROUND_HALF_EVEN", "file": _F, "old": "                ctx.rounding = ROUND_HALF_UP", "new": "                ctx.rounding = ROUND_HALF_EVEN", "expect": "C14.T1"},
    {"name": "offset dropped from the sum", "file": _F,
     "old": "val = offset + (((val - offset) / min_step).to_integral_value() * min_step)", "new": "val = ((val - offset) / min_step).to_integral_value() * min_step", "expect": "C14.T1"},
    {"name": "grid counted from zero", "file": _F,
     "old": "offset = Decimal(char.minValue if char.minValue is not None else 0)", "new": "offset = Decimal(0)", "expect": "C14.T1"},
    {"name": "clamp after rounding", "file": _F,
     "old": "        if char.format in INTEGER_TYPES:\n            val = int(val.to_integral_value())",
     "new": "        if char.maxValue is not None:\n            val = min(Decimal(char.maxValue), val)\n        if char.format in INTEGER_TYPES:\n            val = int(val.to_integral_value())", "expect": "C14.T1"},
    {"name": "integers returned as float", "file": _F, "old": "            val = int(val.to_integral_value())", "new": "            val = float(val.to_integral_value())", "expect": "C14.T1"},
    {"name": "bool returns the truth value itself", "file": _F, "old": "        return 1 if val else 0", "new": "        return bool(val)", "expect": "C14.T1"},
    {"name": "build_update bypasses the conversion", "file": "aiohomekit/model/services/service.py",
     "old": "            value = check_convert_value(value, char)\n", "new": "", "expect": "C14.G2"},
]
