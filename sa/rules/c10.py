"""C10  Reconnection keeps trying with bounded back-off and a single connector."""

from __future__ import annotations

import ast
import math

from ..engine.context import Context
from ..engine.excflow import INTERRUPT_CMS, TIMEOUT_CMS
from ..engine.loader import dotted, walk_expr
from ..engine.report import norm_stmt
from ..engine.resolve import TASK_SPAWNERS
from ..engine.terms import strip_sites, subterms

PROPERTY = "C10"
EXPLANATION = (
    "Structural analysis of the IP reconnect machinery on the CFG with exception edges: (G1) every edge leaving the "
    "`while not self.closing` loop of HomeKitConnection._reconnect is classified - only the success return, the bare "
    "re-raise in the AuthenticationError handler, the loop condition and exception classes not derived from Exception "
    "leave it, and a generic Exception raised by the attempt is caught inside the loop; (G2) every cycle of the loop "
    "(path loop head -> loop head) that does not pass the `await asyncio.sleep(..)` node passes the true outcome of "
    "both `len(F) > n0` (n0 = len(F) sampled before the attempt in the same iteration, F the failed-host set) and "
    "`any(normalised host not in F)`, the same predicate _get_connect_hosts filters with, and F only shrinks when every "
    "host is in it or the host list was replaced; (B1) interval analysis of the recurrence that defines the sleep "
    "argument (initial constant outside the loop, one in-loop definition min(c, f*x) preceding the sleep on every path) "
    "gives a value in (0, 60] with f > 1; (G3) the sleep sits inside interrupt(self._reconnect_future, ..) on a future "
    "created in the same iteration, every way out of that region resets the attribute, and reconnect_soon completes it "
    "only when it exists and is not done; (W1) one _reconnect() call site behind the 'connector running or connected' "
    "guard, _connect_once called only by _reconnect, lock tested and held around the whole loop; (G4) the connector is "
    "awaited only through asyncio.shield and the pairing waits under asyncio_timeout(positive constant) whose timeout "
    "can only end in AccessoryDisconnectedError; (G5) the filtered host list is returned only when non-empty and every "
    "replacement of the host list is followed by clearing F; (G6) close() sets the closing flag before stopping the "
    "connector, a lost connection restarts the connector only when not closing, and the pairing-level triggers are "
    "guarded by `not self._shutdown`.  Quantifier: all CFG paths / all cycles / all exception classes of the escape "
    "fix-point and all call sites in the package - not sampled schedules."
)
TRUSTED = [
    "asyncio.sleep(d) suspends for at least d seconds of loop time unless cancelled; async_interrupt.interrupt(fut, Exc, msg) "
    "raises Exc inside its body only when fut is completed by someone else",
    "asyncio.shield protects the inner task from the cancellation of the outer await; asyncio.timeout(c) raises "
    "TimeoutError after c seconds",
    "asyncio.Lock.locked() followed by `async with lock` without an intervening await cannot block (single-threaded loop)",
    "callers outside the package (Home Assistant) use the documented pairing API only",
]

M = "aiohomekit.controller.ip.connection"
HC = f"{M}.HomeKitConnection"
SHC = f"{M}.SecureHomeKitConnection"
IPP = "aiohomekit.controller.ip.pairing.IpPairing"
AUTH = "aiohomekit.exceptions.AuthenticationError"
DISCONNECTED = "aiohomekit.exceptions.AccessoryDisconnectedError"
SELF = ("param", "self")
CAP = 60
SHUTDOWN_ATTR = "_shutdown"  # AbstractPairing state named by the property
CONNECTED_PROP = "is_connected"
SHRINKERS = {"clear", "discard", "remove", "pop", "difference_update", "intersection_update", "symmetric_difference_update"}


# ---------------------------------------------------------------------- small helpers
def _short(q: str) -> str:
    return q.rsplit(".", 1)[-1]


def _self_attr(t):
    """term is self.<name> -> name"""
    if isinstance(t, tuple) and len(t) == 3 and t[0] == "attr" and t[1] == SELF and isinstance(t[2], str):
        return t[2]
    return None


def _uniq(nodes):
    out, seen = [], set()
    for n in nodes:
        if n.id not in seen:
            seen.add(n.id)
            out.append(n)
    return out


def _resolved(ctx: Context, f, e) -> str | None:
    d = dotted(e)
    return ctx.prog.resolve_dotted(f.module, d) if d else None


def _await_calls(node):
    for e in node.exprs:
        if e is None:
            continue
        for sub in walk_expr(e):
            if isinstance(sub, ast.Await) and isinstance(sub.value, ast.Call):
                yield sub.value


def _awaits(node):
    for e in node.exprs:
        if e is None:
            continue
        for sub in walk_expr(e):
            if isinstance(sub, ast.Await):
                yield sub


def _canon(t):
    """Structural form: call sites stripped, comprehension variables numbered by first appearance."""
    names: dict = {}

    def go(x):
        if not isinstance(x, tuple):
            return x
        if len(x) == 2 and x[0] == "cvar":
            return ("cvar", names.setdefault(x[1], len(names)))
        if x and x[0] == "const":
            return x
        return tuple(go(y) for y in x)

    return go(strip_sites(t))


def _mentions(t, sub) -> bool:
    return any(s == sub for s in subterms(t))


def _cycle(cfg, head, avoid_nodes=(), avoid_edges=()):
    """A path head -> ... -> head (at least one edge) avoiding nodes/edges, or None."""
    avoid_edges = set(avoid_edges)
    for d, lab, exc in head.succ:
        if (head.id, d, lab, exc) in avoid_edges or d in avoid_nodes:
            continue
        if d == head.id:
            return [(head.id, lab, exc), (head.id, None, None)]
        p = cfg.find_path(d, head.id, avoid_nodes=avoid_nodes, avoid_edges=avoid_edges)
        if p is not None:
            return [(head.id, lab, exc)] + p
    return None


def _site_nodes(ctx: Context, cfg, site):
    """CFG nodes that evaluate the call with this value number (definition site)."""
    out = []
    if not (isinstance(site, tuple) and len(site) == 3) or site[0] != _short(cfg.func.qualname):
        return out
    for n in cfg.nodes:
        for c in ctx.calls(n):
            if (getattr(c, "lineno", None), getattr(c, "col_offset", None)) == (site[1], site[2]):
                out.append(n)
    return _uniq(out)


def _truth_edges(ctx: Context, cfg, is_subject, truthy: bool, nodes=None) -> list:
    """Out-edges certifying that a subject term is truthy / not None (or falsy / None)."""
    edges = []
    for n in nodes if nodes is not None else cfg.nodes:
        if n.kind != "test":
            continue
        t = ctx.terms.of(cfg, n, n.exprs[0])
        if is_subject(t):
            edges += ctx.edges(cfg, n, "T" if truthy else "F")
        elif t[0] == "cmp" and len(t[1]) == 1 and t[1][0] in ("Is", "IsNot") and ("const", None) in t[2]:
            other = t[2][0] if t[2][1] == ("const", None) else t[2][1]
            if is_subject(other):
                not_none = t[1][0] == "IsNot"
                edges += ctx.edges(cfg, n, "T" if not_none == truthy else "F")
    return edges


def _call_edges(ctx: Context, cfg, is_recv, meth: str, outcome: str, nodes=None) -> list:
    """Out-edges (T or F) of tests of the form <recv>.<meth>()."""
    edges = []
    for n in nodes if nodes is not None else cfg.nodes:
        if n.kind != "test":
            continue
        t = ctx.terms.of(cfg, n, n.exprs[0])
        if t[0] == "call" and t[1][0] == "attr" and t[1][2] == meth and not t[2] and is_recv(t[1][1]):
            edges += ctx.edges(cfg, n, outcome)
    return edges


def _attr_assigns(cfg, attr: str, recv: str = "self"):
    """Statement nodes assigning <recv>.<attr> -> [(node, value expr)]"""
    out = []
    for n in cfg.nodes:
        a = n.ast
        if n.kind != "stmt":
            continue
        if isinstance(a, ast.Assign):
            tgts, val = a.targets, a.value
        elif isinstance(a, ast.AnnAssign) and a.value is not None:
            tgts, val = [a.target], a.value
        else:
            continue
        for t in tgts:
            for tt in t.elts if isinstance(t, (ast.Tuple, ast.List)) else [t]:
                if isinstance(tt, ast.Attribute) and tt.attr == attr and isinstance(tt.value, ast.Name) and tt.value.id == recv:
                    out.append((n, val))
    return out


def _top_functions(ctx: Context):
    return [g for g in ctx.prog.package_functions() if g.parent is None and not isinstance(g.node, ast.Lambda)]


def _sweep_calls(ctx: Context, attrs):
    """Every call <x>.<attr>(..) in the package (nested functions and lambdas included) -> (owner func, call)."""
    for g in _top_functions(ctx):
        for n in ast.walk(g.node):
            if isinstance(n, ast.Call) and isinstance(n.func, ast.Attribute) and n.func.attr in attrs:
                yield g, n


def _is_super_call(call: ast.Call) -> bool:
    v = call.func.value if isinstance(call.func, ast.Attribute) else None
    return isinstance(v, ast.Call) and isinstance(v.func, ast.Name) and v.func.id == "super"


# ---------------------------------------------------------------------- model of the reconnect loop
class _LoopModel:
    pass


def _build_loop(ctx: Context):
    f = ctx.func(f"{HC}._reconnect")
    cfg = ctx.cfg(f.qualname)
    attempts = _uniq([n for n, _c in ctx.nodes_calling_name(cfg, "_connect_once")])
    if not attempts:
        return "_reconnect no longer calls _connect_once"
    loops = [fr[1] for fr in attempts[0].frames if fr[0] == "loop" and fr[2] == "body"]
    if not loops or not isinstance(loops[0], ast.While):
        return "the connection attempt in _reconnect is not inside a while loop"
    loop_ast = loops[0]
    for a in attempts:
        if not any(fr[0] == "loop" and fr[1] is loop_ast and fr[2] == "body" for fr in a.frames):
            return "a call of _connect_once in _reconnect is outside the reconnect loop"
    heads = [n for n in cfg.nodes_for(loop_ast) if n.kind == "loop_head"]
    if len(heads) != 1:
        return "reconnect loop head not found"
    lm = _LoopModel()
    lm.f, lm.cfg, lm.loop_ast, lm.head, lm.attempts = f, cfg, loop_ast, heads[0], attempts
    cond_ids = {id(x) for x in ast.walk(loop_ast.test)}
    lm.cond_tests = [n for n in cfg.nodes if n.kind == "test" and n.exprs and id(n.exprs[0]) in cond_ids]
    lm.body = {n.id for n in cfg.nodes if any(fr[0] == "loop" and fr[1] is loop_ast and fr[2] == "body" for fr in n.frames)}
    lm.members = lm.body | {lm.head.id} | {t.id for t in lm.cond_tests}
    # `while not self.<flag>`: one atomic test on an attribute of self whose false outcome enters the body
    lm.closing_attr = None
    if len(lm.cond_tests) == 1:
        t = lm.cond_tests[0]
        a = _self_attr(ctx.terms.of(cfg, t, t.exprs[0]))
        into = {lab for (d, lab, _e) in t.succ if d in lm.body}
        out = {lab for (d, lab, _e) in t.succ if d not in lm.members}
        if a and into == {"F"} and out == {"T"}:
            lm.closing_attr = a
    lm.sleeps = []
    for nid in sorted(lm.body):
        n = cfg.nodes[nid]
        for c in _await_calls(n):
            if _resolved(ctx, f, c.func) == "asyncio.sleep":
                lm.sleeps.append((n, c))
    return lm


def _loop(ctx: Context, rule: str):
    cached = getattr(ctx, "_c10_loop", None)
    if cached is None:
        cached = _build_loop(ctx)
        ctx._c10_loop = cached
    if isinstance(cached, str):
        ctx.ck.unknown(rule, cached, ctx.func(f"{HC}._reconnect").loc())
        return None
    return cached


def _handler_of(cfg, node):
    """Innermost except-handler whose body contains the node -> (handler ast, handler CFG node) or (None, None)."""
    for fr in reversed(node.frames):
        if fr[0] == "try" and isinstance(fr[2], tuple) and fr[2][0] == "handler":
            hs = [n for n in cfg.nodes_for(fr[2][1]) if n.kind == "handler"]
            return fr[2][1], (hs[0] if hs else None)
    return None, None


def run(ctx: Context) -> None:
    ck = ctx.ck
    if ck.rule("C10.G1", "exits of the reconnect loop: success, authentication failure, close, cancellation - nothing else"):
        _g1(ctx)
    if ck.rule("C10.G2", "no busy loop: a retry without back-off needs a newly failed address and an untried one"):
        _g2(ctx)
    if ck.rule("C10.B1", "back-off delay: growing, in (0, 60]"):
        _b1(ctx)
    if ck.rule("C10.G3", "the back-off sleep is interruptible and its wake-up handle does not leak"):
        _g3(ctx)
    if ck.rule("C10.W1", "single connector"):
        _w1(ctx)
    if ck.rule("C10.G4", "waiting callers: shielded connector, bounded wait, disconnection error"):
        _g4(ctx)
    if ck.rule("C10.G5", "no advertised address is excluded forever"):
        _g5(ctx)
    if ck.rule("C10.G6", "no attempt after close / shutdown"):
        _g6(ctx)
    if ck.rule("C10.G7", "a deliberately dropped connection does not restart the connector"):
        _g7(ctx)


# ---------------------------------------------------------------------- G1
def _exit_origins(cfg, lm, u, mode: str, exc):
    """Walk an exit edge back over copies of finally bodies / with exits to the statement that caused it."""
    out, seen, work = [], set(), [u]
    while work:
        n = work.pop()
        if n.id in seen:
            continue
        seen.add(n.id)
        if not n.copy_of or n.copy_of == "normal":
            out.append(n)
            continue
        preds = []
        for s, lab, e in n.pred:
            if s not in lm.members:
                continue
            if mode == "exc":
                if (lab == "x" and e == exc) or (lab != "x" and cfg.nodes[s].copy_of == n.copy_of):
                    preds.append(s)
            elif lab != "x":
                preds.append(s)
        if not preds:
            out.append(n)
        work.extend(cfg.nodes[s] for s in preds)
    return _uniq(out)


def _is_auth_reraise(ctx: Context, lm, o, exc) -> bool:
    if o.kind != "raise" or o.ast.exc is not None:
        return False
    _h, hn = _handler_of(lm.cfg, o)
    if hn is None or not hn.handler_classes:
        return False
    p = ctx.prog
    return all(p.is_subclass(c, AUTH) for c in hn.handler_classes) and p.is_subclass(exc, AUTH)


def _is_success_return(ctx: Context, lm, o) -> bool:
    if o.kind != "return":
        return False
    if any(o.id == a.id for a in lm.attempts):
        return True
    gate = []
    for a in lm.attempts:
        gate += ctx.normal_out(lm.cfg, a)
    return lm.cfg.find_path(lm.head.id, o.id, avoid_edges=gate) is None


def _witness_to(lm, o, extra=None):
    cfg = lm.cfg
    p = cfg.find_path(lm.head.id, o.id) or cfg.find_path(cfg.entry.id, o.id)
    w = cfg.render_path(p) if p else [f"{lm.f.module.relpath}:{o.lineno}: {o.text()}"]
    if extra:
        w = w + [extra]
    return w


def _g1(ctx: Context) -> None:
    ck = ctx.ck
    lm = _loop(ctx, "C10.G1")
    if lm is None:
        return
    cfg, f, prog = lm.cfg, lm.f, ctx.prog
    fk = ctx.fkey(f)
    cond_ids = {t.id for t in lm.cond_tests}
    n_cond = n_succ = n_auth = 0
    base: dict[str, int] = {}
    bad_exc: dict[int, set] = {}
    live = cfg.reachable_from(cfg.entry.id)
    for nid in sorted(lm.members):
        if nid not in live:
            continue  # (e.g. the release inside `finally: if not connected: ...` on the return copy, where connected is True)
        u = cfg.nodes[nid]
        for d, lab, exc in u.succ:
            if d in lm.members:
                continue
            if lab == "x":
                if prog.known_class(exc) and not prog.is_subclass(exc, "Exception"):
                    base[exc] = base.get(exc, 0) + 1
                    continue
                bad = [o for o in _exit_origins(cfg, lm, u, "exc", exc) if not _is_auth_reraise(ctx, lm, o, exc)]
                if not bad:
                    n_auth += 1
                    continue
                for o in bad:
                    bad_exc.setdefault(o.id, set()).add(exc)
            else:
                if nid in cond_ids:
                    n_cond += 1
                    continue
                bad = [o for o in _exit_origins(cfg, lm, u, "jump", None) if not _is_success_return(ctx, lm, o)]
                if not bad:
                    n_succ += 1
                    continue
                o = bad[0]
                ck.violated(
                    "C10.G1",
                    f"{fk}:loop-exit:{norm_stmt(o.text())}",
                    f"_reconnect: `{o.text()}` leaves the reconnect loop although no connection attempt has succeeded",
                    ctx.loc(f, o),
                    _witness_to(lm, o, "  -> leaves the loop"),
                    "the loop is left normally only by the success return or the loop condition",
                )
    for oid, classes in sorted(bad_exc.items()):
        o = cfg.nodes[oid]
        _h, hn = _handler_of(cfg, o)
        where = ("in-except-" + "-".join(_short(c) for c in (hn.handler_classes or ["all"]))) if hn is not None else "in-body"
        names = sorted(_short(c) for c in classes)
        ck.violated(
            "C10.G1",
            f"{fk}:loop-exit:{where}:{norm_stmt(o.text())}",
            f"_reconnect: `{o.text()}` ends the reconnect loop with {', '.join(names)}; only the success return, the "
            "re-raise of an authentication failure, the closing flag and cancellation may end the retries",
            ctx.loc(f, o),
            _witness_to(lm, o, f"  -> leaves the loop raising {names[0]}"),
            "no Exception other than an authentication failure leaves the reconnect loop",
        )
    if n_cond > 0 and lm.closing_attr:
        ck.holds("C10.G1", f"exit 1: the loop condition `not self.{lm.closing_attr}`", ctx.loc(f, lm.loop_ast))
    else:
        ck.unknown("C10.G1", "the reconnect loop is not of the form `while not self.<flag>`", ctx.loc(f, lm.loop_ast))
    ck.check("C10.G1", n_succ > 0, "exit 2: return after `await self._connect_once()` completed normally", f"{fk}:no-success-return",
             "_reconnect: a successful attempt does not end the reconnect loop", ctx.loc(f, lm.loop_ast))
    ck.check("C10.G1", n_auth > 0, "exit 3: bare re-raise inside the AuthenticationError handler", f"{fk}:no-auth-reraise",
             "_reconnect: an authentication failure is not re-raised out of the reconnect loop", ctx.loc(f, lm.loop_ast))
    for exc, k in sorted(base.items()):
        ck.holds("C10.G1", f"exit 4: {_short(exc)} (not derived from Exception) leaves the loop on {k} edge(s)", ctx.loc(f, lm.loop_ast))
    ck.require_min("C10.G1", "classified exit edges of the reconnect loop", n_cond + n_succ + n_auth + sum(base.values()), 4)
    # a generic Exception raised by the attempt is caught inside the loop
    for a in lm.attempts:
        li = max(i for i, fr in enumerate(a.frames) if fr[0] == "loop" and fr[1] is lm.loop_ast)
        tries = [fr[1] for fr in a.frames[li + 1:] if fr[0] == "try" and fr[2] == "body"]
        caught = None
        for t in reversed(tries):
            for h in t.handlers:
                hn = next((n for n in cfg.nodes_for(h) if n.kind == "handler"), None)
                if hn is None:
                    continue
                classes = hn.handler_classes
                if classes is None or any(c in ("Exception", "BaseException") for c in classes):
                    reach = cfg.reachable_from(hn.id)
                    passes_on = any(
                        n.kind == "raise" and n.id in reach and _handler_of(cfg, n)[0] is h
                        and (n.ast.exc is None or (isinstance(n.ast.exc, ast.Name) and n.ast.exc.id == h.name))
                        for n in cfg.nodes
                    )
                    if not passes_on:
                        caught = hn
                    break
            if caught is not None:
                break
        ck.check(
            "C10.G1",
            caught is not None,
            "an arbitrary Exception raised by the attempt reaches an `except Exception` handler inside the loop that does not pass it on",
            f"{fk}:no-catch-all",
            "_reconnect: no handler for `Exception` around `_connect_once()` inside the loop: an unexpected exception ends the retries",
            ctx.loc(f, a),
        )
        if caught is not None:
            stops = {cfg.exit.id, cfg.xexit.id}
            p = cfg.find_path(caught.id, stops, avoid_nodes={lm.head.id},
                              edge_ok=lambda u, d, l, e: not (l == "x" and prog.known_class(e) and not prog.is_subclass(e, "Exception")))
            ck.check(
                "C10.G1",
                p is None,
                "from the `except Exception` handler every path returns to the loop head",
                f"{fk}:catch-all-leaves",
                "_reconnect: the handler for unexpected exceptions can end the reconnect loop",
                ctx.loc(f, caught),
                cfg.render_path(p) if p else None,
            )


# ---------------------------------------------------------------------- host filter model (_get_connect_hosts)
class _HostsModel:
    pass


def _filtered_comps(t):
    """Comprehension sub-terms with one generator over self.<H> filtered by `X not in self.<F>`."""
    out = []
    for s in subterms(t):
        if s[0] != "comp" or len(s[3]) != 1:
            continue
        _tgt, it, conds = s[3][0]
        h = _self_attr(it)
        if h is None or len(conds) != 1:
            continue
        c = conds[0]
        if c[0] == "cmp" and c[1] == ("NotIn",) and _self_attr(c[2][1]) is not None:
            out.append((s, h, _self_attr(c[2][1]), c))
    return out


def _build_hosts(ctx: Context):
    f = ctx.func(f"{HC}._get_connect_hosts")
    cfg = ctx.cfg(f.qualname)
    found = {}
    for n in cfg.nodes:
        if n.kind != "return" or not n.exprs:
            continue
        for s, h, fa, cond in _filtered_comps(ctx.terms.of(cfg, n, n.exprs[0])):
            found[_canon(s)] = (h, fa, cond)
    if len(found) != 1:
        return f"_get_connect_hosts: expected one returned list filtered by `.. not in self.<failed hosts>`, found {len(found)}"
    hm = _HostsModel()
    hm.f, hm.cfg = f, cfg
    hm.filtered = next(iter(found))
    hm.H, hm.F, cond = found[hm.filtered]
    hm.pred = _canon(cond)
    return hm


def _hosts(ctx: Context, rule: str):
    cached = getattr(ctx, "_c10_hosts", None)
    if cached is None:
        cached = _build_hosts(ctx)
        ctx._c10_hosts = cached
    if isinstance(cached, str):
        ctx.ck.unknown(rule, cached, ctx.func(f"{HC}._get_connect_hosts").loc())
        return None
    return cached


# ---------------------------------------------------------------------- G2
def _len_of_attr(t, attr: str):
    """term is len(self.<attr>) -> its call site"""
    if t[0] == "call" and len(t) == 5 and t[1] == ("glob", "len") and len(t[2]) == 1 and not t[3] and _self_attr(t[2][0]) == attr:
        return t[4]
    return None


def _g2(ctx: Context) -> None:
    ck = ctx.ck
    lm = _loop(ctx, "C10.G2")
    if lm is None:
        return
    cfg, f = lm.cfg, lm.f
    fk = ctx.fkey(f)
    T = ctx.terms
    sleeps = {n.id for n, _c in lm.sleeps}
    if not sleeps:
        ck.violated("C10.G2", f"{fk}:no-backoff-sleep", "_reconnect: the reconnect loop contains no `await asyncio.sleep(..)`: every failure retries at once",
                    ctx.loc(f, lm.loop_ast), cfg.render_path(_cycle(cfg, lm.head) or []), "every retry cycle sleeps")
        return
    ck.require_min("C10.G2", "back-off sleeps in the reconnect loop", len(sleeps), 1)
    free = _cycle(cfg, lm.head, avoid_nodes=sleeps)
    if free is None:
        ck.holds("C10.G2", "every cycle of the reconnect loop passes the back-off sleep (there is no immediate retry)", ctx.loc(f, lm.loop_ast))
        return
    hm = _hosts(ctx, "C10.G2")
    if hm is None:
        return
    att = {a.id for a in lm.attempts}
    members = [cfg.nodes[i] for i in sorted(lm.members)]
    gate_a, gate_b = [], []
    for n in members:
        if n.kind != "test":
            continue
        t = T.of(cfg, n, n.exprs[0])
        # (a) len(F) > n0
        if t[0] == "cmp" and len(t[1]) == 1 and t[1][0] in ("GtE", "LtE") and len(t[2]) == 2:
            # integers: `a >= b + 1` is `a > b`, `b + 1 <= a` is `b < a`
            gi = 1 if t[1][0] == "GtE" else 0
            g_ = t[2][gi]
            if g_[0] == "add" and len(g_[1]) == 2 and ("const", 1) in g_[1]:
                other_ = [p_ for p_ in g_[1] if p_ != ("const", 1)][0]
                t = ("cmp", ("Gt",) if t[1][0] == "GtE" else ("Lt",), (t[2][0], other_) if gi == 1 else (other_, t[2][1]))
        if t[0] == "cmp" and len(t[1]) == 1 and t[1][0] in ("Gt", "Lt", "LtE", "GtE"):
            # `a > b` [true], `b < a` [true], `a <= b` [false], `b >= a` [false] all say a > b
            big, small = (t[2][0], t[2][1]) if t[1][0] in ("Gt", "LtE") else (t[2][1], t[2][0])
            lab_a = "T" if t[1][0] in ("Gt", "Lt") else "F"
            sb, ss = _len_of_attr(big, hm.F), _len_of_attr(small, hm.F)
            if sb is not None and ss is not None and sb != ss:
                cur, sam = _site_nodes(ctx, cfg, sb), _site_nodes(ctx, cfg, ss)
                sam_ids = {x.id for x in sam}
                ok = bool(cur) and bool(sam) and sam_ids <= lm.body
                early = late = None
                if ok:
                    for a in lm.attempts:
                        early = early or cfg.find_path(lm.head.id, a.id, avoid_nodes=sam_ids - {a.id})
                    early = early or cfg.find_path(lm.head.id, n.id, avoid_nodes=sam_ids)
                    for c in cur:
                        if c.id not in att:
                            late = late or cfg.find_path(lm.head.id, c.id, avoid_nodes=att)
                good = ok and early is None and late is None
                ck.check(
                    "C10.G2",
                    good,
                    "the failed-host count compared against was sampled in the same iteration before the attempt, the current count after it",
                    f"{fk}:failed-host-count-sampling",
                    "_reconnect: `len(failed hosts) > n0` does not compare the size after the attempt with the size sampled before "
                    "the attempt of the same iteration, so it does not prove that this attempt excluded a new address",
                    ctx.loc(f, n),
                    cfg.render_path(early or late or []),
                )
                if good:
                    gate_a += ctx.edges(cfg, n, lab_a)
        # (b') the same question asked by an explicit loop: `for host in self.hosts: if <pred(host)>: <yes>` - the
        #      outcome `pred holds` of that test, for the predicate _get_connect_hosts filters with, is an untried address
        if t[0] == "cmp" and len(t[1]) == 1 and t[1][0] in ("NotIn", "In") and any(s_[0] in ("each", "iter") and len(s_) == 2 and _self_attr(s_[1]) == hm.H for s_ in subterms(t)):
            def _as_comp(x):
                if not isinstance(x, tuple):
                    return x
                if x and x[0] == "const":
                    return x
                if len(x) == 2 and x[0] in ("each", "iter") and _self_attr(x[1]) == hm.H:
                    return ("cvar", "h")
                return tuple(_as_comp(y) for y in x)

            as_notin = _as_comp(t) if t[1][0] == "NotIn" else ("cmp", ("NotIn",), _as_comp(t)[2])
            if _canon(as_notin) == hm.pred:
                gate_b += ctx.edges(cfg, n, "T" if t[1][0] == "NotIn" else "F")
        # (b) any(normalised host not in F for host in self.hosts) [true]; the same question asked the other way round,
        #     all(normalised host in F ..) / F.issuperset(..) [false]
        if t[0] == "call" and t[1] in (("glob", "any"), ("glob", "all")) and len(t[2]) == 1 and not t[3] and t[2][0][0] == "comp":
            comp = t[2][0]
            is_all = t[1] == ("glob", "all")
            if len(comp[3]) == 1 and _self_attr(comp[3][0][1]) == hm.H and not comp[3][0][2]:
                elt_ = comp[2]
                if is_all and elt_[0] == "cmp" and elt_[1] == ("In",):
                    elt_ = ("cmp", ("NotIn",), elt_[2])  # all(x in F) is false exactly when any(x not in F) is true
                elif is_all:
                    continue
                same = _canon(elt_) == hm.pred
                ck.check(
                    "C10.G2",
                    same,
                    "`some advertised host is not excluded` uses the predicate _get_connect_hosts filters with",
                    f"{fk}:untried-host-predicate",
                    "_reconnect: the test for a remaining address differs from the filter in _get_connect_hosts; a `true` outcome "
                    "does not guarantee that the next attempt keeps the exclusions",
                    ctx.loc(f, n),
                )
                if same:
                    gate_b += ctx.edges(cfg, n, "F" if is_all else "T")
    for gid, edges, what in (
        ("new-failed-host", gate_a, "`len(failed hosts) > count sampled before the attempt` [true]"),
        ("untried-host-left", gate_b, "`any(host not in failed hosts)` [true]"),
    ):
        p = _cycle(cfg, lm.head, avoid_nodes=sleeps, avoid_edges=edges)
        why = "no such test in the loop" if not edges else "a cycle avoids it"
        ck.check(
            "C10.G2",
            p is None,
            f"every cycle that skips the back-off sleep passes {what}",
            f"{fk}:busy-cycle:{gid}",
            f"_reconnect: a retry cycle without back-off does not pass {what} ({why}): repeated failures can retry in a tight loop",
            ctx.loc(f, lm.loop_ast),
            cfg.render_path(p) if p else None,
        )
    _failed_set_shrinks(ctx, hm)


def _failed_set_shrinks(ctx: Context, hm) -> None:
    """The failed-host set shrinks only when every host is in it, or after the host list was replaced."""
    ck = ctx.ck
    T = ctx.terms
    sites = 0
    owners = set()
    loose = set()  # the set is only loaded and some shrinker method is called: decided by data flow below (local alias of the set)
    for g in _top_functions(ctx):
        hit = False
        loads = shrinks = False
        for n in ast.walk(g.node):
            if isinstance(n, ast.Call) and isinstance(n.func, ast.Attribute) and n.func.attr in SHRINKERS:
                v = n.func.value
                hit |= isinstance(v, ast.Attribute) and v.attr == hm.F
                shrinks = True
            elif isinstance(n, (ast.Assign, ast.AugAssign, ast.AnnAssign, ast.Delete)):
                tg = n.targets if isinstance(n, (ast.Assign, ast.Delete)) else [n.target]
                hit |= any(isinstance(t, ast.Attribute) and t.attr == hm.F for t in tg)
            elif isinstance(n, ast.Attribute) and n.attr == hm.F and isinstance(n.ctx, ast.Load):
                loads = True
        if hit and g.name != "__init__":
            owners.add(g.qualname)
        elif loads and shrinks and g.name != "__init__":
            owners.add(g.qualname)
            loose.add(g.qualname)
    for q in sorted(owners):
        g = ctx.func(q)
        cfg = ctx.cfg(q)
        shr = []
        for n in cfg.nodes:
            for c in ctx.calls(n):
                if isinstance(c.func, ast.Attribute) and c.func.attr in SHRINKERS and _self_attr(T.of(cfg, n, c.func.value)) == hm.F:
                    shr.append(n)
        shr += [n for n, _v in _attr_assigns(cfg, hm.F)]
        shr = _uniq(shr)
        if not shr and q in loose:
            continue
        if not shr:
            ck.violated("C10.G2", f"{ctx.fkey(g)}:failed-set-writer", f"{_short(q)} modifies the failed-host set of another object or in a nested function",
                        g.loc(), None, "the failed-host set shrinks only in _get_connect_hosts and after a host change")
            continue
        for n in shr:
            sites += 1
            if q == hm.f.qualname:
                gate = _truth_edges(ctx, cfg, lambda t: _canon(t) == hm.filtered, False)
                ctx.must_pass("C10.G2", cfg, n, "`filtered host list is empty`", gate,
                              desc="_get_connect_hosts: the exclusions are dropped only when every host is excluded")
            else:
                gate = []
                for an, _v in _attr_assigns(cfg, hm.H):
                    gate += ctx.normal_out(cfg, an)
                ctx.must_pass("C10.G2", cfg, n, f"replacement of self.{hm.H}", gate,
                              desc=f"{_short(q)}: the exclusions are dropped only after the host list was replaced (external event)")
    ck.require_min("C10.G2", "sites that shrink the failed-host set", sites, 2)


# ---------------------------------------------------------------------- B1: interval of the sleep argument
class _Undecided(Exception):
    pass


def _num(ctx: Context, cfg, nid: int, e):
    """Numeric constant denoted by an expression that is not a local variable."""
    if isinstance(e, ast.Name) and e.id in ctx.terms.du(cfg).local_names:
        return None
    t = ctx.terms.of(cfg, nid, e)
    if t[0] == "const" and isinstance(t[1], (int, float)) and not isinstance(t[1], bool):
        return t[1]
    return None


def _sym(ctx: Context, cfg, nid: int, e, stack=frozenset()):
    """Symbolic value of a numeric expression over def-use chains:
    ('const', c) | ('mul', f, s) | ('min', (s..)) | ('phi', (alt..)) with alt = ('def', node, var, s) | ('rec', node)
    | ('unknown', why)."""
    du = ctx.terms.du(cfg)
    if isinstance(e, ast.Name) and e.id in du.local_names:
        alts = []
        for dn, d in du.reaching(nid, e.id):
            key = (dn, e.id)
            if key in stack:
                alts.append(("rec", dn))
            elif d.kind == "assign" and not d.path:
                alts.append(("def", dn, e.id, _sym(ctx, cfg, dn, d.value, stack | {key})))
            elif d.kind == "aug" and isinstance(d.extra, ast.Mult) and _num(ctx, cfg, dn, d.value) is not None:
                prev = _sym(ctx, cfg, dn, ast.Name(id=e.id, ctx=ast.Load()), stack | {key})
                alts.append(("def", dn, e.id, ("mul", _num(ctx, cfg, dn, d.value), prev)))
            else:
                alts.append(("def", dn, e.id, ("unknown", f"{d.kind} definition at line {cfg.nodes[dn].lineno}")))
        return ("phi", tuple(alts)) if alts else ("unknown", "no reaching definition")
    if isinstance(e, ast.BinOp) and isinstance(e.op, ast.Mult):
        l, r = _num(ctx, cfg, nid, e.left), _num(ctx, cfg, nid, e.right)
        if l is not None and r is not None:
            return ("const", l * r)
        if l is not None:
            return ("mul", l, _sym(ctx, cfg, nid, e.right, stack))
        if r is not None:
            return ("mul", r, _sym(ctx, cfg, nid, e.left, stack))
        return ("mul2", _sym(ctx, cfg, nid, e.left, stack), _sym(ctx, cfg, nid, e.right, stack))
    if isinstance(e, ast.BinOp) and isinstance(e.op, ast.Add):
        return ("add", _sym(ctx, cfg, nid, e.left, stack), _sym(ctx, cfg, nid, e.right, stack))
    if isinstance(e, ast.Call) and not e.keywords and not any(isinstance(a, ast.Starred) for a in e.args):
        # jitter: random.uniform(a, b) lies in [a, b]; random.random() in [0, 1)
        fn = ctx.terms.of(cfg, nid, e.func)
        if fn == ("glob", "random.uniform") and len(e.args) == 2:
            a, b = _num(ctx, cfg, nid, e.args[0]), _num(ctx, cfg, nid, e.args[1])
            if a is not None and b is not None:
                return ("ival", min(a, b), max(a, b))
        if fn == ("glob", "random.random") and not e.args:
            return ("ival", 0.0, 1.0)
    if (
        isinstance(e, ast.Call)
        and not e.keywords
        and len(e.args) >= 2
        and not any(isinstance(a, ast.Starred) for a in e.args)
        and ctx.terms.of(cfg, nid, e.func) == ("glob", "min")
    ):
        return ("min", tuple(_sym(ctx, cfg, nid, a, stack) for a in e.args))
    c = _num(ctx, cfg, nid, e)
    if c is not None:
        return ("const", c)
    return ("unknown", " ".join(ast.unparse(e).split())[:60])


def _has_rec(s, dn) -> bool:
    if s[0] == "rec":
        return s[1] == dn
    if s[0] == "mul":
        return _has_rec(s[2], dn)
    if s[0] in ("mul2", "add"):
        return _has_rec(s[1], dn) or _has_rec(s[2], dn)
    if s[0] in ("min", "phi"):
        return any(_has_rec(x, dn) for x in s[1])
    if s[0] == "def":
        return _has_rec(s[3], dn)
    return False


def _hull(vs):
    vs = [v for v in vs if v is not None]
    if not vs:
        return None
    return (min(v[0] for v in vs), max(v[1] for v in vs))


def _ival(s, env):
    """Interval of a symbolic value; None = no value yet (bottom).  Recurrences are solved by Kleene iteration
    with widening after 200 rounds (followed by one narrowing pass)."""
    k = s[0]
    if k == "const":
        return (s[1], s[1])
    if k == "mul":
        v = _ival(s[2], env)
        if v is None:
            return None
        if s[1] == 0:
            return (0, 0)
        a, b = s[1] * v[0], s[1] * v[1]
        return (min(a, b), max(a, b))
    if k == "ival":
        return (s[1], s[2])
    if k in ("mul2", "add"):
        a, b = _ival(s[1], env), _ival(s[2], env)
        if a is None or b is None:
            return None
        if k == "add":
            return (a[0] + b[0], a[1] + b[1])
        ps = [x * y if not (x == 0 or y == 0) else 0 for x in a for y in b]
        return (min(ps), max(ps))
    if k == "min":
        vs = [_ival(x, env) for x in s[1]]
        if any(v is None for v in vs):
            return None
        return (min(v[0] for v in vs), min(v[1] for v in vs))
    if k == "phi":
        return _hull([_ival(x, env) for x in s[1]])
    if k == "rec":
        return env.get(s[1])
    if k == "def":
        dn, body = s[1], s[3]
        if not _has_rec(body, dn):
            return _ival(body, env)
        x = None
        for it in range(400):
            nx = _ival(body, {**env, dn: x})
            if nx == x:
                return x
            if it >= 200 and x is not None and nx is not None:
                nx = (-math.inf if nx[0] < x[0] else nx[0], math.inf if nx[1] > x[1] else nx[1])
            x = nx
        raise _Undecided("the recurrence of the delay does not stabilise")
    raise _Undecided(f"delay depends on `{s[1]}`")


def _factors_to_rec(s, dn, acc=1.0):
    """Products of the constant factors on every way from the root of a symbolic value to the loop-carried use."""
    if s[0] == "rec":
        return [acc] if s[1] == dn else []
    if s[0] == "mul":
        return _factors_to_rec(s[2], dn, acc * s[1])
    if s[0] in ("min", "phi"):
        out = []
        for x in s[1]:
            out += _factors_to_rec(x, dn, acc)
        return out
    if s[0] == "def":
        return _factors_to_rec(s[3], dn, acc)
    return []


def _initials(s, dn):
    """Alternatives that join the loop-carried value (siblings of rec(dn) in its phi)."""
    out = []
    if s[0] == "phi" and any(x[0] == "rec" and x[1] == dn for x in s[1]):
        out += [x for x in s[1] if x[0] != "rec"]
    if s[0] == "mul":
        out += _initials(s[2], dn)
    elif s[0] in ("min", "phi"):
        for x in s[1]:
            out += _initials(x, dn)
    elif s[0] == "def":
        out += _initials(s[3], dn)
    return out


def _b1(ctx: Context) -> None:
    ck = ctx.ck
    lm = _loop(ctx, "C10.B1")
    if lm is None:
        return
    cfg, f = lm.cfg, lm.f
    fk = ctx.fkey(f)
    du = ctx.terms.du(cfg)
    ck.require_min("C10.B1", "back-off sleeps in the reconnect loop", len(lm.sleeps), 1)
    for sn, call in lm.sleeps:
        loc = ctx.loc(f, sn)
        if len(call.args) != 1 or call.keywords:
            ck.unknown("C10.B1", "asyncio.sleep is not called with one positional delay", loc)
            continue
        s = _sym(ctx, cfg, sn.id, call.args[0])
        s_full = s
        # a jitter factor / summand around the delay variable: the bound below is on the whole argument, the growth
        # argument on the variable
        def peel(x):
            while x[0] in ("mul2", "add") and any(y[0] in ("ival", "const") for y in x[1:3]) and any(y[0] not in ("ival", "const") for y in x[1:3]):
                x = x[1] if x[2][0] in ("ival", "const") else x[2]
            return x

        s = peel(s)
        # 1. interval of the argument
        try:
            iv = _ival(s_full, {})
        except _Undecided as e:
            ck.unknown("C10.B1", f"cannot bound the sleep argument: {e}", loc)
            continue
        if iv is None:
            ck.unknown("C10.B1", "the sleep argument has no reaching definition", loc)
            continue
        ck.check(
            "C10.B1",
            iv[0] > 0 and iv[1] <= CAP,
            f"interval analysis: the sleep argument lies in [{iv[0]:g}, {iv[1]:g}], inside (0, {CAP}]",
            f"{fk}:sleep-interval",
            f"_reconnect: the back-off delay ranges over [{iv[0]:g}, {iv[1]:g}], not inside (0, {CAP}]",
            loc,
        )
        # 2. growth: one in-loop definition x := g(x) with factor > 1, started from a positive constant outside the loop
        chain = s
        d = None
        while chain[0] == "phi" and len(chain[1]) == 1 and chain[1][0][0] == "def":
            d = chain[1][0]
            inner = peel(d[3])
            if _has_rec(d[3], d[1]) or not (inner[0] == "phi" and len(inner[1]) == 1):
                break
            chain = inner
        if chain[0] == "phi" and len(chain[1]) != 1:
            lines = sorted({cfg.nodes[x[1]].lineno for x in chain[1] if x[0] in ("def", "rec")})
            ck.violated("C10.B1", f"{fk}:delay-update-skipped",
                        f"_reconnect: several definitions of the delay reach the sleep (lines {lines}): the update does not precede the sleep on every path",
                        loc, None, "the in-loop update of the delay precedes the sleep on every path")
            continue
        if d is None:
            ck.violated("C10.B1", f"{fk}:delay-not-growing", "_reconnect: the back-off delay is not a variable updated in the loop: it never grows", loc,
                        None, "the delay grows from one attempt to the next")
            continue
        dn, var, body = d[1], d[2], d[3]
        dnode = cfg.nodes[dn]
        in_loop = dn in lm.body
        rec = _has_rec(body, dn)
        ck.check(
            "C10.B1",
            in_loop and rec,
            "the delay is re-defined inside the loop from its own previous value",
            f"{fk}:delay-not-growing",
            "_reconnect: the delay that is slept is not computed from the delay of the previous iteration "
            f"(defined by `{dnode.text()}`): the back-off never grows",
            ctx.loc(f, dnode),
        )
        if not (in_loop and rec):
            continue
        p = cfg.find_path(lm.head.id, sn.id, avoid_nodes={dn})
        ck.check("C10.B1", p is None, "the update precedes the sleep on every path of an iteration", f"{fk}:delay-update-skipped",
                 "_reconnect: the sleep can be reached in an iteration without updating the delay", loc, cfg.render_path(p) if p else None)
        facs = _factors_to_rec(body, dn)
        ck.check(
            "C10.B1",
            bool(facs) and all(x > 1 for x in facs),
            f"growth factor {sorted(set(facs))} > 1",
            f"{fk}:growth-factor",
            f"_reconnect: the delay is multiplied by {sorted(set(facs))}: it does not grow towards the cap",
            ctx.loc(f, dnode),
        )
        inits = _initials(body, dn)
        ok_init = bool(inits)
        for x in inits:
            ok_init &= x[0] == "def" and x[1] not in lm.members and x[3][0] == "const" and x[3][1] > 0
        ck.check(
            "C10.B1",
            ok_init,
            f"the first delay comes from positive constant(s) {[x[3][1] for x in inits if x[0] == 'def' and x[3][0] == 'const']} defined before the loop",
            f"{fk}:initial-delay",
            "_reconnect: the delay is (re)initialised inside the loop or not from a positive constant",
            ctx.loc(f, dnode),
        )
        others = [cfg.nodes[n] for n in sorted(lm.members) if n != dn and var in du.defs.get(n, {})]
        ck.check(
            "C10.B1",
            not others,
            "no other definition of the delay inside the loop",
            f"{fk}:second-delay-definition",
            f"_reconnect: the delay is also defined by `{others[0].text() if others else ''}` inside the loop",
            ctx.loc(f, others[0]) if others else loc,
        )


# ---------------------------------------------------------------------- G3
def _interrupt_region(ctx: Context, lm, node):
    """Innermost `async with interrupt(fut, Exc, ..)` whose body contains the node -> (with ast, enter node, call)."""
    for fr in reversed(node.frames):
        if fr[0] != "with" or fr[2] != "body":
            continue
        for it in fr[1].items:
            ce = it.context_expr
            if isinstance(ce, ast.Call) and _resolved(ctx, lm.f, ce.func) in INTERRUPT_CMS:
                en = next((n for n in lm.cfg.nodes_for(fr[1]) if n.kind == "with_enter"), None)
                if en is not None:
                    return fr[1], en, ce
    return None, None, None


def _g3(ctx: Context) -> None:
    ck = ctx.ck
    lm = _loop(ctx, "C10.G3")
    if lm is None:
        return
    cfg, f = lm.cfg, lm.f
    fk = ctx.fkey(f)
    T = ctx.terms
    if not lm.sleeps:
        ck.unknown("C10.G3", "no back-off sleep found in the reconnect loop", ctx.loc(f, lm.loop_ast))
        return
    handles = set()
    for sn, _call in lm.sleeps:
        w, en, ce = _interrupt_region(ctx, lm, sn)
        ck.check(
            "C10.G3",
            w is not None,
            "the back-off sleep is inside `async with interrupt(..)`",
            f"{fk}:sleep-not-interruptible",
            "_reconnect: `await asyncio.sleep(..)` is not inside an `async with interrupt(self._reconnect_future, ..)` block: "
            "reconnect_soon cannot cut the wait short",
            ctx.loc(f, sn),
        )
        if w is None:
            continue
        rf = _self_attr(T.of(cfg, en, ce.args[0])) if ce.args else None
        if rf is None and ce.args:
            # `fut = loop.create_future(); self.<attr> = fut; ... interrupt(fut, ..)`: the future handed to interrupt() is the
            # one published in an attribute of self (same value term)
            at = strip_sites(T.of(cfg, en, ce.args[0]))
            pub = set()
            for n in cfg.nodes:
                a = n.ast
                if n.kind == "stmt" and isinstance(a, (ast.Assign, ast.AnnAssign)) and a.value is not None:
                    for tg in (a.targets if isinstance(a, ast.Assign) else [a.target]):
                        if isinstance(tg, ast.Attribute) and isinstance(tg.value, ast.Name) and tg.value.id == "self" and strip_sites(T.of(cfg, n, a.value)) == at \
                                and at[0] == "call":
                            pub.add(tg.attr)
            if len(pub) == 1:
                rf = pub.pop()
        if rf is None or len(ce.args) < 2:
            ck.unknown("C10.G3", "interrupt() is not called with (self.<future>, <exception class>, ..)", ctx.loc(f, en))
            continue
        handles.add(rf)
        exc = ctx.resolve_name(f, ce.args[1])
        # a fresh future in every iteration
        fresh = []
        for n, v in _attr_assigns(cfg, rf):
            t = T.of(cfg, n, v)
            if t[0] == "call" and t[1][0] == "attr" and t[1][2] == "create_future" and n.id in lm.body:
                fresh += ctx.normal_out(cfg, n)
        p = cfg.find_path(lm.head.id, en.id, avoid_edges=fresh)
        ck.check(
            "C10.G3",
            p is None,
            f"self.{rf} is a future created in the same iteration before the region is entered",
            f"{fk}:wakeup-future-not-fresh",
            f"_reconnect: the interruptible sleep can be entered without a newly created self.{rf}: a future completed earlier "
            "would end every later sleep at once",
            ctx.loc(f, en),
            cfg.render_path(p) if p else None,
        )
        # reset on every way out of the region
        resets = {n.id for n, v in _attr_assigns(cfg, rf) if T.of(cfg, n, v) == ("const", None)}
        p = cfg.find_path(en.id, {lm.head.id, cfg.exit.id, cfg.xexit.id}, avoid_nodes=resets)
        ck.check(
            "C10.G3",
            p is None,
            f"every way out of the region (slept, interrupted, cancelled) resets self.{rf} to None",
            f"{fk}:wakeup-future-not-reset",
            f"_reconnect: self.{rf} survives the sleep on some path: a later reconnect_soon() completes a stale future "
            "instead of starting the connector",
            ctx.loc(f, en),
            cfg.render_path(p) if p else None,
        )
        # the interrupt's exception stays inside the loop
        leaks = None
        for d, lab, e in sn.succ:
            if lab == "x" and e == exc:
                leaks = leaks or cfg.find_path(d, {cfg.exit.id, cfg.xexit.id}, avoid_nodes={lm.head.id})
        ck.check(
            "C10.G3",
            leaks is None and any(lab == "x" and e == exc for (_d, lab, e) in sn.succ),
            f"the interruption ({_short(exc or '?')}) is caught inside the loop",
            f"{fk}:interrupt-leaves-loop",
            f"_reconnect: {_short(exc or '?')} raised by the interrupted sleep is not caught inside the loop",
            ctx.loc(f, sn),
            cfg.render_path(leaks) if leaks else None,
        )
    if not handles:
        return
    # reconnect_soon: completes the future only when it exists and is not done; otherwise starts reconnecting
    rs = ctx.func(f"{HC}.reconnect_soon")
    rcfg = ctx.cfg(rs.qualname)
    completions = 0
    for rf in sorted(handles):
        is_rf = lambda t, _rf=rf: _self_attr(t) == _rf  # noqa: E731
        comp = []
        for n in rcfg.nodes:
            for c in ctx.calls(n):
                if isinstance(c.func, ast.Attribute) and c.func.attr in ("set_result", "set_exception", "cancel") and is_rf(T.of(rcfg, n, c.func.value)):
                    comp.append(n)
        comp = _uniq(comp)
        completions += len(comp)
        not_done = _call_edges(ctx, rcfg, is_rf, "done", "F")
        exists = _truth_edges(ctx, rcfg, is_rf, True)
        for n in comp:
            ctx.must_pass("C10.G3", rcfg, n, f"`not self.{rf}.done()`", not_done,
                          desc=f"reconnect_soon: self.{rf} is completed only when it is not done")
            ctx.must_pass("C10.G3", rcfg, n, f"`self.{rf}` is set", exists,
                          desc=f"reconnect_soon: self.{rf} is completed only when a sleep is in progress")
        gate = []
        for n in comp:
            gate += ctx.normal_out(rcfg, n)
        for n, _c in ctx.nodes_calling_name(rcfg, "_start_reconnecting", "_start_connector"):
            gate += ctx.normal_out(rcfg, n)
        # `_start_reconnecting` written out in place: nothing is started when the connection is up already
        for n in rcfg.nodes:
            if n.kind == "test" and _self_attr(strip_sites(T.of(rcfg, n, n.exprs[0]))) == "is_connected":
                gate += ctx.edges(rcfg, n, "T")
        ctx.must_pass("C10.G3", rcfg, rcfg.exit, "wake-up or _start_reconnecting()", gate,
                      desc="reconnect_soon: every return either woke the sleeping connector or started reconnecting")
        # nobody else completes it
        foreign = sorted({g.qualname for g, c in _sweep_calls(ctx, ("set_result", "set_exception", "cancel"))
                          if isinstance(c.func.value, ast.Attribute) and c.func.value.attr == rf and g.qualname != rs.qualname})
        ck.check("C10.G3", not foreign, f"self.{rf} is completed only by reconnect_soon", f"{M}:wakeup-future-completers",
                 f"self.{rf} is also completed in {foreign}", rs.loc())
    ck.require_min("C10.G3", "completion sites of the wake-up future in reconnect_soon", completions, 1)


# ---------------------------------------------------------------------- W1
def _connector_attr(ctx: Context):
    """(K, creation nodes): `self.K = <task spawner>(self._reconnect())` in _start_connector, or an error string."""
    f = ctx.func(f"{HC}._start_connector")
    cfg = ctx.cfg(f.qualname)
    target = f"{HC}._reconnect"
    nodes, ks = [], set()
    T = ctx.terms

    def is_reconnect_call(t) -> bool:
        return t[0] == "call" and t[1][0] == "attr" and t[1][2] == "_reconnect" and t[1][1][0] == "param"

    def is_spawn(t) -> bool:
        """<task spawner>(self._reconnect()) - as a value term, so a temporary holding the coroutine is transparent"""
        if t[0] != "call" or not t[2] or not is_reconnect_call(t[2][0]):
            return False
        fn = t[1]
        return (fn[0] == "glob" and fn[1] in TASK_SPAWNERS) or (fn[0] == "attr" and fn[2] == "create_task")

    n_calls = sum(1 for n in cfg.nodes if n.copy_of in ("", None) for c in ctx.calls(n) if target in ctx.callee_names(f, c))
    for n in cfg.nodes:
        a = n.ast
        if not (isinstance(a, ast.Assign) and n.kind != "test" and a.value is not None):
            continue
        t = strip_sites(T.of(cfg, n, a.value))
        if not is_spawn(t):
            continue
        if not (len(a.targets) == 1 and isinstance(a.targets[0], ast.Attribute)
                and isinstance(a.targets[0].value, ast.Name) and a.targets[0].value.id == "self"):
            # a temporary holding the task: it must flow, unchanged, into exactly one attribute of self
            holders = [m for m in cfg.nodes if isinstance(m.ast, ast.Assign) and len(m.ast.targets) == 1 and isinstance(m.ast.targets[0], ast.Attribute)
                       and isinstance(m.ast.targets[0].value, ast.Name) and m.ast.targets[0].value.id == "self" and m is not n
                       and strip_sites(T.of(cfg, m, m.ast.value)) == t]
            if not holders:
                return "_start_connector does not keep the connector task in an attribute of self"
            continue
        ks.add(a.targets[0].attr)
        nodes.append(n)
    if n_calls and not nodes:
        return "_start_connector does not hand _reconnect() to a task spawner"
    if len(ks) != 1:
        return f"_start_connector: expected one attribute holding the connector task, found {sorted(ks)}"
    return ks.pop(), _uniq(nodes)


def _w1(ctx: Context) -> None:
    ck = ctx.ck
    T = ctx.terms
    # 1. who may call _reconnect / _connect_once
    sites = [(g, c) for g, c in _sweep_calls(ctx, ("_reconnect",)) if g.module.name.startswith("aiohomekit.controller.ip")]
    owners = sorted({g.qualname for g, _c in sites})
    if sites:
        ck.check("C10.W1", owners == [f"{HC}._start_connector"] and len(sites) == 1,
                 "_reconnect() has one call site: _start_connector", f"{M}:reconnect-callers",
                 f"_reconnect() is called {len(sites)} time(s), from {owners}: a second connector can run", ctx.func(f"{HC}._reconnect").loc())
    ck.require_min("C10.W1", "_reconnect() call sites", len(sites), 1)
    callers = sorted({g.qualname for g, c in _sweep_calls(ctx, ("_connect_once",))
                      if g.module.name.startswith("aiohomekit.controller.ip") and not _is_super_call(c)})
    if callers:
        ck.check("C10.W1", callers == [f"{HC}._reconnect"], "_connect_once is called only from _reconnect (and through super())",
                 f"{M}:connect-once-callers", f"_connect_once is called from {callers}", ctx.func(f"{HC}._reconnect").loc())
    ck.require_min("C10.W1", "functions calling _connect_once", len(callers), 1)
    # 2. guard of the task creation
    ka = _connector_attr(ctx)
    sf = ctx.func(f"{HC}._start_connector")
    if isinstance(ka, str):
        ck.unknown("C10.W1", ka, sf.loc())
    else:
        k, creations = ka
        scfg = ctx.cfg(sf.qualname)
        is_k = lambda t: _self_attr(t) == k  # noqa: E731
        idle = _truth_edges(ctx, scfg, is_k, False) + _call_edges(ctx, scfg, is_k, "done", "T")
        disconnected = _truth_edges(ctx, scfg, lambda t: _self_attr(t) == CONNECTED_PROP, False)
        prop = ctx.prog.lookup_method(HC, CONNECTED_PROP)
        if prop is None or "property" not in prop.decorators:
            ck.unknown("C10.W1", f"HomeKitConnection.{CONNECTED_PROP} is no longer a property", sf.loc())
        for n in creations:
            ctx.must_pass("C10.W1", scfg, n, f"`self.{k}` is unset or done", idle,
                          desc=f"_start_connector: a task is created only when no connector task is running (self.{k} unset or done)")
            ctx.must_pass("C10.W1", scfg, n, f"`not self.{CONNECTED_PROP}`", disconnected,
                          desc="_start_connector: a task is created only when not connected")
        ck.check("C10.W1", ctx.res.task_attr(HC, k) == f"{HC}._reconnect", f"self.{k} only ever holds the _reconnect task",
                 f"{M}:connector-attr", f"self.{k} is also assigned another task", sf.loc())
    # 3. lock discipline of _reconnect
    lm = _loop(ctx, "C10.W1")
    if lm is None:
        return
    cfg, f = lm.cfg, lm.f
    fk = ctx.fkey(f)
    locks = []
    for fr in lm.head.frames:
        if fr[0] == "with" and fr[2] == "body":
            for it in fr[1].items:
                en = next((n for n in cfg.nodes_for(fr[1]) if n.kind == "with_enter"), None)
                a = _self_attr(T.of(cfg, en, it.context_expr)) if en is not None else None
                if a and "asyncio.Lock" in ctx.res.attr_type(HC, a):
                    locks.append((a, en))
    ck.check("C10.W1", bool(locks), "the whole reconnect loop runs inside `async with self.<asyncio.Lock>`", f"{fk}:loop-not-locked",
             "_reconnect: the reconnect loop is not enclosed by `async with self._connect_lock`", ctx.loc(f, lm.loop_ast))
    for a, en in locks:
        is_l = lambda t, _a=a: _self_attr(t) == _a  # noqa: E731
        free = _call_edges(ctx, cfg, is_l, "locked", "F")
        held = _call_edges(ctx, cfg, is_l, "locked", "T")
        ctx.must_pass("C10.W1", cfg, en, f"`not self.{a}.locked()`", free,
                      desc=f"_reconnect: the lock is only taken after `self.{a}.locked()` was false (a second caller never queues behind the first)")
        busy = set(lm.members) | {en.id} | {n.id for n in cfg.nodes if any(True for _ in _awaits(n))}
        bad = None
        for e in held:
            reach = cfg.reachable_from(e[1])
            if (reach & busy) or cfg.exit.id not in reach:
                bad = cfg.find_path(e[1], busy | {cfg.xexit.id}) or []
        ck.check("C10.W1", bool(held) and bad is None, "when the lock is held _reconnect returns at once (no await, no attempt)",
                 f"{fk}:locked-does-not-return", "_reconnect: with the lock held it does not return immediately", ctx.loc(f, en),
                 cfg.render_path(bad) if bad else None)


# ---------------------------------------------------------------------- G4
def _g4(ctx: Context) -> None:
    ck = ctx.ck
    T = ctx.terms
    ka = _connector_attr(ctx)
    if isinstance(ka, str):
        ck.unknown("C10.G4", ka, ctx.func(f"{HC}._start_connector").loc())
        return
    k = ka[0]
    kterm = ("attr", SELF, k)
    ef = ctx.func(f"{HC}.ensure_connection")
    ecfg = ctx.cfg(ef.qualname)
    n_aw = 0
    for n in ecfg.nodes:
        for aw in _awaits(n):
            t = T.of(ecfg, n, aw.value)
            if not _mentions(t, kterm):
                continue
            n_aw += 1
            shielded = t[0] == "call" and t[1] == ("glob", "asyncio.shield") and len(t[2]) == 1 and t[2][0] == kterm
            ck.check(
                "C10.G4",
                shielded,
                f"ensure_connection awaits self.{k} through asyncio.shield",
                f"{ctx.fkey(ef)}:unshielded-await",
                f"ensure_connection awaits self.{k} without asyncio.shield: a caller's timeout or cancellation aborts the background attempt",
                ctx.loc(ef, n),
            )
    # a shield stored in an attribute is shared between callers: cancelling one waiter (its timeout) cancels the shared
    # outer future and wakes every other waiter with CancelledError instead of letting them wait their own bounded time
    shared = []
    for n in ecfg.nodes:
        for aw in _awaits(n):
            v = aw.value
            if isinstance(v, ast.Attribute) and isinstance(v.value, ast.Name) and v.value.id == "self" and v.attr != k:
                for g in _top_functions(ctx):
                    for x in ast.walk(g.node):
                        if isinstance(x, ast.Assign) and any(isinstance(tg, ast.Attribute) and tg.attr == v.attr for tg in x.targets):
                            if isinstance(x.value, ast.Call) and _resolved(ctx, g, x.value.func) == "asyncio.shield" and any(
                                    isinstance(sx, ast.Attribute) and sx.attr == k for sx in ast.walk(x.value)):
                                shared.append((n, v.attr))
    for n, attr_ in {(a.id, b): (a, b) for a, b in shared}.values():
        n_aw += 1
        ck.violated(
            "C10.G4",
            f"{ctx.fkey(ef)}:shared-shield:{attr_}",
            f"ensure_connection awaits self.{attr_}, a single asyncio.shield(self.{k}) object shared by all callers: when one caller's timeout "
            "cancels its await the shared future is cancelled and every other waiting caller gets CancelledError instead of its own bounded wait",
            ctx.loc(ef, n),
            None,
            "every caller awaits its own asyncio.shield(connector)",
        )
    if n_aw == 0:
        ck.unknown("C10.G4", f"ensure_connection no longer awaits self.{k}", ef.loc())
    # sweep: every other await of the connector in the IP package
    total = 0
    for g in _top_functions(ctx):
        if not g.module.name.startswith("aiohomekit.controller.ip"):
            continue
        for x in ast.walk(g.node):
            if isinstance(x, ast.Await) and any(isinstance(s, ast.Attribute) and s.attr == k for s in ast.walk(x.value)):
                total += 1
                if g.qualname in (ef.qualname, f"{HC}._stop_connector"):
                    continue  # checked above / the canceller itself (C11)
                v = x.value
                ok = isinstance(v, ast.Call) and _resolved(ctx, g, v.func) == "asyncio.shield"
                ck.check("C10.G4", ok, f"{_short(g.qualname)} awaits the connector through asyncio.shield",
                         f"{ctx.fkey(g)}:unshielded-await", f"{g.qualname} awaits the connector task without asyncio.shield", g.loc(x))
    ck.require_min("C10.G4", "awaits of the connector task in the IP package", total, 2)
    # the pairing waits a bounded time and reports a disconnection
    pf = ctx.func(f"{IPP}._ensure_connected")
    pcfg = ctx.cfg(pf.qualname)
    waits = [(n, c) for n, c in ctx.nodes_calling_name(pcfg, "ensure_connection")
             if isinstance(c.func, ast.Attribute) and T.of(pcfg, n, c.func.value) == ("attr", SELF, "connection")]
    ck.require_min("C10.G4", "IpPairing._ensure_connected: calls of connection.ensure_connection()", len(waits), 1)
    for n, _c in waits:
        bound = None
        for fr in reversed(n.frames):
            if fr[0] != "with" or fr[2] != "body":
                continue
            for it in fr[1].items:
                ce = it.context_expr
                if isinstance(ce, ast.Call):
                    r = _resolved(ctx, pf, ce.func) or ""
                    if r in TIMEOUT_CMS or r.endswith("asyncio_timeout"):
                        bound = ce
            if bound is not None:
                break
        if bound is None:
            ck.violated("C10.G4", f"{ctx.fkey(pf)}:unbounded-wait",
                        "IpPairing._ensure_connected waits for the connection without asyncio_timeout(..): a caller can wait forever",
                        ctx.loc(pf, n), None, "the wait for the connection is bounded by asyncio_timeout(c)")
            continue
        arg = bound.args[0] if bound.args else next((kw.value for kw in bound.keywords if kw.arg in ("delay", "timeout")), None)
        c = ctx.const(pf, arg, None) if arg is not None else None
        if not isinstance(c, (int, float)) or isinstance(c, bool):
            ck.unknown("C10.G4", "the timeout of _ensure_connected is not a constant", ctx.loc(pf, n))
        else:
            ck.check("C10.G4", c > 0, f"the wait is bounded by asyncio_timeout({c})", f"{ctx.fkey(pf)}:timeout-constant",
                     f"_ensure_connected: asyncio_timeout({c}) is not a positive bound", ctx.loc(pf, n))
        touts = [d for (d, lab, e) in n.succ if lab == "x" and e == "TimeoutError"]
        ok = bool(touts)
        wit = None
        classes = set()
        for d in touts:
            reach = pcfg.reachable_from(d)
            classes |= {e for (s, lab, e) in pcfg.xexit.pred if s in reach and lab == "x"}
            if pcfg.exit.id in reach:
                ok = False
                wit = pcfg.find_path(d, pcfg.exit.id)
        bad = sorted(e for e in classes if ctx.prog.is_subclass(e, "Exception") and not ctx.prog.is_subclass(e, DISCONNECTED)
                     or not ctx.prog.known_class(e))
        ck.check(
            "C10.G4",
            ok and not bad and any(ctx.prog.is_subclass(e, DISCONNECTED) for e in classes),
            "a timeout of the wait can only end in AccessoryDisconnectedError",
            f"{ctx.fkey(pf)}:timeout-mapping",
            f"_ensure_connected: the timeout of the wait is not turned into AccessoryDisconnectedError (raises {sorted(_short(e) for e in classes)}, "
            f"continues normally: {not ok})",
            ctx.loc(pf, n),
            pcfg.render_path(wit) if wit else None,
        )


# ---------------------------------------------------------------------- G5
def _g5(ctx: Context) -> None:
    ck = ctx.ck
    T = ctx.terms
    hm = _hosts(ctx, "C10.G5")
    if hm is None:
        return
    cfg, f = hm.cfg, hm.f
    hterm = ("attr", SELF, hm.H)
    rets = [n for n in cfg.nodes if n.kind == "return"]
    good = 0
    fall = cfg.find_path(cfg.entry.id, cfg.exit.id, avoid_nodes={n.id for n in rets})
    ck.check("C10.G5", fall is None, "_get_connect_hosts always returns a list", f"{ctx.fkey(f)}:falls-off",
             "_get_connect_hosts can end without returning a host list", f.loc(), cfg.render_path(fall) if fall else None)
    for r in rets:
        t = T.of(cfg, r, r.exprs[0]) if r.exprs else ("const", None)
        c = _canon(t)
        if c == hm.filtered:
            gate = _truth_edges(ctx, cfg, lambda x: _canon(x) == hm.filtered, True)
            ctx.must_pass("C10.G5", cfg, r, "`filtered host list is non-empty`", gate,
                          desc="_get_connect_hosts: the filtered list is returned only when it is non-empty")
            good += 1
        elif t == hterm or (t[0] == "call" and t[1] in (("glob", "list"), ("glob", "tuple"), ("glob", "sorted")) and t[2] == (hterm,) and not t[3]):
            ck.holds("C10.G5", f"_get_connect_hosts: otherwise all of self.{hm.H} is returned", ctx.loc(f, r))
            good += 1
        else:
            ck.unknown("C10.G5", f"_get_connect_hosts returns something that is neither the filtered list nor self.{hm.H}", ctx.loc(f, r))
    ck.require_min("C10.G5", "returns of _get_connect_hosts", good, 2)
    # every replacement of the host list is followed by dropping the exclusions
    sites = 0
    for cq in [HC] + sorted(ctx.prog.subclasses(HC)):
        for m in ctx.prog.classes[cq].methods.values() if cq in ctx.prog.classes else []:
            if m.name == "__init__" or isinstance(m.node, ast.Lambda):
                continue
            mcfg = ctx.cfg(m.qualname)
            assigns = _attr_assigns(mcfg, hm.H)
            if not assigns:
                continue
            clears = set()
            for n in mcfg.nodes:
                for c in ctx.calls(n):
                    if isinstance(c.func, ast.Attribute) and c.func.attr == "clear" and _self_attr(T.of(mcfg, n, c.func.value)) == hm.F:
                        clears.add(n.id)
            for n, _v in assigns:
                sites += 1
                p = None
                for e in ctx.normal_out(mcfg, n):
                    if e[1] not in clears:
                        p = p or mcfg.find_path(e[1], {mcfg.exit.id, mcfg.xexit.id}, avoid_nodes=clears)
                ck.check(
                    "C10.G5",
                    p is None,
                    f"{_short(cq)}.{m.name}: after `self.{hm.H} = ..` every path clears self.{hm.F}",
                    f"{ctx.fkey(m)}:hosts-replaced-without-clear",
                    f"{_short(cq)}.{m.name}: the host list is replaced but the failed-host exclusions are kept on some path: "
                    "a reassigned address stays excluded",
                    ctx.loc(m, n),
                    ([f"{m.module.relpath}:{n.lineno}: {n.text()}"] + mcfg.render_path(p)) if p else None,
                )
    ck.require_min("C10.G5", "assignments to the host list outside __init__", sites, 1)
    foreign = sorted({g.qualname for g in _top_functions(ctx) for x in ast.walk(g.node)
                      if isinstance(x, (ast.Assign, ast.AugAssign, ast.AnnAssign))
                      for t in (x.targets if isinstance(x, ast.Assign) else [x.target])
                      if isinstance(t, ast.Attribute) and t.attr == hm.H and not (isinstance(t.value, ast.Name) and t.value.id == "self")
                      and g.module.name.startswith("aiohomekit.controller.ip")})
    ck.check("C10.G5", not foreign, "the host list is not replaced from outside the connection class", f"{M}:foreign-hosts-writer",
             f"the host list of a connection is assigned in {foreign}", f.loc())


# ---------------------------------------------------------------------- G6
def _g6(ctx: Context) -> None:
    ck = ctx.ck
    T = ctx.terms
    lm = _loop(ctx, "C10.G6")
    if lm is None:
        return
    flag = lm.closing_attr
    if flag is None:
        ck.unknown("C10.G6", "the reconnect loop is not of the form `while not self.<flag>`", ctx.loc(lm.f, lm.loop_ast))
        return
    is_flag = lambda t: _self_attr(t) == flag  # noqa: E731
    # close(): flag first, then stop the connector
    cf = ctx.func(f"{HC}.close")
    ccfg = ctx.cfg(cf.qualname)
    sets = []
    for n, v in _attr_assigns(ccfg, flag):
        if T.of(ccfg, n, v) == ("const", True):
            sets += ctx.normal_out(ccfg, n)
    stops = _uniq([n for n, _c in ctx.nodes_calling_name(ccfg, "_stop_connector")])
    ck.require_min("C10.G6", "close(): calls of _stop_connector", len(stops), 1)
    for n in stops:
        ctx.must_pass("C10.G6", ccfg, n, f"`self.{flag} = True`", sets,
                      desc=f"close(): self.{flag} is set before the connector is stopped (the loop cannot start another attempt)")
    # _connection_lost: restart only when not closing
    lf = ctx.func(f"{HC}._connection_lost")
    lcfg = ctx.cfg(lf.qualname)
    starts = _uniq([n for n, _c in ctx.nodes_calling_name(lcfg, "_start_connector", "_start_reconnecting", "reconnect_soon", "_reconnect")])
    ck.require_min("C10.G6", "_connection_lost: connector starts", len(starts), 1)
    open_edges = _truth_edges(ctx, lcfg, is_flag, False)
    for n in starts:
        ctx.must_pass("C10.G6", lcfg, n, f"`not self.{flag}`", open_edges,
                      desc=f"_connection_lost: the connector is restarted only when not self.{flag}")
    # pairing-level triggers
    if not any(T.of(ctx.cfg(m.qualname), n, v) == ("const", True)
               for cq in ctx.prog.mro(IPP) if cq in ctx.prog.classes
               for m in ctx.prog.classes[cq].methods.values() if not isinstance(m.node, ast.Lambda)
               for n, v in _attr_assigns(ctx.cfg(m.qualname), SHUTDOWN_ATTR)):
        ck.unknown("C10.G6", f"no method of IpPairing or its bases sets self.{SHUTDOWN_ATTR} = True", ctx.prog.cls(IPP).module.relpath)
        return
    triggers = 0
    for m in ctx.prog.cls(IPP).methods.values():
        if isinstance(m.node, ast.Lambda):
            continue
        mcfg = ctx.cfg(m.qualname)
        alive = None
        for n, c in ctx.nodes_calling_name(mcfg, "ensure_connection", "reconnect_soon", "_start_reconnecting", "_start_connector"):
            if not (isinstance(c.func, ast.Attribute) and T.of(mcfg, n, c.func.value) == ("attr", SELF, "connection")):
                continue
            if alive is None:
                alive = _truth_edges(ctx, mcfg, lambda t: _self_attr(t) == SHUTDOWN_ATTR, False)
            triggers += 1
            ctx.must_pass("C10.G6", mcfg, n, f"`not self.{SHUTDOWN_ATTR}`", alive,
                          desc=f"IpPairing.{m.name}: `{' '.join(ast.unparse(c).split())}` only when the pairing is not shut down")
    ck.require_min("C10.G6", "pairing-level reconnect triggers", triggers, 2)


# ---------------------------------------------------------------------- thorough tier: package-wide sweeps
def _g7(ctx: Context) -> None:
    """No feedback from a deliberate drop: _drop_transport() clears the protocol reference before the transport's
    connection_lost callback runs, so the callback may reach _connection_lost() -> _start_connector() only under the strict
    identity test `connection.protocol is self`.  Otherwise every failed attempt (and the final AuthenticationError, after
    which the connector has ended) restarts the connector at once: retries never end and there is no back-off."""
    from .c11 import _identity_gate_edges

    ck = ctx.ck
    T = ctx.terms
    pf = ctx.func("aiohomekit.controller.ip.connection.InsecureHomeKitProtocol.connection_lost")
    pcfg = ctx.cfg(pf.qualname)
    calls = [(n, c) for n, c in ctx.nodes_calling_name(pcfg, "_connection_lost")]
    if not calls:
        ck.unknown("C10.G7", "connection_lost no longer informs the connection", pf.loc())
        return
    gate = _identity_gate_edges(ctx, pcfg, [("param", "self"), ("attr", ("param", "self"), "transport")])
    lf = ctx.func(f"{HC}._connection_lost")
    lcfg = ctx.cfg(lf.qualname)
    reporter_p = [("param", "self"), ("attr", ("param", "self"), "transport")]
    for n, c in calls:
        if pcfg.find_path(pcfg.entry.id, n.id, avoid_edges=gate) is None:
            ck.holds("C10.G7", "connection_lost reaches _connection_lost (and with it _start_connector) only for the connection's current protocol", ctx.loc(pf, n))
            continue
        # the test may sit in _connection_lost itself, against the reporting protocol handed over as an argument
        reporter_l = []
        params = lf.pos_params[1:]
        for i, a in enumerate(c.args):
            if T.of(pcfg, n, a) in reporter_p and i < len(params):
                reporter_l.append(("param", params[i]))
        for kw in c.keywords:
            if kw.arg and T.of(pcfg, n, kw.value) in reporter_p:
                reporter_l.append(("param", kw.arg))
        gate_l = _identity_gate_edges(ctx, lcfg, reporter_l) if reporter_l else []
        starts = [m for m, _c2 in ctx.nodes_calling_name(lcfg, "_start_connector", "_start_reconnecting")]
        if reporter_l and gate_l and starts:
            for m in starts:
                ctx.must_pass("C10.G7", lcfg, m, "<reporting protocol> is connection.protocol [identity outcome]", gate_l,
                              desc="_connection_lost starts the connector only when the reporting protocol is the connection's current one")
        else:
            ctx.must_pass("C10.G7", pcfg, n, "connection.protocol is self [identity outcome]", gate,
                          desc="connection_lost reaches _connection_lost (and with it _start_connector) only for the connection's current protocol")
    # and _drop_transport really clears the reference (so a dropped connection fails that test)
    df = ctx.func(f"{HC}._drop_transport")
    cleared = any(isinstance(x, ast.Assign) and any(isinstance(t, ast.Attribute) and t.attr == "protocol" for t in x.targets) and isinstance(x.value, ast.Constant) and x.value.value is None
                  for x in ast.walk(df.node))
    ck.check("C10.G7", cleared, "_drop_transport clears the protocol reference", f"{ctx.fkey(df)}:clears-protocol", "_drop_transport no longer clears self.protocol", df.loc())


def run_thorough(ctx: Context) -> None:
    """Every site in the package that can start a reconnect, and every writer of the closing flag."""
    ck = ctx.ck
    if not ck.rule("C10.S1", "sweep: reconnect triggers and writers of the closing flag in the whole package"):
        return
    T = ctx.terms
    prog = ctx.prog
    conn_classes = {HC} | set(prog.subclasses(HC))
    trig = {f"{HC}.{m}" for m in ("reconnect_soon", "ensure_connection", "_start_reconnecting", "_start_connector")}
    names = {_short(t) for t in trig}

    def has_shutdown(cq: str) -> bool:
        for c in prog.mro(cq):
            if c in prog.classes:
                for m in prog.classes[c].methods.values():
                    if not isinstance(m.node, ast.Lambda) and _attr_assigns(ctx.cfg(m.qualname), SHUTDOWN_ATTR):
                        return True
        return False

    n_sites = 0
    for g in ctx.prog.package_functions():
        if isinstance(g.node, ast.Lambda):
            continue
        owner = g
        while owner.parent is not None:
            owner = owner.parent
        cfg = ctx.cfg(g.qualname)
        for n, c in ctx.nodes_calling_name(cfg, *sorted(names)):
            cal = set(ctx.callee_names(g, c))
            in_ip = g.module.name.startswith("aiohomekit.controller.ip")
            if not (cal & trig) and not (in_ip and any(x.startswith("?") for x in cal)):
                continue
            if owner.cls is not None and owner.cls.qualname in conn_classes:
                continue  # the connection's own machinery (rules W1, G3, G6)
            n_sites += 1
            what = f"{_short(g.qualname)}: `{' '.join(ast.unparse(c).split())}`"
            if owner.cls is not None and has_shutdown(owner.cls.qualname):
                alive = _truth_edges(ctx, cfg, lambda t: _self_attr(t) == SHUTDOWN_ATTR, False)
                ctx.must_pass("C10.S1", cfg, n, f"`not self.{SHUTDOWN_ATTR}`", alive, desc=f"{what} only when the pairing is not shut down")
            else:
                ck.holds("C10.S1", f"{what}: owner is not a pairing (no shutdown state); its connection is closed by its own close()",
                         ctx.loc(g, n), nontrivial=False)
    ck.require_min("C10.S1", "reconnect trigger sites outside the connection classes", n_sites, 2)
    lm = _loop(ctx, "C10.S1")
    if lm is None or lm.closing_attr is None:
        return
    flag = lm.closing_attr
    writers: dict[str, set] = {}
    for cq in sorted(conn_classes):
        for m in prog.classes[cq].methods.values() if cq in prog.classes else []:
            if isinstance(m.node, ast.Lambda):
                continue
            mcfg = ctx.cfg(m.qualname)
            for n, v in _attr_assigns(mcfg, flag):
                t = T.of(mcfg, n, v)
                writers.setdefault(repr(t[1]) if t[0] == "const" else "?", set()).add(m.qualname)
    rearm = writers.get("False", set()) - {f"{HC}.__init__"}
    shown = {k: sorted(_short(q) for q in v) for k, v in sorted(writers.items())}
    ck.check("C10.S1", rearm == {f"{HC}._start_reconnecting"} and "?" not in writers,
             f"self.{flag} is re-armed (set False) only by _start_reconnecting, whose callers are the triggers swept above",
             f"{M}:closing-flag-writers", f"self.{flag} is written by {shown}",
             ctx.func(f"{HC}._start_reconnecting").loc())
    foreign = sorted({g.qualname for g in _top_functions(ctx) for x in ast.walk(g.node)
                      if isinstance(x, (ast.Assign, ast.AugAssign, ast.AnnAssign))
                      for t in (x.targets if isinstance(x, ast.Assign) else [x.target])
                      if isinstance(t, ast.Attribute) and t.attr == flag and g.module.name.startswith("aiohomekit.controller.ip")
                      and not (isinstance(t.value, ast.Name) and t.value.id == "self")})
    ck.check("C10.S1", not foreign, f"self.{flag} is not written from outside the connection class", f"{M}:closing-flag-foreign-writers",
             f"the closing flag of a connection is assigned in {foreign}", ctx.func(f"{HC}.close").loc())


MANIFEST = {
    "technique": "CFG path and cycle queries with exception edges (loop exits, cycles avoiding the back-off sleep, must-pass-through "
    "gates), def-use terms for the gate conditions, interval analysis of the delay recurrence, who-may-call sweeps",
    "level_text": "Static, all paths and all cycles of the reconnect code: decides the structural premises of the property - which edges "
    "leave the retry loop, that every sleep-free cycle needs a newly excluded address and a remaining one, that the slept delay is a "
    "growing recurrence confined to (0, 60], that the sleep is interruptible without leaking its wake-up future, that there is one "
    "guarded connector task under one lock, that waiters shield the connector and wait a bounded time, that the host filter never "
    "yields an empty list and is reset on host changes, and that close/shutdown gate every trigger.",
    "level_note": "Not decided: the schedule-level statement itself (interleavings of zeroconf updates, callers, close at arbitrary "
    "virtual times) and the wall-clock behaviour of asyncio.sleep/timeout - these follow from the premises on a single-threaded event "
    "loop by an argument that is not mechanised here. Trusted: asyncio.sleep/shield/timeout/Lock and async_interrupt.interrupt "
    "semantics, the engine's raise-site table (external calls are assumed not to raise; the structural catch-all check covers "
    "arbitrary Exceptions from the attempt), is_connected as the connectedness predicate. IpDiscovery's own pre-pairing connection "
    "is not a pairing and is not covered by the shutdown guard rule.",
}

TWIN_FILES = [
    "aiohomekit/controller/ip/connection.py",
    "aiohomekit/controller/ip/pairing.py",
    "aiohomekit/controller/ip/discovery.py",
    "aiohomekit/controller/abstract.py",
]

_CF = "aiohomekit/controller/ip/connection.py"
_PF = "aiohomekit/controller/ip/pairing.py"
VARIANTS = [
    {
        "name": "cap dropped: interval = 1.5 * interval",
        "file": _CF,
        "old": "                interval = min(60, 1.5 * interval)\n",
        "new": "                interval = 1.5 * interval\n",
        "expect": "C10.B1",
    },
    {
        "name": "growth factor 1.0",
        "file": _CF,
        "old": "                interval = min(60, 1.5 * interval)\n",
        "new": "                interval = min(60, 1.0 * interval)\n",
        "expect": "C10.B1",
    },
    {
        "name": "initial delay moved into the loop",
        "file": _CF,
        "old": "            interval = 0.5\n\n            logger.debug(\"Starting reconnect loop to %s:%s\", self.hosts, self.port)\n\n            while not self.closing:\n",
        "new": "            logger.debug(\"Starting reconnect loop to %s:%s\", self.hosts, self.port)\n\n            while not self.closing:\n                interval = 0.5\n",
        "expect": "C10.B1",
    },
    {
        "name": "cap 600",
        "file": _CF,
        "old": "                interval = min(60, 1.5 * interval)\n",
        "new": "                interval = min(600, 1.5 * interval)\n",
        "expect": "C10.B1",
    },
    {
        "name": "delay reset to its start value in the HomeKitException handler",
        "file": _CF,
        "old": "                except HomeKitException as ex:\n                    self._last_connector_error = ex\n",
        "new": "                except HomeKitException as ex:\n                    self._last_connector_error = ex\n                    interval = 0.5\n",
        "expect": "C10.B1",
    },
    {
        "name": "delay updated only after some failures",
        "file": _CF,
        "old": "                interval = min(60, 1.5 * interval)\n",
        "new": "                if self._last_connector_error is not None:\n                    interval = min(60, 1.5 * interval)\n",
        "expect": "C10.B1",
    },
    {
        "name": "unconditional continue in the wrong-pairing-id handler",
        "file": _CF,
        "old": "                    if len(self._pair_verify_failed_hosts) > failed_host_count and any(\n                        _normalize_host(host) not in self._pair_verify_failed_hosts for host in self.hosts\n                    ):\n",
        "new": "                    if True:\n",
        "expect": "C10.G2",
    },
    {
        "name": "continue in the generic Exception handler",
        "file": _CF,
        "old": "                        \"%s: Unexpected error whilst trying to connect to accessory. Will retry.\",\n                        self.name,\n                    )\n",
        "new": "                        \"%s: Unexpected error whilst trying to connect to accessory. Will retry.\",\n                        self.name,\n                    )\n                    continue\n",
        "expect": "C10.G2",
    },
    {
        "name": ">= instead of > in the failed-host-count comparison",
        "file": _CF,
        "old": "if len(self._pair_verify_failed_hosts) > failed_host_count and any(",
        "new": "if len(self._pair_verify_failed_hosts) >= failed_host_count and any(",
        "expect": "C10.G2",
    },
    {
        "name": "untried-host condition dropped from the fast retry",
        "file": _CF,
        "old": "                    if len(self._pair_verify_failed_hosts) > failed_host_count and any(\n                        _normalize_host(host) not in self._pair_verify_failed_hosts for host in self.hosts\n                    ):\n",
        "new": "                    if len(self._pair_verify_failed_hosts) > failed_host_count:\n",
        "expect": "C10.G2",
    },
    {
        "name": "untried-host test without normalisation (differs from the filter)",
        "file": _CF,
        "old": "                        _normalize_host(host) not in self._pair_verify_failed_hosts for host in self.hosts\n                    ):\n",
        "new": "                        host not in self._pair_verify_failed_hosts for host in self.hosts\n                    ):\n",
        "expect": "C10.G2",
    },
    {
        "name": "failed-host count sampled after the attempt",
        "file": _CF,
        "old": "                except IncorrectPairingIdError as ex:\n                    self._last_connector_error = ex\n",
        "new": "                except IncorrectPairingIdError as ex:\n                    self._last_connector_error = ex\n                    failed_host_count = len(self._pair_verify_failed_hosts) - 1\n                    failed_host_count = len(self._pair_verify_failed_hosts)\n",
        "expect": "C10.G2",
    },
    {
        "name": "_get_connect_hosts drops the exclusions on every call",
        "file": _CF,
        "old": "        if not hosts:\n            self._pair_verify_failed_hosts.clear()\n",
        "new": "        self._pair_verify_failed_hosts.clear()\n        if not hosts:\n",
        "expect": "C10.G2",
    },
    {
        "name": "raise in the HomeKitException handler",
        "file": _CF,
        "old": "                except HomeKitException as ex:\n                    self._last_connector_error = ex\n",
        "new": "                except HomeKitException as ex:\n                    self._last_connector_error = ex\n                    raise\n",
        "expect": "C10.G1",
    },
    {
        "name": "break after a failure",
        "file": _CF,
        "old": "                except HomeKitException as ex:\n                    self._last_connector_error = ex\n",
        "new": "                except HomeKitException as ex:\n                    self._last_connector_error = ex\n                    break\n",
        "expect": "C10.G1",
    },
    {
        "name": "catch-all narrowed to OSError",
        "file": _CF,
        "old": "                except Exception as ex:\n                    self._last_connector_error = ex\n                    logger.exception(",
        "new": "                except OSError as ex:\n                    self._last_connector_error = ex\n                    logger.exception(",
        "expect": "C10.G1",
    },
    {
        "name": "authentication failure swallowed and retried",
        "file": _CF,
        "old": "                    # Authentication errors should bubble up because auto-reconnect is unlikely to help\n                    raise\n",
        "new": "                    # Authentication errors should bubble up because auto-reconnect is unlikely to help\n",
        "expect": "C10.G1",
    },
    {
        "name": "ConnectionReady no longer caught",
        "file": _CF,
        "old": "                except ConnectionReady:\n                    pass\n                finally:",
        "new": "                finally:",
        "expect": ["C10.G1", "C10.G3"],
    },
    {
        "name": "reconnect_soon completes the future without the done() check",
        "file": _CF,
        "old": "        if self._reconnect_future and not self._reconnect_future.done():\n",
        "new": "        if self._reconnect_future:\n",
        "expect": "C10.G3",
    },
    {
        "name": "sleep moved out of the interrupt block",
        "file": _CF,
        "old": "                    async with interrupt(self._reconnect_future, ConnectionReady, None):\n                        await asyncio.sleep(interval)\n",
        "new": "                    async with interrupt(self._reconnect_future, ConnectionReady, None):\n                        pass\n                    await asyncio.sleep(interval)\n",
        "expect": "C10.G3",
    },
    {
        "name": "_reconnect_future not reset after the sleep",
        "file": _CF,
        "old": "                finally:\n                    self._reconnect_future = None\n",
        "new": "                finally:\n                    pass\n",
        "expect": "C10.G3",
    },
    {
        "name": "wake-up future created once before the loop",
        "edits": [
            (_CF, "                self._reconnect_future = self._loop.create_future()\n                try:\n", "                try:\n"),
            (_CF, "            interval = 0.5\n", "            interval = 0.5\n            self._reconnect_future = self._loop.create_future()\n"),
            (_CF, "                finally:\n                    self._reconnect_future = None\n", "                finally:\n                    pass\n"),
        ],
        "file": _CF,
        "old": "",
        "new": "",
        "expect": "C10.G3",
    },
    {
        "name": "second _reconnect() call site in _connection_lost",
        "file": _CF,
        "old": "        else:\n            self._start_connector()\n",
        "new": "        else:\n            self._connector = async_create_task(self._reconnect())\n",
        "expect": "C10.W1",
    },
    {
        "name": "_start_connector guard removed",
        "file": _CF,
        "old": "        if (self._connector and not self._connector.done()) or self.is_connected:\n            return\n",
        "new": "",
        "expect": "C10.W1",
    },
    {
        "name": "_start_connector ignores a finished-or-not check (only tests existence inverted)",
        "file": _CF,
        "old": "        if (self._connector and not self._connector.done()) or self.is_connected:\n",
        "new": "        if (self._connector and self._connector.done()) or self.is_connected:\n",
        "expect": "C10.W1",
    },
    {
        "name": "lock test removed from _reconnect",
        "file": _CF,
        "old": "        if self._connect_lock.locked():\n            # Reconnect already in progress.\n            return None\n",
        "new": "",
        "expect": "C10.W1",
    },
    {
        "name": "asyncio.shield removed",
        "file": _CF,
        "old": "            await asyncio.shield(self._connector)\n",
        "new": "            await self._connector\n",
        "expect": "C10.G4",
    },
    {
        "name": "pairing waits without a timeout",
        "file": _PF,
        "old": "            async with asyncio_timeout(10):\n                await connection.ensure_connection()\n",
        "new": "            await connection.ensure_connection()\n",
        "expect": "C10.G4",
    },
    {
        "name": "timeout of the wait only logged",
        "file": _PF,
        "old": "            raise AccessoryDisconnectedError(\n                f\"Error while connecting to device {connection.hosts}:{connection.port}: \"\n",
        "new": "            logger.debug(\n                f\"Error while connecting to device {connection.hosts}:{connection.port}: \"\n",
        "expect": "C10.G4",
    },
    {
        "name": "filtered host list returned unguarded",
        "file": _CF,
        "old": "        if not hosts:\n            self._pair_verify_failed_hosts.clear()\n            return list(self.hosts)\n        return hosts\n",
        "new": "        return hosts\n",
        "expect": "C10.G5",
    },
    {
        "name": "exclusions kept after the host change",
        "file": _CF,
        "old": "                    self.hosts = pairing.description.addresses\n                    # The addresses may have been reassigned so any hosts\n                    # previously marked as belonging to another accessory\n                    # need to be tried again.\n                    self._pair_verify_failed_hosts.clear()\n",
        "new": "                    self.hosts = pairing.description.addresses\n",
        "expect": "C10.G5",
    },
    {
        "name": "closing set after _stop_connector",
        "file": _CF,
        "old": "        self.closing = True\n\n        await self._stop_connector()\n",
        "new": "        await self._stop_connector()\n\n        self.closing = True\n",
        "expect": "C10.G6",
    },
    {
        "name": "_connection_lost restarts the connector even when closing",
        "file": _CF,
        "old": "        if self.closing:\n            self.closed = True\n        else:\n            self._start_connector()\n",
        "new": "        if self.closing:\n            self.closed = True\n        self._start_connector()\n",
        "expect": "C10.G6",
    },
    {
        "name": "description update hastens the reconnect of a shut-down pairing",
        "file": _PF,
        "old": "        if not self._shutdown:\n            self.connection.reconnect_soon()\n",
        "new": "        self.connection.reconnect_soon()\n",
        "expect": "C10.G6",
    },
    {
        "name": "_ensure_connected ignores shutdown",
        "file": _PF,
        "old": "        if self._shutdown or connection.is_connected:\n            return\n",
        "new": "        if connection.is_connected:\n            return\n",
        "expect": "C10.G6",
    },
]

VARIANTS += [
    {"name": "loss of a deliberately dropped connection restarts the connector (endless retries after an authentication failure)",
     "file": "aiohomekit/controller/ip/connection.py", "old": "        if self.connection.protocol is self:", "new": "        if self.connection.protocol is self or self.connection.protocol is None:", "expect": "C10.G7"},
]
