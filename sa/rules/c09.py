"""C09  Requests are written byte-for-byte in the canonical iOS form."""

from __future__ import annotations

import ast

from ..engine.context import Context
from ..engine.loader import Func, dotted, walk_expr
from ..engine.report import norm_stmt
from ..engine.terms import contains, has_unknown, show, strip_sites
from ..spec import wire as W

PROPERTY = "C09"
EXPLANATION = (
    "Static template/provenance analysis of the request writer: (T1) the term handed to the single send_bytes call of "
    "HomeKitConnection.request() is encode_utf8(CRLF.join(L)) with the body appended exactly on the body-present "
    "outcome, where L - obtained by an ordered list-building analysis over every CFG path between the creation of the "
    "buffer and the join - is [request line, host_header, one 'name: value' line per header, '', '']; (K1) every call "
    "site of request() passes no headers without a body and exactly [('Content-Length', len(body)), ('Content-Type', "
    "content_type.value)] with one, and every content type reaching put/post is one of the two HAP MIME types; (K2) "
    "who-may-write sweep over host_header: only f'Host: [{h}]' on the ':' in h outcome and f'Host: {h}' on the other, "
    "h = getpeername()[0], no port; (G1) transport writes exist only in _send_lines (one writelines(payload), no "
    "write, not in a loop), _send_lines is called once per send_bytes outside any loop with the whole request, and "
    "send_bytes only by request(); (K3) hkjson.dump_bytes is orjson.dumps(data, option subset of OPT_NON_STR_KEYS) and "
    "every JSON body reaching put/post is that encoder applied once; (K4) the read URL and the write/subscribe payload "
    "shapes.  Quantifier covered: all CFG paths of the writer and all call sites in the package - not sampled requests."
)
TRUSTED = [
    "orjson.dumps without OPT_INDENT_2/OPT_APPEND_NEWLINE emits no insignificant whitespace (orjson's own formatting)",
    "str.join / str.encode / f-string formatting and list.append behave as documented",
    "asyncio transports hand one writelines() call to the network stack as one write",
]

CONN = "aiohomekit.controller.ip.connection"
HC = CONN + ".HomeKitConnection"
INSECURE = CONN + ".InsecureHomeKitProtocol"
SECURE = CONN + ".SecureHomeKitProtocol"
HKJSON = "aiohomekit.hkjson"
CT_CLASS = "aiohomekit.http.HttpContentTypes"
IP_PKG = "aiohomekit.controller.ip"

SEND_BYTES = {INSECURE + ".send_bytes", SECURE + ".send_bytes"}
SEND_LINES = INSECURE + "._send_lines"
RAW_WRITE_ATTRS = {"write", "writelines", "sendall", "sendto", "sendmsg", "sock_sendall"}
LOG_ATTRS = {"debug", "info", "warning", "error", "exception", "critical", "log"}
FOREIGN_ENCODERS = {
    "json.dumps", "json.dump", "commentjson.dumps", "commentjson.dump", HKJSON + ".dumps_indented",
}  # fmt: skip
PLUMBING = ("request", "get", "get_json", "put", "put_json", "post", "post_json", "post_tlv")


class Unrecognised(Exception):
    """The construct has a shape this rule does not model: becomes ANALYSIS-ERROR, never a verdict."""


# ====================================================================== small term helpers
def _alts(t) -> list:
    if t[0] == "phi":
        out = []
        for a in t[1]:
            for x in _alts(a):
                if x not in out:
                    out.append(x)
        return out
    return [t]


def _is_call(t, n_args=None) -> bool:
    return t[0] == "call" and (n_args is None or len(t[2]) == n_args)


def _plain_fmt(part, value=None) -> bool:
    """``{value}`` without conversion or format spec."""
    return part[0] == "fmt" and part[2] == -1 and part[3] is None and (value is None or part[1] == value)


# ====================================================================== call sites
class Site:
    """One call expression of the package; its CFG and CFG node are located on first use."""

    def __init__(self, ctx: Context, func: Func, call: ast.Call, cfg=None, node=None):
        self.ctx, self.func, self.call = ctx, func, call
        self._cfg, self._node, self._located = cfg, node, node is not None

    @property
    def cfg(self):
        if self._cfg is None:
            self._cfg = self.ctx.cfg(self.func.qualname)
        return self._cfg

    @property
    def node(self):
        """The CFG node evaluating the call; None when the call sits inside a lambda."""
        if not self._located:
            self._located = True
            cache = self.ctx._c09_located.setdefault(self.func.qualname, {})
            if not cache:
                for n in self.cfg.nodes:
                    for cc in self.ctx.calls(n):
                        cache.setdefault(id(cc), n)
            self._node = cache.get(id(self.call))
        return self._node

    def loc(self) -> str:
        return f"{self.func.module.relpath}:{getattr(self.call, 'lineno', 0)}"


def _own_calls(f: Func):
    """Call expressions of ``f``'s own body (lambdas are entered, nested defs / classes are separate functions)."""
    stack = list(ast.iter_child_nodes(f.node))
    while stack:
        n = stack.pop()
        if isinstance(n, (ast.FunctionDef, ast.AsyncFunctionDef, ast.ClassDef)):
            continue
        if isinstance(n, ast.Call):
            yield n
        stack.extend(ast.iter_child_nodes(n))


def _call_name(c: ast.Call) -> str | None:
    if isinstance(c.func, ast.Attribute):
        return c.func.attr
    if isinstance(c.func, ast.Name):
        return c.func.id
    return None


def _index(ctx: Context) -> dict[str, list[Site]]:
    """All call sites of the package, keyed by the called attribute / bare name (built once per run)."""
    idx = getattr(ctx, "_c09_index", None)
    if idx is not None:
        return idx
    idx = {}
    ctx._c09_located = {}
    for f in ctx.prog.package_functions():
        if isinstance(f.node, ast.Lambda):
            continue
        for c in _own_calls(f):
            nm = _call_name(c)
            if nm is not None:
                idx.setdefault(nm, []).append(Site(ctx, f, c))
    for v in idx.values():
        v.sort(key=lambda s: (s.func.module.relpath, s.call.lineno, s.call.col_offset))
    ctx._c09_index = idx
    return idx


def _sites_of(ctx: Context, name: str, targets: set[str]) -> list[Site]:
    """Call sites whose called name is ``name`` and whose resolved callee is one of ``targets``."""
    out = []
    for s in _index(ctx).get(name, []):
        if set(ctx.res.resolve_call(s.func, s.call, record=False)) & targets:
            out.append(s)
    return out


def _bind(callee: Func, call: ast.Call) -> dict | None:
    """parameter name -> argument expression; None when */** make the binding undecidable."""
    params = list(callee.pos_params)
    if callee.cls is not None and "staticmethod" not in callee.decorators and params:
        params = params[1:]
    kwonly = [a.arg for a in callee.node.args.kwonlyargs]
    out: dict[str, ast.expr] = {}
    for i, a in enumerate(call.args):
        if isinstance(a, ast.Starred) or i >= len(params):
            return None
        out[params[i]] = a
    for k in call.keywords:
        if k.arg is None or (k.arg not in params and k.arg not in kwonly) or k.arg in out:
            return None
        out[k.arg] = k.value
    return out


def _default_of(callee: Func, pname: str) -> ast.expr | None:
    a = callee.node.args
    pos = a.posonlyargs + a.args
    for i, d in enumerate(a.defaults):
        if pos[len(pos) - len(a.defaults) + i].arg == pname:
            return d
    for kw, d in zip(a.kwonlyargs, a.kw_defaults):
        if kw.arg == pname:
            return d
    return None


def _arg_term(ctx: Context, s: Site, expr: ast.expr | None):
    if expr is None:
        return None
    if s.node is None:
        return ("unknown", "call inside a lambda")
    return strip_sites(ctx.terms.of(s.cfg, s.node, expr))


def _in_loop(cfg, node) -> bool:
    return any(k == "loop" and p == "body" for k, _a, p in node.frames)


def _transport_like(ctx: Context, s: Site) -> bool:
    """The receiver of an attribute call is (or may be) an asyncio transport / socket of the IP connection."""
    c = s.call
    if not isinstance(c.func, ast.Attribute):
        return False
    for r in ctx.res.resolve_call(s.func, c, record=False):
        if r.startswith(("asyncio.Transport.", "asyncio.WriteTransport.", "asyncio.transports.", "socket.socket.")):
            return True
    recv = c.func.value
    d = dotted(recv)
    if d is not None and d.split(".")[-1] in ("transport", "_transport", "sock", "_sock", "socket", "writer", "_writer"):
        return True
    if s.node is not None:
        t = strip_sites(ctx.terms.of(s.cfg, s.node, recv))
        for a in _alts(t):
            if a[0] == "attr" and a[2] in ("transport", "_transport"):
                return True
    return False


# ====================================================================== list-building analysis
class ListFlow:
    """Ordered effects on one local list between its creating assignment and one use.

    Result: the set of token sequences over all CFG paths creation -> use.  Tokens:
    ('elem', term)  one appended element;  ('loop', frozenset(seqs))  zero or more iterations, each appending one of
    ``seqs``;  ('splice', term)  unknown number of elements;  ('insert', index, term).
    Unrelated statements (logging, other locals) emit nothing; any other use of the list is Unrecognised.
    """

    MAX_SHAPES = 64

    def __init__(self, ctx: Context, cfg, var: str, def_nid: int, use_nid: int, benign=()):
        self.ctx, self.cfg, self.var, self.d, self.u = ctx, cfg, var, def_nid, use_nid
        self.benign = set(benign)  # nodes whose use of the list is known to the caller (e.g. storing it in the payload dict)
        fwd = self._reach(def_nid, lambda n: [x[0] for x in cfg.nodes[n].succ], stop=use_nid)
        bwd = self._reach(use_nid, lambda n: [x[0] for x in cfg.nodes[n].pred], stop=def_nid)
        if use_nid not in fwd:
            raise Unrecognised("the list's creation does not reach its use")
        self.region = frozenset(fwd & bwd)
        self._tok: dict[int, tuple] = {}

    @staticmethod
    def _reach(start, nxt, stop):
        seen = {start}
        work = [start]
        while work:
            x = work.pop()
            if x == stop:
                continue
            for y in nxt(x):
                if y not in seen:
                    seen.add(y)
                    work.append(y)
        return seen

    # ---- effects of one node
    def literal_tokens(self, nid: int, lit: ast.expr) -> tuple:
        out = []
        for e in lit.elts:
            if isinstance(e, ast.Starred):
                out.extend(_splice_tokens(strip_sites(self.ctx.terms.of(self.cfg, nid, e.value))))
            else:
                out.append(("elem", strip_sites(self.ctx.terms.of(self.cfg, nid, e))))
        return tuple(out)

    def tokens(self, nid: int) -> tuple:
        if nid in self._tok:
            return self._tok[nid]
        n = self.cfg.nodes[nid]
        var = self.var
        T = self.ctx.terms
        res: tuple = ()
        if n.kind == "funcdef":
            if any(isinstance(x, ast.Name) and x.id == var for x in ast.walk(n.ast)):
                raise Unrecognised(f"the list is captured by nested definition `{getattr(n.ast, 'name', '?')}`")
        uses = [x for e in n.exprs if e is not None for x in walk_expr(e) if isinstance(x, ast.Name) and x.id == var]
        if uses and nid not in self.benign:
            a = n.ast
            call = a.value if isinstance(a, ast.Expr) and isinstance(a.value, ast.Call) else None
            meth = None
            if (
                call is not None
                and isinstance(call.func, ast.Attribute)
                and isinstance(call.func.value, ast.Name)
                and call.func.value.id == var
                and len(uses) == 1
                and not call.keywords
            ):
                meth = call.func.attr
            if n.kind == "stmt" and meth == "append" and len(call.args) == 1:
                res = (("elem", strip_sites(T.of(self.cfg, nid, call.args[0]))),)
            elif n.kind == "stmt" and meth == "extend" and len(call.args) == 1:
                y = call.args[0]
                if isinstance(y, (ast.List, ast.Tuple)):
                    res = self.literal_tokens(nid, y)
                else:
                    res = _splice_tokens(strip_sites(T.of(self.cfg, nid, y)))
            elif n.kind == "stmt" and meth == "insert" and len(call.args) == 2:
                res = (("insert", strip_sites(T.of(self.cfg, nid, call.args[0])), strip_sites(T.of(self.cfg, nid, call.args[1]))),)
            elif (
                n.kind == "stmt"
                and isinstance(a, ast.AugAssign)
                and isinstance(a.op, ast.Add)
                and isinstance(a.target, ast.Name)
                and a.target.id == var
                and len(uses) == 1
            ):
                if isinstance(a.value, (ast.List, ast.Tuple)):
                    res = self.literal_tokens(nid, a.value)
                else:
                    res = _splice_tokens(strip_sites(T.of(self.cfg, nid, a.value)))
            elif (
                n.kind == "stmt"
                and call is not None
                and isinstance(call.func, ast.Attribute)
                and call.func.attr in LOG_ATTRS
                and all(isinstance(x.ctx, ast.Load) for x in uses)
                and not any(isinstance(x, ast.Attribute) and isinstance(x.value, ast.Name) and x.value.id == var for x in walk_expr(call))
            ):
                res = ()  # the list is only printed
            else:
                raise Unrecognised(f"the list is used by `{norm_stmt(n.text())}` between its creation and its use")
        self._tok[nid] = res
        return res

    # ---- path summary
    def sequences(self, init: tuple) -> frozenset:
        memo: dict[int, object] = {}
        out = set()
        for w, lab, _e in self.cfg.nodes[self.d].succ:
            if lab != "x" and (w in self.region):
                out |= {init + s for s in self._walk(w, self.u, self.region, memo)}
        if not out:
            raise Unrecognised("no path from the list's creation to its use")
        return frozenset(out)

    def _cycle_nodes(self, n: int, dst: int, region) -> frozenset:
        """Nodes of region - {dst} lying on a cycle through n (empty: n is not a loop header here)."""
        ok = lambda x: x in region and x != dst  # noqa: E731
        fwd = set()
        work = [w for w, _l, _e in self.cfg.nodes[n].succ if ok(w)]
        while work:
            x = work.pop()
            if x in fwd:
                continue
            fwd.add(x)
            work.extend(w for w, _l, _e in self.cfg.nodes[x].succ if ok(w))
        if n not in fwd:
            return frozenset()
        bwd = set()
        work = [p for p, _l, _e in self.cfg.nodes[n].pred if ok(p)]
        while work:
            x = work.pop()
            if x in bwd:
                continue
            bwd.add(x)
            work.extend(p for p, _l, _e in self.cfg.nodes[x].pred if ok(p))
        return frozenset((fwd & bwd) | {n})

    def _walk(self, n: int, dst: int, region, memo) -> frozenset:
        """Token sequences of all paths n (inclusive) -> dst (exclusive) inside region."""
        if n == dst:
            return frozenset({()})
        if n in memo:
            if memo[n] is None:
                raise Unrecognised("loop entered other than through its header")
            return memo[n]
        memo[n] = None
        nodes = self.cfg.nodes
        res: set = set()
        cyc = self._cycle_nodes(n, dst, region)
        if cyc:
            if self.tokens(n):
                raise Unrecognised("a loop header changes the list")
            inner = cyc - {n}
            body: set = set()
            sub: dict[int, object] = {}
            for w, lab, _e in nodes[n].succ:
                if w in inner or w == n:
                    body |= self._walk(w, n, inner | {n}, sub)
            loop_tok = () if body <= {()} else (("loop", frozenset(body)),)
            for u in sorted(cyc):
                for w, lab, _e in nodes[u].succ:
                    if w in cyc or not (w in region or w == dst):
                        continue
                    if u != n and loop_tok:
                        pre = set()
                        sub2: dict[int, object] = {}
                        for w2, lab2, _e2 in nodes[n].succ:
                            if w2 in inner:
                                pre |= self._walk(w2, u, inner, sub2)
                        if lab != "x":
                            pre = {p + self.tokens(u) for p in pre}
                        if not pre <= {()}:
                            raise Unrecognised("a loop that changes the list is left in the middle of an iteration")
                    res |= {loop_tok + s for s in self._walk(w, dst, region, memo)}
        else:
            toks = self.tokens(n)
            for w, lab, _e in nodes[n].succ:
                if w in region or w == dst:
                    t = () if lab == "x" else toks
                    res |= {t + s for s in self._walk(w, dst, region, memo)}
        if len(res) > self.MAX_SHAPES:
            raise Unrecognised("too many different list shapes")
        memo[n] = frozenset(res)
        return memo[n]


def _creation_defs(du, nid: int, var: str) -> list:
    """Non-augmenting definitions of ``var`` reaching node ``nid`` (``x += ..`` definitions are looked through)."""
    out, seen, work = [], set(), [nid]
    while work:
        x = work.pop()
        for dn, d in du.reaching(x, var):
            if dn in seen:
                continue
            seen.add(dn)
            if d.kind == "aug":
                work.append(dn)
            else:
                out.append((dn, d))
    return out


def _splice_tokens(t) -> tuple:
    """What `lst.extend(<t>)` / `lst += <t>` adds: a display adds its elements; a comprehension over X adds one element per
    item of X - the same thing as a loop of appends (the loop variable is ('iter', X), its unpacked parts ('sub', .., i))."""
    from ..engine.terms import _bind_target, _subst_cvars

    if t[0] in ("tuple", "list") and not any(x[0] == "star" for x in t[1]):
        return tuple(("elem", x) for x in t[1])
    if t[0] == "const" and isinstance(t[1], (tuple, list)) and all(isinstance(x, (str, bytes)) for x in t[1]):
        return tuple(("elem", ("const", x)) for x in t[1])
    if t[0] == "comp" and t[1] in ("ListComp", "GeneratorExp") and len(t[3]) == 1:
        tgt, it, conds = t[3][0]
        # `for .. in X or ()`: nothing when X is empty / None, X's items otherwise - the items of X
        if it[0] == "bool" and it[1] == "Or" and len(it[2]) == 2 and it[2][1] in (("tuple", ()), ("list", ()), ("const", ()), ("const", "")):
            it = it[2][0]
        item = ("iter", it)
        m: dict = {}
        if tgt[0] == "cvar":
            m[tgt[1]] = item
        elif tgt[0] in ("tuple", "list") and all(x[0] == "cvar" for x in tgt[1]):
            for i, x in enumerate(tgt[1]):
                m[x[1]] = ("sub", item, ("const", i))
        else:
            return (("splice", t),)
        body = (("elem", _subst_cvars(t[2], m)),)
        return (("loop", frozenset({body, ()} if conds else {body})),)
    return (("splice", t),)


def list_sequences(ctx: Context, cfg, use_node, expr: ast.expr, benign=()) -> frozenset:
    """Shapes of the list denoted by ``expr`` at ``use_node``: literal, or a local built by literal + append calls."""
    if isinstance(expr, (ast.List, ast.Tuple)):
        lf = ListFlow.__new__(ListFlow)
        lf.ctx, lf.cfg = ctx, cfg
        return frozenset({lf.literal_tokens(use_node.id, expr)})
    du = ctx.terms.du(cfg)
    if not isinstance(expr, ast.Name) or expr.id not in du.local_names:
        raise Unrecognised(f"`{ast.unparse(expr)}` is not a list literal or a local list")
    var = expr.id
    cre = _creation_defs(du, use_node.id, var)
    if len(cre) != 1:
        raise Unrecognised(f"the list has {len(cre)} creating assignments reaching its use")
    def_nid, d = cre[0]
    if d.kind != "assign" or d.path != () or not isinstance(d.value, ast.List):
        raise Unrecognised("the list is not created by a list literal in this function")
    lf = ListFlow(ctx, cfg, var, def_nid, use_node.id, benign)
    return lf.sequences(lf.literal_tokens(def_nid, d.value))


def is_built_list(ctx: Context, cfg, nid: int, expr: ast.expr) -> bool:
    if isinstance(expr, (ast.List, ast.Tuple)):
        return True
    du = ctx.terms.du(cfg)
    if not isinstance(expr, ast.Name) or expr.id not in du.local_names:
        return False
    cre = _creation_defs(du, nid, expr.id)
    return len(cre) == 1 and cre[0][1].kind == "assign" and cre[0][1].path == () and isinstance(cre[0][1].value, ast.List)


def _all_elems(seqs, splices: bool = False) -> list | None:
    """Every element term that can occur in the list; None when a splice/insert makes that unknowable.  With ``splices``
    the spliced iterable itself stands for its elements (enough to ask "does everything derive from X")."""
    out = []
    for s in seqs:
        for tok in s:
            if tok[0] == "elem" or (splices and tok[0] == "splice"):
                if tok[1] not in out:
                    out.append(tok[1])
            elif tok[0] == "loop":
                sub = _all_elems(tok[1], splices)
                if sub is None:
                    return None
                out += [x for x in sub if x not in out]
            else:
                return None
    return out


def _origins(du, nid: int, expr: ast.expr, depth: int = 0):
    """Definitions an expression's value comes from, looking through plain ``a = b`` copies.  None: not a local name."""
    if not isinstance(expr, ast.Name) or expr.id not in du.local_names:
        return None
    out = []
    for dn, d in du.reaching(nid, expr.id):
        if d.kind == "assign" and d.path == () and isinstance(d.value, ast.Name) and d.value.id in du.local_names and depth < 8:
            out += _origins(du, dn, d.value, depth + 1) or []
        else:
            out.append((dn, d, expr.id))
    return out


def _resolve_expr(du, nid: int, expr: ast.expr, depth: int = 0):
    """Follow single plain assignments ``tmp = <expr>`` backwards -> (node id where evaluated, expression)."""
    while isinstance(expr, ast.Name) and expr.id in du.local_names and depth < 8:
        rd = du.reaching(nid, expr.id)
        if len(rd) != 1 or rd[0][1].kind != "assign" or rd[0][1].path != ():
            break
        nid, expr = rd[0][0], rd[0][1].value
        depth += 1
    return nid, expr


def _show_seq(seq) -> str:
    parts = []
    for tok in seq:
        if tok[0] == "elem":
            parts.append(show(tok[1], 70))
        elif tok[0] == "loop":
            parts.append("*each{" + " | ".join(sorted(_show_seq(b) for b in tok[1])) + "}")
        elif tok[0] == "splice":
            parts.append("*" + show(tok[1], 70))
        else:
            parts.append(f"insert@{show(tok[1], 20)}:{show(tok[2], 60)}")
    return "[" + ", ".join(parts) + "]"


def _truth_edges(ctx: Context, cfg, value) -> tuple[list, list]:
    """Edges on which ``value`` is known truthy / not-None, and edges on which it is falsy / None."""
    present, absent = [], []
    for n in cfg.nodes:
        if n.kind != "test":
            continue
        t = strip_sites(ctx.terms.of(cfg, n, n.exprs[0]))
        if t == value:
            present += ctx.edges(cfg, n, "T")
            absent += ctx.edges(cfg, n, "F")
        elif t[0] == "cmp" and len(t[1]) == 1 and t[1][0] in ("Is", "IsNot") and t[2][0] == value and t[2][1] == ("const", None):
            pos = t[1][0] == "IsNot"
            present += ctx.edges(cfg, n, "T" if pos else "F")
            absent += ctx.edges(cfg, n, "F" if pos else "T")
    return present, absent


# ====================================================================== the rules
def run(ctx: Context) -> None:
    ck = ctx.ck
    if ck.rule("C09.T1", "request(): CRLF template, request line first, Host second, one send_bytes call"):
        _guard(ctx, "C09.T1", _t1)
    if ck.rule("C09.K1", "request() call sites: entity headers only with a body, in the iOS order and casing"):
        _guard(ctx, "C09.K1", _k1)
    if ck.rule("C09.K2", "host_header: bracketed IPv6 literal or bare peer address, no port, single owner"):
        _guard(ctx, "C09.K2", _k2)
    if ck.rule("C09.G1", "one transport.writelines per request; _send_lines once per send_bytes, outside loops"):
        _guard(ctx, "C09.G1", _g1)
    if ck.rule("C09.K3", "compact JSON: dump_bytes = orjson.dumps without layout flags; every JSON body flows from it"):
        _guard(ctx, "C09.K3", _k3)
    if ck.rule("C09.K4", "read URL = /characteristics?id=aid.iid,...; write/subscribe item shapes"):
        _guard(ctx, "C09.K4", _k4)


def _settled(ck, rule: str) -> bool:
    """A violation or analysis error was already recorded for the rule."""
    return any(i.rule == rule and i.status != "HOLDS" for i in ck.instances)


def _require_min(ck, rule: str, what: str, count: int, minimum: int) -> None:
    """Frozen minimum of matched sites; not repeated when a reported site already explains the lower count."""
    if not _settled(ck, rule):
        ck.require_min(rule, what, count, minimum)


def _no_overrides(ctx: Context, rule: str, base: str, methods, allowed=()) -> None:
    """A subclass redefining an analysed method would send requests this rule never looked at."""
    for sub in sorted(ctx.prog.subclasses(base)):
        c = ctx.prog.classes.get(sub)
        if c is None:
            continue
        for m in methods:
            if m in c.methods and f"{sub}.{m}" not in allowed:
                ctx.ck.unknown(rule, f"{sub} overrides {m}(); the override is not covered by the C09 rules", c.methods[m].loc())


def _guard(ctx: Context, rule: str, fn) -> None:
    try:
        fn(ctx)
    except Unrecognised as e:
        ctx.ck.unknown(rule, f"unrecognised shape: {e}")


# ---------------------------------------------------------------------- T1
def _classify_line(t, p_self, p_method, p_target, p_headers) -> str:
    """Kind of one buffer element: R(equest line) H(ost) HDR BLANK, another literal ('lit:..'), or 'opaque'."""
    if t == ("const", ""):
        return "BLANK"
    if t == ("attr", ("param", p_self), "host_header"):
        return "H"
    if t[0] == "fstr":
        parts = t[1]
        if (
            len(parts) == 4
            and parts[0][0] == "fmt"
            and _plain_fmt(parts[0])
            and parts[0][1] in (("call", ("attr", ("param", p_method), "upper"), (), ()), ("param", p_method))
            and parts[1] == ("const", " ")
            and _plain_fmt(parts[2], ("param", p_target))
            and parts[3] == ("const", W.HTTP_VERSION_SUFFIX)
        ):
            return "R"
        item = ("iter", ("param", p_headers))
        if (
            len(parts) == 3
            and _plain_fmt(parts[0], ("sub", item, ("const", 0)))
            and parts[1] == ("const", W.HEADER_SEPARATOR)
            and _plain_fmt(parts[2], ("sub", item, ("const", 1)))
        ):
            return "HDR"
        return "lit:" + show(t, 80)
    if t[0] == "const" and isinstance(t[1], (str, bytes)):
        return "lit:" + repr(t[1])
    if t[0] == "attr" and t[1] == ("param", p_self):
        return "lit:self." + t[2]
    return "opaque"


def _kinds(seq, cls) -> tuple:
    out = []
    for tok in seq:
        if tok[0] == "elem":
            out.append(cls(tok[1]))
        elif tok[0] == "loop":
            out.append(("LOOP", frozenset(_kinds(b, cls) for b in tok[1])))
        else:
            out.append("lit:" + _show_seq((tok,)))
    return tuple(out)


def _sig(kinds) -> str:
    """Short stable signature of a buffer shape (used in construct keys)."""
    out = []
    for k in kinds:
        if isinstance(k, tuple):
            out.append("LOOP{" + "|".join(sorted(_sig(b) for b in k[1])) + "}")
        else:
            out.append("lit" if k.startswith("lit:") else k)
    return ",".join(out)


def _has_opaque(kinds) -> bool:
    for k in kinds:
        if k == "opaque":
            return True
        if isinstance(k, tuple) and any(_has_opaque(b) for b in k[1]):
            return True
    return False


_HDR_LOOP = ("LOOP", frozenset({("HDR",)}))
TEMPLATES = (("R", "H", "BLANK", "BLANK"), ("R", "H", _HDR_LOOP, "BLANK", "BLANK"))


def _t1(ctx: Context) -> None:
    ck, T = ctx.ck, ctx.terms
    f = ctx.func(HC + ".request")
    cfg = ctx.cfg(f.qualname)
    fk = ctx.fkey(f)
    pos = f.pos_params
    if len(pos) < 5:
        ck.unknown("C09.T1", "request() no longer has (self, method, target, headers, body) parameters", f.loc())
        return
    p_self, p_method, p_target, p_headers, p_body = pos[:5]
    _no_overrides(ctx, "C09.T1", HC, PLUMBING)

    sends: list = []
    others: list = []
    seen = set()
    for n in cfg.nodes:
        for c in ctx.calls(n):
            if id(c) in seen:
                continue
            seen.add(id(c))
            names = set(ctx.res.resolve_call(f, c, record=False))
            if names & SEND_BYTES or _call_name(c) == "send_bytes":
                sends.append((n, c))
            elif SEND_LINES in names or _call_name(c) == "_send_lines":
                others.append((n, c))
            elif _call_name(c) in RAW_WRITE_ATTRS and _transport_like(ctx, Site(ctx, f, c, cfg, n)):
                others.append((n, c))
    if not sends:
        ck.unknown("C09.T1", "request() contains no send_bytes call (anchor vanished)", f.loc())
        return
    ck.check(
        "C09.T1", len(sends) == 1, "request(): exactly one send_bytes call", f"{fk}:send_bytes-count",
        f"request() hands a request to the protocol in {len(sends)} send_bytes calls: "
        + "; ".join(f"`{norm_stmt(n.text())}`" for n, _c in sends),
        ctx.loc(f, sends[-1][0]),
    )
    ck.check(
        "C09.T1", not others, "request(): no other write to the transport", f"{fk}:other-write",
        "request() writes to the transport besides send_bytes: " + "; ".join(f"`{norm_stmt(n.text())}`" for n, _c in others),
        ctx.loc(f, others[0][0]) if others else f.loc(),
    )
    for n, _c in sends:
        ck.check(
            "C09.T1", not _in_loop(cfg, n), "request(): send_bytes is not inside a loop", f"{fk}:send_bytes-in-loop",
            "request() calls send_bytes inside a loop (several writes per request)", ctx.loc(f, n),
        )
    if len(sends) != 1:
        return
    node, call = sends[0]
    if len(call.args) != 1 or call.keywords:
        ck.unknown("C09.T1", "send_bytes is not called with one positional argument", ctx.loc(f, node))
        return
    full = T.of(cfg, node, call.args[0])
    if has_unknown(full):
        ck.unknown("C09.T1", f"the request term contains unknown parts: {show(full, 200)}", ctx.loc(f, node))
        return
    # ---- skeleton: head = <sep>.join(<list>).encode(<utf-8>) [+ body]
    joins = set()
    terminators: set = set()
    with_body = without_body = False
    for a in _alts(full):
        parts = list(a[1]) if a[0] == "add" else [a]
        head, extras = parts[0], [strip_sites(x) for x in parts[1:]]
        # (<sep>.join(<lines>) + <terminator>).encode(): the head's final empty line written as an explicit terminator
        if (_is_call(head) and head[1][0] == "attr" and head[1][2] == "encode" and head[1][1][0] == "add" and len(head[1][1][1]) == 2
                and head[1][1][1][1][0] == "const" and isinstance(head[1][1][1][1][1], str)):
            terminators.add(head[1][1][1][1][1])
            head = ("call", ("attr", head[1][1][1][0], "encode")) + tuple(head[2:])
        else:
            terminators.add(None)
        if not (_is_call(head) and head[1][0] == "attr" and head[1][2] == "encode" and _is_call(head[1][1], 1)
                and head[1][1][1][0] == "attr" and head[1][1][1][2] == "join" and not head[1][1][3]):
            ck.unknown("C09.T1", f"request bytes are not <sep>.join(<lines>).encode(): {show(a, 200)}", ctx.loc(f, node))
            return
        joins.add(head[1][1])
        enc_args = [strip_sites(x) for x in head[2]] + [strip_sites(v) for _k, v in head[3]]
        if enc_args and not all(x[0] == "const" for x in enc_args[:1]) or len(enc_args) > 1:
            ck.unknown("C09.T1", f"encode() arguments not recognised: {show(head, 120)}", ctx.loc(f, node))
            return
        ck.check(
            "C09.T1", not enc_args or enc_args[0][1] in W.UTF8_NAMES, "request head is encoded as UTF-8", f"{fk}:encoding",
            f"request head is encoded with {enc_args[0][1]!r}" if enc_args else "", ctx.loc(f, node),
        )
        if extras:
            if extras[0] != ("param", p_body):
                ck.unknown("C09.T1", f"what is appended after the head is not the body parameter: {show(extras[0], 120)}", ctx.loc(f, node))
                return
            with_body = True
            rest = extras[1:]
            if rest:
                literal = [x for x in rest if x[0] == "const" and isinstance(x[1], (bytes, str)) and len(x[1]) > 0]
                if literal or any(x == ("param", p_body) for x in rest):
                    ck.violated("C09.T1", f"{fk}:appended-after-body", "request(): something else is appended after the body: "
                                + ", ".join(show(x, 60) for x in rest), ctx.loc(f, node))
                else:
                    ck.unknown("C09.T1", "unrecognised terms appended after the body: " + ", ".join(show(x, 60) for x in rest), ctx.loc(f, node))
                    return
            else:
                ck.holds("C09.T1", "request(): nothing but the body follows the head", ctx.loc(f, node))
        else:
            without_body = True
    if len(joins) != 1:
        ck.unknown("C09.T1", "the request head is assembled by more than one join expression", ctx.loc(f, node))
        return
    ck.check("C09.T1", with_body, "request(): the body is appended to the head in the same buffer", f"{fk}:body-never-appended",
             "request(): the body never becomes part of the bytes handed to send_bytes", ctx.loc(f, node))
    ck.check("C09.T1", without_body, "request(): without a body the head is sent alone", f"{fk}:body-always-appended",
             "request(): something is appended to the head on every path", ctx.loc(f, node))
    join_t = next(iter(joins))
    sep = strip_sites(join_t[1][1])
    if sep[0] != "const" or not isinstance(sep[1], str):
        ck.unknown("C09.T1", f"line separator is not a string constant: {show(sep, 80)}", ctx.loc(f, node))
        return
    ck.check("C09.T1", sep[1] == W.CRLF, "request(): lines are joined with exactly CRLF", f"{fk}:line-separator",
             f"request(): lines are joined with {sep[1]!r}, not '\\r\\n'", ctx.loc(f, node))
    # ---- the join call in the source, and the list it joins
    cands = []
    seen = set()
    for n in cfg.nodes:
        for c in ctx.calls(n):
            if id(c) not in seen and isinstance(c.func, ast.Attribute) and c.func.attr == "join" and len(c.args) == 1:
                seen.add(id(c))
                if T.of(cfg, n, c) == join_t:
                    cands.append((n, c))
    if len(cands) != 1:
        ck.unknown("C09.T1", f"cannot locate the join expression of the request head ({len(cands)} candidates)", ctx.loc(f, node))
        return
    jn, jc = cands[0]
    seqs = list_sequences(ctx, cfg, jn, jc.args[0])
    if terminators != {None}:
        if len(terminators) != 1:
            ck.unknown("C09.T1", f"the request head is terminated in different ways on different paths: {sorted(map(repr, terminators))}", ctx.loc(f, node))
            return
        term = next(iter(terminators))
        ck.check("C09.T1", term == sep[1] * 2, "request(): the explicit terminator after the joined lines is the separator twice (the two empty lines)",
                 f"{fk}:terminator", f"request(): the joined lines are followed by {term!r}; the head ends with CRLF CRLF", ctx.loc(f, node))
        if term != sep[1] * 2:
            return
        seqs = frozenset(tuple(sq) + (("elem", ("const", "")), ("elem", ("const", ""))) for sq in seqs)
    cls = lambda t: _classify_line(t, p_self, p_method, p_target, p_headers)  # noqa: E731
    n_ok = 0
    for seq in sorted(seqs, key=_show_seq):
        kinds = _kinds(seq, cls)
        if _has_opaque(kinds):
            ck.unknown("C09.T1", f"a buffer element is not a recognisable line: {_show_seq(seq)}", ctx.loc(f, jn))
            continue
        ok = kinds in TEMPLATES
        n_ok += ok
        ck.check(
            "C09.T1", ok, f"request(): buffer shape {_show_seq(seq)} = [request line, Host, headers.., '', '']",
            f"{fk}:buffer-shape:{_sig(kinds)}",
            f"request(): on some path the joined lines are {_show_seq(seq)}; required: [request line, self.host_header, "
            "one 'name: value' line per header, '', '']",
            ctx.loc(f, jn),
        )
    shapes = {_kinds(s, cls) for s in seqs}
    if n_ok == len(seqs):
        ck.check("C09.T1", TEMPLATES[1] in shapes, "request(): the headers are written between Host and the blank line",
                 f"{fk}:headers-never-written", "request(): no path writes the header lines", ctx.loc(f, jn))
    # ---- body gates: appended exactly on the body-present outcome
    du = T.du(cfg)
    origins = _origins(du, node.id, call.args[0])
    if origins is None or not with_body or not without_body:
        if with_body and without_body:
            ck.unknown("C09.T1", "cannot attribute the body/no-body alternatives to definitions", ctx.loc(f, node))
        return
    # the definitions that put the body behind the head (`x += body`, or `x = head + body`), wherever they stand
    def _with_body(dn, d) -> bool:
        if d.kind == "aug":
            return True
        return d.kind == "assign" and d.value is not None and contains(T.of(cfg, cfg.nodes[dn], d.value), lambda s_: s_ == ("param", p_body))

    appenders = [dn for dn, d, _v in origins if _with_body(dn, d)]
    present, absent = _truth_edges(ctx, cfg, ("param", p_body))
    for b in appenders:
        ctx.must_pass("C09.T1", cfg, b, "body test [present outcome]", present,
                      desc="request(): the body is appended only on the body-present outcome")
    # every way to the send that does not append the body took the body-absent outcome
    ctx.must_pass("C09.T1", cfg, node, "body test [absent outcome]", absent, avoid_nodes=appenders,
                  desc="request(): the head is sent alone only on the body-absent outcome")
    _require_min(ck, "C09.T1", "buffer shapes (with / without headers)", len(seqs), 1)


# ---------------------------------------------------------------------- plumbing shared by K1 / K3 / K4
def _hc(ctx: Context, name: str) -> Func:
    return ctx.func(f"{HC}.{name}")


def _wrapper_sites(ctx: Context, name: str) -> list[Site]:
    return _sites_of(ctx, name, {f"{HC}.{name}"})


def _content_type_at(ctx: Context, s: Site, callee: Func, bound: dict):
    """Content type value term bound at a put()/post() call site (default applied)."""
    ct_param = callee.pos_params[3] if len(callee.pos_params) > 3 else None
    if ct_param is None:
        return None
    if ct_param in bound:
        return _arg_term(ctx, s, bound[ct_param])
    d = _default_of(callee, ct_param)
    if d is None:
        return None
    ccfg = ctx.cfg(callee.qualname)
    return strip_sites(ctx.terms.of(ccfg, ccfg.entry, d))


# ---------------------------------------------------------------------- K1
def _k1(ctx: Context) -> None:
    ck = ctx.ck
    req = _hc(ctx, "request")
    rp = req.pos_params
    if len(rp) < 5:
        ck.unknown("C09.K1", "request() no longer has (self, method, target, headers, body) parameters", req.loc())
        return
    _s, p_method, p_target, p_headers, p_body = rp[:5]
    # the table of MIME types
    for member, want in sorted(W.CONTENT_TYPES.items()):
        try:
            got = ctx.prog.const_of(f"{CT_CLASS}.{member}")
        except Exception:  # noqa: BLE001
            ck.unknown("C09.K1", f"HttpContentTypes.{member} is not a constant")
            continue
        ck.check("C09.K1", got == want, f"HttpContentTypes.{member} = {want!r}", f"aiohomekit.http:HttpContentTypes.{member}",
                 f"HttpContentTypes.{member} is {got!r}, HAP requires {want!r}", ctx.prog.cls(CT_CLASS).module.relpath)
    extra = set(ctx.prog.cls(CT_CLASS).assigns) - set(W.CONTENT_TYPES)
    ck.check("C09.K1", not extra, "HttpContentTypes has no other member", "aiohomekit.http:HttpContentTypes.extra",
             f"HttpContentTypes has additional members {sorted(extra)}", ctx.prog.cls(CT_CLASS).module.relpath)

    sites = _sites_of(ctx, "request", {HC + ".request"})
    n_sites = 0
    ct_params: dict[str, str] = {}  # wrapper qualname -> its content-type parameter
    for wname in ("put", "post"):
        wf = _hc(ctx, wname)
        if len(wf.pos_params) > 3:
            ct_params[wf.qualname] = wf.pos_params[3]
    for s in sites:
        fk = ctx.fkey(s.func)
        b = _bind(req, s.call)
        if b is None or s.node is None:
            ck.unknown("C09.K1", f"{s.func.qualname}: arguments of request() cannot be bound", s.loc())
            continue
        n_sites += 1
        m = _arg_term(ctx, s, b.get(p_method))
        tgt = _arg_term(ctx, s, b.get(p_target))
        hdr = _arg_term(ctx, s, b.get(p_headers)) or ("const", None)
        body = _arg_term(ctx, s, b.get(p_body)) or ("const", None)
        wparams = set(s.func.params)
        if m is None or m[0] != "const" or not isinstance(m[1], str):
            ck.unknown("C09.K1", f"{s.func.name}: method is not a string constant ({show(m or ('const', None), 60)})", s.loc())
            continue
        ck.check("C09.K1", m[1] == m[1].upper() and m[1].isalpha(), f"{s.func.name}: method {m[1]!r} is an upper-case token",
                 f"{fk}:method", f"{s.func.name}: method {m[1]!r} is not an upper-case token", s.loc())
        if not (tgt is not None and tgt[0] == "param" and tgt[1] in wparams):
            ck.unknown("C09.K1", f"{s.func.name}: target is computed inside the wrapper ({show(tgt or ('const', None), 80)})", s.loc())
        has_body = body != ("const", None)
        if not has_body:
            ck.check("C09.K1", hdr in (("const", None), ("list", ()), ("tuple", ())), f"{s.func.name} ({m[1]}): no body, no entity headers",
                     f"{fk}:headers-without-body", f"{s.func.name}: sends headers {show(hdr, 120)} without a body", s.loc())
            continue
        # Content-Length announces the BYTES that are sent: when the body handed to request() is `<text>.encode(..)` and the
        # announced length is `len(<that text>)`, characters are counted - too small for every non-ASCII character
        sb, sh_ = strip_sites(body), strip_sites(hdr)
        if sh_[0] in ("list", "tuple") and sb != ("const", None):
            for x in sh_[1]:
                if x[0] == "tuple" and len(x[1]) == 2 and x[1][0] == ("const", "Content-Length"):
                    ln_ = x[1][1]
                    if not (ln_[0] == "call" and ln_[1] == ("glob", "len") and len(ln_[2]) == 1):
                        continue
                    text = ln_[2][0]
                    # the measured value is the text of the body: body = text.encode(..)  or  text = body.decode(..)
                    is_text_of_body = (sb[0] == "call" and sb[1][0] == "attr" and sb[1][2] == "encode" and sb[1][1] == text) or (
                        text[0] == "call" and text[1][0] == "attr" and text[1][2] == "decode" and text[1][1] == sb)
                    if is_text_of_body:
                        ck.violated("C09.K1", f"{fk}:content-length-counts-characters",
                                    f"{s.func.name}: Content-Length is len({show(text, 60)}) - the length of the TEXT - while the body sent is that text encoded: "
                                    "for a body with a non-ASCII character the announced length is smaller than the bytes on the wire", s.loc())
        if not (body[0] == "param" and body[1] in wparams):
            ck.unknown("C09.K1", f"{s.func.name}: body is computed inside the wrapper ({show(body, 80)}); its flow is not followed", s.loc())
            continue
        if hdr[0] not in ("list", "tuple") or any(x[0] != "tuple" or len(x[1]) != 2 for x in hdr[1]):
            if hdr == ("const", None):
                ck.violated("C09.K1", f"{fk}:headers-missing", f"{s.func.name}: sends a body without Content-Length / Content-Type", s.loc())
            else:
                ck.unknown("C09.K1", f"{s.func.name}: headers are not a literal list of pairs ({show(hdr, 120)})", s.loc())
            continue
        names = [x[1][0] for x in hdr[1]]
        if any(nm[0] != "const" for nm in names):
            ck.unknown("C09.K1", f"{s.func.name}: a header name is not a constant ({show(hdr, 120)})", s.loc())
            continue
        got = tuple(nm[1] for nm in names)
        ck.check("C09.K1", got == W.ENTITY_HEADERS, f"{s.func.name} ({m[1]}): headers are exactly {list(W.ENTITY_HEADERS)} in this order and casing",
                 f"{fk}:header-names", f"{s.func.name}: header names are {list(got)}, iOS sends {list(W.ENTITY_HEADERS)}", s.loc())
        if got != W.ENTITY_HEADERS:
            continue
        clen, ctype = hdr[1][0][1][1], hdr[1][1][1][1]
        ck.check("C09.K1", clen == ("call", ("glob", "len"), (body,), ()), f"{s.func.name}: Content-Length = len(<the body that is sent>)",
                 f"{fk}:content-length-value", f"{s.func.name}: Content-Length is {show(clen, 80)}, expected len({show(body, 40)})", s.loc())
        if ctype[0] == "const":
            ck.check("C09.K1", ctype[1] in W.CONTENT_TYPES.values(), f"{s.func.name}: Content-Type {ctype[1]!r} is a HAP MIME type",
                     f"{fk}:content-type-value", f"{s.func.name}: Content-Type is {ctype[1]!r}", s.loc())
        elif ctype[0] == "attr" and ctype[2] == "value" and ctype[1][0] == "param" and ctype[1][1] in wparams:
            ck.holds("C09.K1", f"{s.func.name}: Content-Type = {ctype[1][1]}.value (callers checked below)", s.loc())
            ct_params[s.func.qualname] = ctype[1][1]
        else:
            ck.unknown("C09.K1", f"{s.func.name}: Content-Type value not recognised ({show(ctype, 80)})", s.loc())
    _require_min(ck, "C09.K1", "call sites of request()", n_sites, 3)
    # every content type handed to a wrapper is one of the two MIME types (the engine folds enum members to values)
    n_ct = 0
    for q, p in sorted(ct_params.items()):
        callee = ctx.func(q)
        d = _default_of(callee, p)
        if d is not None:
            ccfg = ctx.cfg(q)
            dt = strip_sites(ctx.terms.of(ccfg, ccfg.entry, d))
            ck.check("C09.K1", dt[0] == "const" and dt[1] in W.CONTENT_TYPES.values(), f"{callee.name}: default content type is a HAP MIME type",
                     f"{ctx.fkey(callee)}:default-content-type", f"{callee.name}: default content type is {show(dt, 80)}", callee.loc())
        for s in _sites_of(ctx, callee.name, {q}):
            b = _bind(callee, s.call)
            if b is None:
                ck.unknown("C09.K1", f"{s.func.qualname}: arguments of {callee.name}() cannot be bound", s.loc())
                continue
            n_ct += 1
            if p not in b:
                if d is None:
                    ck.unknown("C09.K1", f"{s.func.name}: no content type passed to {callee.name}()", s.loc())
                continue
            t = _arg_term(ctx, s, b[p])
            if t[0] != "const":
                ck.unknown("C09.K1", f"{s.func.name}: content type passed to {callee.name}() is not a constant ({show(t, 80)})", s.loc())
                continue
            ck.check("C09.K1", t[1] in W.CONTENT_TYPES.values(), f"{s.func.name} -> {callee.name}(): content type {t[1]!r}",
                     f"{ctx.fkey(s.func)}:content-type->{callee.name}", f"{s.func.name}: passes content type {t[1]!r} to {callee.name}()", s.loc())
    _require_min(ck, "C09.K1", "call sites of put()/post()", n_ct, 4)


# ---------------------------------------------------------------------- K2
def _attr_stores(f: Func, attr: str):
    """Statements of ``f`` that store to ``<anything>.<attr>`` -> (statement, value expression or None)."""
    stack = list(ast.iter_child_nodes(f.node))
    while stack:
        n = stack.pop()
        if isinstance(n, (ast.FunctionDef, ast.AsyncFunctionDef, ast.ClassDef)):
            continue
        stack.extend(ast.iter_child_nodes(n))
        if isinstance(n, ast.Assign):
            for t in n.targets:
                if isinstance(t, ast.Attribute) and t.attr == attr:
                    yield n, n.value
                elif any(isinstance(x, ast.Attribute) and x.attr == attr and isinstance(x.ctx, ast.Store) for x in ast.walk(t)):
                    yield n, None
        elif isinstance(n, ast.AnnAssign) and isinstance(n.target, ast.Attribute) and n.target.attr == attr:
            if n.value is not None:
                yield n, n.value
        elif isinstance(n, ast.AugAssign) and isinstance(n.target, ast.Attribute) and n.target.attr == attr:
            yield n, None
        elif isinstance(n, (ast.For, ast.AsyncFor, ast.With, ast.AsyncWith, ast.NamedExpr, ast.Delete)):
            tg = []
            if isinstance(n, (ast.For, ast.AsyncFor)):
                tg = [n.target]
            elif isinstance(n, (ast.With, ast.AsyncWith)):
                tg = [i.optional_vars for i in n.items if i.optional_vars is not None]
            elif isinstance(n, ast.Delete):
                tg = n.targets
            if any(isinstance(x, ast.Attribute) and x.attr == attr for t in tg for x in ast.walk(t)):
                yield n, None
        elif (
            isinstance(n, ast.Call)
            and isinstance(n.func, ast.Name)
            and n.func.id in ("setattr", "delattr")
            and len(n.args) >= 2
            and isinstance(n.args[1], ast.Constant)
            and n.args[1].value == attr
        ):
            yield n, None


def _show_fstr(t, each: int = 40) -> str:
    if t[0] != "fstr":
        return show(t, 120)
    return 'f"' + "".join(str(p[1]) if p[0] == "const" else "{" + show(p[1], each) + "}" for p in t[1]) + '"'


def _is_peer_address(t) -> bool:
    """<socket>.getpeername()[0]"""
    return (
        t[0] == "sub" and t[2] == ("const", 0) and _is_call(t[1], 0) and not t[1][3]
        and t[1][1][0] == "attr" and t[1][1][2] == "getpeername"
    )


def _k2_property(ctx: Context) -> bool:
    """host_header defined as a (cached) property instead of an attribute refreshed by _connect_once."""
    ck = ctx.ck
    handled = False
    for c in ctx.prog.classes.values():
        m = c.methods.get("host_header")
        if m is None or not c.module.name.startswith("aiohomekit.controller.ip"):
            continue
        handled = True
        decs = [d.rsplit(".", 1)[-1].split("(")[0] for d in m.decorators]
        cached = any(d in ("cached_property", "cache", "lru_cache") for d in decs)
        if cached:
            # memoised once per connection OBJECT, but the object reconnects to other addresses
            inval = False
            for g in ctx.prog.package_functions():
                if isinstance(g.node, ast.Lambda) or not g.module.name.startswith("aiohomekit.controller.ip"):
                    continue
                for x in ast.walk(g.node):
                    if isinstance(x, ast.Delete) and any(isinstance(t, ast.Attribute) and t.attr == "host_header" for t in x.targets):
                        inval = True
                    if isinstance(x, ast.Call) and isinstance(x.func, ast.Attribute) and x.func.attr == "pop" and x.args and isinstance(x.args[0], ast.Constant) and x.args[0].value == "host_header":
                        inval = True
            ck.check(
                "C09.K2",
                inval,
                "host_header (memoised property) is invalidated on reconnect",
                f"{ctx.fkey(m)}:host_header-memoised",
                f"{c.name}.host_header is a memoised property ({', '.join(m.decorators)}) computed from the connected host on first use and never "
                "invalidated: after a reconnect to a different advertised address every request still carries the Host of the FIRST connection",
                m.loc(),
            )
        else:
            ck.unknown("C09.K2", f"{c.name}.host_header is a property: its forms are not decided by this rule", m.loc())
    return handled


def _k2(ctx: Context) -> None:
    ck, T = ctx.ck, ctx.terms
    if _k2_property(ctx):
        return
    owner = _hc(ctx, "_connect_once")
    init = _hc(ctx, "__init__")
    n_forms = {"plain": 0, "bracketed": 0}
    n_writes = 0
    for c in ctx.prog.classes.values():
        if "host_header" in c.assigns:
            ck.unknown("C09.K2", f"class-level assignment of host_header in {c.qualname}", c.module.relpath)
    for f in ctx.prog.package_functions():
        if isinstance(f.node, ast.Lambda) or "host_header" not in f.module.source:
            continue  # (an attribute store spells the attribute name: modules without it cannot contain one)
        for st, value in _attr_stores(f, "host_header"):
            n_writes += 1
            fk = ctx.fkey(f)
            loc = ctx.loc(f, st)
            text = norm_stmt(ast.unparse(st))
            cfg = ctx.cfg(f.qualname)
            nodes = cfg.nodes_for(st)
            if value is None or not nodes:
                ck.violated("C09.K2", f"{fk}:host_header-writer:{text}", f"{f.qualname}: host_header is modified by `{text}`", loc)
                continue
            node = nodes[0]
            t = strip_sites(T.of(cfg, node, value))
            if f.qualname == init.qualname:
                ck.check("C09.K2", t == ("const", None), "__init__: host_header starts as None (no connection yet)",
                         f"{fk}:host_header-initial", f"__init__ sets host_header to {show(t, 80)}", loc)
                continue
            if f.qualname != owner.qualname:
                ck.violated("C09.K2", f"{fk}:host_header-writer:{text}",
                            f"host_header is written outside HomeKitConnection._connect_once: `{text}` in {f.qualname}", loc)
                continue
            # the value is built here, or by a helper function called here (then every return of the helper is a form site)
            sites = [(f, cfg, node, t, None)]
            if t[0] == "phi" and isinstance(value, ast.Name):
                # a local with several definitions (the result of a helper that the engine inlined: one definition per `return`
                # of the helper): every definition is a form site, judged where it stands
                du = T.du(cfg)
                defs = [(dn, d) for dn, d in du.reaching(node.id, value.id) if d.kind == "assign" and not d.path]
                if defs and len(defs) == len(t[1]):
                    sites = [(f, cfg, cfg.nodes[dn], strip_sites(T.of(cfg, cfg.nodes[dn], d.value)), None) for dn, d in defs]
            elif t[0] == "phi" and isinstance(value, ast.Call) and isinstance(value.func, ast.Attribute) and value.func.attr == "format" and isinstance(value.func.value, ast.Name):
                # `template.format(h)` with the template chosen by an if/else before: the form is decided where the template
                # is chosen - each choice is a form site, the i-th alternative of the formatted value belongs to the i-th choice
                du = T.du(cfg)
                defs = [(dn, d) for dn, d in du.reaching(node.id, value.func.value.id) if d.kind == "assign" and not d.path]
                if defs and len(defs) == len(t[1]) and len({strip_sites(T.of(cfg, cfg.nodes[dn], d.value)) for dn, d in defs}) == len(defs):
                    sites = [(f, cfg, cfg.nodes[dn], alt, None) for (dn, d), alt in zip(defs, t[1])]
            if t[0] == "phi" and len(sites) == 1 and sites[0][3] is t:
                # the choice lies deeper: follow the value through its single definitions to the local that has one
                # definition per alternative (`literal = f"[{h}]" if ":" in h else h; header = f"Host: {literal}"`)
                du = T.du(cfg)
                seen_n: set = set()
                work = [(node.id, x.id) for x in ast.walk(value) if isinstance(x, ast.Name)]
                found = None
                while work and found is None and len(seen_n) < 40:
                    at, nm = work.pop(0)
                    if (at, nm) in seen_n or nm not in du.local_names:
                        continue
                    seen_n.add((at, nm))
                    defs = [(dn, d) for dn, d in du.reaching(at, nm) if d.kind == "assign" and not d.path]
                    if len(defs) == len(t[1]) and len(du.reaching(at, nm)) == len(defs):
                        found = defs
                    elif len(defs) == 1 and len(du.reaching(at, nm)) == 1:
                        work += [(defs[0][0], x.id) for x in ast.walk(defs[0][1].value) if isinstance(x, ast.Name)]
                if found is not None:
                    sites = [(f, cfg, cfg.nodes[dn], alt, None) for (dn, d), alt in zip(found, t[1])]
            if t[0] == "call" and t[1][0] == "glob" and t[1][1] in ctx.prog.functions and not t[3]:
                g = ctx.prog.functions[t[1][1]]
                if not g.is_async and not g.is_generator and not isinstance(g.node, ast.Lambda) and len(t[2]) <= len(g.pos_params):
                    gcfg = ctx.cfg(g.qualname)
                    argmap = {("param", g.pos_params[i]): a for i, a in enumerate(t[2])}
                    sites = [(g, gcfg, rn, strip_sites(T.of(gcfg, rn, rn.exprs[0])), argmap) for rn in gcfg.nodes if rn.kind == "return" and rn.exprs and not rn.copy_of]
            # a conditional expression chooses the form inside one statement: each arm is a form site, gated by the
            # expression's own test instead of a branch of the graph
            sites2 = []
            for sf, scfg, snode, st_, argmap in sites:
                if st_[0] == "ifexp":
                    sites2.append((sf, scfg, snode, st_[2], argmap, (st_[1], True)))
                    sites2.append((sf, scfg, snode, st_[3], argmap, (st_[1], False)))
                else:
                    sites2.append((sf, scfg, snode, st_, argmap, None))
            for sf, scfg, snode, st_, argmap, egate in sites2:
                sfk = ctx.fkey(sf)
                sloc = ctx.loc(sf, snode)
                where = "_connect_once" if argmap is None else f"{sf.name} (called from _connect_once)"
                if has_unknown(st_):
                    ck.unknown("C09.K2", f"host_header value has unknown parts: {show(st_, 120)}", sloc)
                    continue
                if st_[0] != "fstr":
                    if st_[0] == "const":
                        ck.violated("C09.K2", f"{sfk}:host_header-form:{text}", f"{where}: host_header is the constant {st_[1]!r}", sloc)
                    else:
                        ck.unknown("C09.K2", f"host_header is not an f-string: {show(st_, 120)}", sloc)
                    continue
                parts = st_[1]
                consts = tuple(p[1] for p in parts if p[0] == "const")
                fmts = [p for p in parts if p[0] == "fmt"]
                form = None
                if len(parts) == 2 and parts[0][0] == "const" and consts == W.HOST_PLAIN and len(fmts) == 1 and _plain_fmt(fmts[0]):
                    form = "plain"
                elif len(parts) == 3 and parts[0][0] == "const" and parts[2][0] == "const" and consts == W.HOST_BRACKETED and len(fmts) == 1 and _plain_fmt(fmts[0]):
                    form = "bracketed"
                ck.check("C09.K2", form is not None, f"{where}: host_header = {_show_fstr(st_, 24)} is 'Host: ' + address, nothing else (no port)",
                         f"{sfk}:host_header-form:{_show_fstr(st_, 24)}",
                         f"{where}: host_header is {_show_fstr(st_)}; required f\"Host: [{{h}}]\" or f\"Host: {{h}}\" without port", sloc)
                if form is None:
                    continue
                n_forms[form] += 1
                h = fmts[0][1]
                hc = h if argmap is None else argmap.get(h, ("unknown", "not a parameter of the helper"))
                alts = _alts(hc)
                real = [a for a in alts if a != ("const", None)]
                ck.check("C09.K2", len(real) == 1 and _is_peer_address(real[0]), f"{where} ({form}): h is the connected peer address getpeername()[0]",
                         f"{sfk}:host-value:{form}", f"{where}: the Host value is {show(hc, 120)}, not the connected peer address", sloc)
                if ("const", None) in alts:
                    present, _absent = _truth_edges(ctx, cfg, hc)
                    ctx.must_pass("C09.K2", cfg, node, "peer address test [not None outcome]", present,
                                  desc=f"_connect_once ({form}): the address is known when the Host header is built")
                if egate is not None:
                    ct, arm = egate
                    ct = strip_sites(ct)
                    is_colon = ct[0] == "cmp" and len(ct[1]) == 1 and ct[1][0] in ("In", "NotIn") and ct[2] == (("const", ":"), h)
                    if not is_colon:
                        ck.unknown("C09.K2", f"{where}: the form is chosen by `{show(ct, 80)}`, not by a test of ':' in the address: not decided", sloc)
                        continue
                    has_colon = arm == (ct[1][0] == "In")
                    ck.check("C09.K2", has_colon == (form == "bracketed"),
                             f"{where}: the {form} form is chosen exactly when ':' in h is {'true' if form == 'bracketed' else 'false'}",
                             f"{sfk}:host-form-choice:{form}",
                             f"{where}: the {form} Host form is chosen when ':' in h is {'true' if has_colon else 'false'}", sloc)
                    continue
                colon, nocolon = [], []
                for n in scfg.nodes:
                    if n.kind != "test":
                        continue
                    tt = strip_sites(T.of(scfg, n, n.exprs[0]))
                    if tt[0] == "cmp" and len(tt[1]) == 1 and tt[1][0] in ("In", "NotIn") and tt[2] == (("const", ":"), h):
                        pos = tt[1][0] == "In"
                        colon += ctx.edges(scfg, n, "T" if pos else "F")
                        nocolon += ctx.edges(scfg, n, "F" if pos else "T")
                if form == "bracketed":
                    ctx.must_pass("C09.K2", scfg, snode, "':' in h [true outcome]", colon,
                                  desc=f"{where}: the bracketed form is used only for IPv6 literals (':' in h - every IPv6 literal, scoped ones like fe80::1%eth0 included, and no IPv4 literal)")
                else:
                    ctx.must_pass("C09.K2", scfg, snode, "':' in h [false outcome]", nocolon,
                                  desc=f"{where}: the bare form is used only when h has no ':' (a stricter test, e.g. inet_pton, leaves scoped IPv6 literals unbracketed)")
    _require_min(ck, "C09.K2", "assignments to host_header", n_writes, 2)
    _require_min(ck, "C09.K2", "bare Host form", n_forms["plain"], 1)
    if n_forms["plain"] and not n_forms["bracketed"]:
        ck.violated("C09.K2", f"{ctx.fkey(owner)}:no-bracketed-form", "_connect_once: IPv6 literals are never bracketed in the Host header", owner.loc())


# ---------------------------------------------------------------------- G1
def _g1(ctx: Context) -> None:
    ck, T = ctx.ck, ctx.terms
    idx = _index(ctx)
    # (a) raw writes: only transport.writelines(payload) in _send_lines, once, not in a loop
    sl = ctx.func(SEND_LINES)
    slcfg = ctx.cfg(SEND_LINES)
    if len(sl.pos_params) < 2:
        ck.unknown("C09.G1", "_send_lines no longer has a payload parameter", sl.loc())
        return
    payload = ("param", sl.pos_params[1])
    _no_overrides(ctx, "C09.G1", INSECURE, ("send_bytes", "_send_lines"), allowed=SEND_BYTES)
    n_wl = 0
    for name in sorted(RAW_WRITE_ATTRS):
        for s in idx.get(name, []):
            if not s.func.module.name.startswith(IP_PKG) or not isinstance(s.call.func, ast.Attribute):
                continue
            if not _transport_like(ctx, s):
                ck.unknown("C09.G1", f"{s.func.qualname}: cannot tell whether `{norm_stmt(ast.unparse(s.call))}` writes to the connection", s.loc())
                continue
            fk = ctx.fkey(s.func)
            text = norm_stmt(ast.unparse(s.call))
            if s.func.qualname != SEND_LINES or name != "writelines":
                ck.violated("C09.G1", f"{fk}:raw-write:{text}",
                            f"{s.func.qualname}: `{text}` writes to the transport; only _send_lines' single writelines(payload) may", s.loc())
                continue
            n_wl += 1
            arg = _arg_term(ctx, s, s.call.args[0]) if len(s.call.args) == 1 and not s.call.keywords else None
            ck.check("C09.G1", arg == payload, "_send_lines: writelines receives the whole payload", f"{fk}:writelines-arg",
                     f"_send_lines: writelines is given {show(arg, 80) if arg else '?'} instead of the payload", s.loc())
            ck.check("C09.G1", s.node is not None and not _in_loop(slcfg, s.node), "_send_lines: writelines is not inside a loop",
                     f"{fk}:writelines-in-loop", "_send_lines: writelines is called inside a loop", s.loc())
    if n_wl == 0:
        if not _settled(ck, "C09.G1"):
            ck.unknown("C09.G1", "_send_lines contains no transport.writelines call (anchor vanished)", sl.loc())
    else:
        ck.check("C09.G1", n_wl == 1, "_send_lines: exactly one writelines call", f"{ctx.fkey(sl)}:writelines-count",
                 f"_send_lines contains {n_wl} writelines calls", sl.loc())
    # (b) who may call _send_lines: the two send_bytes, once each, outside loops, with the whole request
    callers: dict[str, list[Site]] = {}
    for s in idx.get("_send_lines", []):
        if s.func.module.name.startswith(IP_PKG) or SEND_LINES in ctx.res.resolve_call(s.func, s.call, record=False):
            callers.setdefault(s.func.qualname, []).append(s)
    for q in sorted(set(callers) - SEND_BYTES):
        s = callers[q][0]
        ck.violated("C09.G1", f"{ctx.fkey(s.func)}:_send_lines-caller", f"{q} calls _send_lines; only send_bytes may", s.loc())
    n_callers = 0
    for q in sorted(SEND_BYTES):
        f = ctx.func(q)
        cfg = ctx.cfg(q)
        fk = ctx.fkey(f)
        short = q.split(".")[-2] + ".send_bytes"
        ss = callers.get(q, [])
        if not ss:
            ck.unknown("C09.G1", f"{short} contains no _send_lines call (anchor vanished)", f.loc())
            continue
        n_callers += 1
        # exactly one _send_lines call per request = per path: several call sites are fine when they exclude each other
        # (a single-frame fast path next to the framing loop), a second call reachable from the first is not
        again = None
        for a in ss:
            for b in ss:
                if a.node is None or b.node is None:
                    continue
                for e in cfg.out_edges(a.node, ("n", "T", "F")):
                    if e[1] == b.node.id or cfg.find_path(e[1], b.node.id) is not None:
                        again = (a, b)
        ck.check("C09.G1", again is None, f"{short}: at most one _send_lines call on any path ({len(ss)} call site(s))", f"{fk}:_send_lines-count",
                 f"{short}: after one _send_lines call another one is reachable - the request reaches the transport in several writes", ss[-1].loc())
        p = ("param", f.pos_params[1]) if len(f.pos_params) > 1 else None
        for s in ss:
            in_loop = s.node is None or _in_loop(cfg, s.node)
            ck.check("C09.G1", not in_loop, f"{short}: _send_lines is called outside every loop (after framing)", f"{fk}:_send_lines-in-loop",
                     f"{short}: _send_lines is called inside a loop - one transport write per frame instead of one per request", s.loc())
            if in_loop or again is not None:
                continue
            if len(s.call.args) != 1 or s.call.keywords:
                ck.unknown("C09.G1", f"{short}: _send_lines is not called with one positional argument", s.loc())
                continue
            a = s.call.args[0]
            t = _arg_term(ctx, s, a)
            du = T.du(cfg)
            _nid, lit = _resolve_expr(du, s.node.id, a)
            if isinstance(a, (ast.Tuple, ast.List)) or isinstance(lit, ast.Tuple):
                whole = t in (("tuple", (p,)), ("list", (p,)))
                # the encrypting variant may hand over a literal (length prefix, ciphertext) pair of ONE frame on a
                # path that excludes the framing loop: every element derives from the payload, nothing foreign
                framed = "Secure" in q and t[0] in ("tuple", "list") and len(t[1]) >= 1 and all(contains(e, lambda x: x == p) for e in t[1])
                ck.check("C09.G1", whole or framed, f"{short}: the whole payload goes to _send_lines in one piece",
                         f"{fk}:_send_lines-arg", f"{short}: _send_lines receives {show(t, 100)}, not the whole payload", s.loc())
            elif is_built_list(ctx, cfg, s.node.id, a):
                seqs = list_sequences(ctx, cfg, s.node, a)
                elems = _all_elems(seqs, splices=True)
                if elems is None:
                    ck.unknown("C09.G1", f"{short}: frames list has unrecognised effects: " + "; ".join(sorted(map(_show_seq, seqs))), s.loc())
                    continue
                ck.holds("C09.G1", f"{short}: _send_lines receives the complete frame list built before the call: "
                         + "; ".join(sorted(map(_show_seq, seqs)))[:300], s.loc())
                # every frame appended derives from the payload parameter (nothing foreign is interleaved)
                foreign = [e for e in elems if not contains(e, lambda x: x == p)]
                ck.check("C09.G1", not foreign, f"{short}: every element of the frame list derives from the payload", f"{fk}:foreign-frame",
                         f"{short}: the frame list contains {show(foreign[0], 100) if foreign else ''}, which does not derive from the payload", s.loc())
            else:
                ck.unknown("C09.G1", f"{short}: argument of _send_lines not recognised ({show(t, 100)})", s.loc())
    _require_min(ck, "C09.G1", "send_bytes variants calling _send_lines", n_callers, 2)
    # (c) who may call send_bytes: request() only
    sb_callers = []
    for s in idx.get("send_bytes", []):
        if s.func.module.name.startswith(IP_PKG) or set(ctx.res.resolve_call(s.func, s.call, record=False)) & SEND_BYTES:
            sb_callers.append(s)
    for s in sb_callers:
        ck.check("C09.G1", s.func.qualname == HC + ".request", f"{s.func.name}: send_bytes is called by request()", f"{ctx.fkey(s.func)}:send_bytes-caller",
                 f"{s.func.qualname} calls send_bytes directly, bypassing request()", s.loc())
    _require_min(ck, "C09.G1", "send_bytes call sites", len(sb_callers), 1)


# ---------------------------------------------------------------------- K3
def _orjson_flags(t) -> tuple[set, list]:
    """Flag names OR-ed into an ``option=`` term, and the sub-terms that are not recognisable flags."""
    if t is None or t in (("const", None), ("const", 0)):
        return set(), []
    if t[0] == "binop" and t[1] == "BitOr":
        a, oa = _orjson_flags(t[2])
        b, ob = _orjson_flags(t[3])
        return a | b, oa + ob
    if t[0] == "glob" and t[1].startswith("orjson.OPT_"):
        return {t[1]}, []
    if t[0] == "attr" and t[1] == ("glob", "orjson") and t[2].startswith("OPT_"):
        return {"orjson." + t[2]}, []
    return set(), [t]


def _canon(ctx: Context, name: str | None) -> str | None:
    """Canonical dotted name; also sees through a package module's own imports (``hkjson.json.dumps`` -> ``json.dumps``).

    (Program.canonical leaves ``aiohomekit.hkjson.json.dumps`` alone because the external target has the same spelling
    as the unresolved remainder; this local helper closes that gap.)
    """
    if not name or not name.startswith("aiohomekit."):
        return name
    parts = name.split(".")
    for i in range(len(parts) - 1, 0, -1):
        mod = ctx.prog.modules.get(".".join(parts[:i]))
        if mod is not None:
            rest = parts[i:]
            tgt = mod.imports.get(rest[0])
            if tgt is not None and rest[0] not in mod.classes and rest[0] not in mod.functions:
                return _canon(ctx, ".".join([tgt] + rest[1:])) if tgt.startswith("aiohomekit.") else ".".join([tgt] + rest[1:])
            return name
    return name


def _json_encoding(ctx: Context, t):
    """Classify a body term -> (verdict, encoded data term, detail); verdict: compact / pretty / foreign / opaque."""
    t = strip_sites(t)
    if t[0] != "call":
        return "opaque", None, show(t, 100)
    fn = t[1]
    if fn[0] == "glob":
        fn = ("glob", _canon(ctx, fn[1]))
    kws = dict(t[3])
    if fn == ("glob", HKJSON + ".dump_bytes") and len(t[2]) == 1 and not kws:
        return "compact", t[2][0], "hkjson.dump_bytes"
    if fn == ("glob", "orjson.dumps"):
        if len(t[2]) != 1 or set(kws) - {"option"}:
            return "opaque", None, show(t, 100)
        flags, odd = _orjson_flags(kws.get("option"))
        if odd:
            return "opaque", None, "option=" + show(kws["option"], 80)
        extra = flags - W.ORJSON_ALLOWED_FLAGS
        if extra:
            return "pretty", t[2][0], "orjson.dumps with " + ", ".join(sorted(x.split(".")[-1] for x in extra))
        return "compact", t[2][0], "orjson.dumps(option=" + ("|".join(sorted(x.split(".")[-1] for x in flags)) or "0") + ")"
    if fn[0] == "glob" and (fn[1] in FOREIGN_ENCODERS or fn[1] == HKJSON + ".dumps"):
        if fn[1] == HKJSON + ".dumps":
            return "opaque", None, show(t, 100)
        return "foreign", t[2][0] if t[2] else None, fn[1]
    if fn[0] == "attr" and fn[2] in ("encode", "decode"):
        return _json_encoding(ctx, fn[1])
    return "opaque", None, show(t, 100)


def _k3(ctx: Context) -> None:
    ck, T = ctx.ck, ctx.terms
    # (a) the encoder itself
    q = HKJSON + ".dump_bytes"
    f = ctx.func(q)
    cfg = ctx.cfg(q)
    fk = ctx.fkey(f)
    rets = [n for n in cfg.nodes if n.kind == "return"]
    if not rets or not f.pos_params:
        ck.unknown("C09.K3", "hkjson.dump_bytes has no return / parameter", f.loc())
    for rn in rets:
        if not rn.exprs:
            ck.unknown("C09.K3", "hkjson.dump_bytes returns nothing on some path", ctx.loc(f, rn))
            continue
        t = T.of(cfg, rn, rn.exprs[0])
        for a in _alts(t):
            verdict, data, detail = _json_encoding(ctx, a)
            if verdict == "opaque" or a[0] == "call" and strip_sites(a)[1] == ("glob", q):
                ck.unknown("C09.K3", f"hkjson.dump_bytes returns an unrecognised encoding: {detail}", ctx.loc(f, rn))
                continue
            ck.check("C09.K3", verdict == "compact", f"hkjson.dump_bytes = {detail}: no OPT_INDENT_2 / OPT_APPEND_NEWLINE / other layout flag",
                     f"{fk}:encoder-flags", f"hkjson.dump_bytes encodes with {detail}: the output is not the compact form", ctx.loc(f, rn))
            ck.check("C09.K3", data == ("param", f.pos_params[0]), "hkjson.dump_bytes encodes exactly its argument", f"{fk}:encoder-data",
                     f"hkjson.dump_bytes encodes {show(data, 80) if data else '?'} instead of its argument", ctx.loc(f, rn))
    # (b) every JSON body handed to put()/post() is that encoder applied to the caller's data
    n_json = 0
    try:
        json_ct = ctx.prog.const_of(CT_CLASS + ".JSON")
    except Exception:  # noqa: BLE001
        json_ct = W.CONTENT_TYPES["JSON"]
    for wname in ("put", "post"):
        callee = _hc(ctx, wname)
        if len(callee.pos_params) < 4:
            ck.unknown("C09.K3", f"{wname}() no longer has (self, target, body, content_type) parameters", callee.loc())
            continue
        p_body = callee.pos_params[2]
        for s in _wrapper_sites(ctx, wname):
            b = _bind(callee, s.call)
            if b is None or s.node is None:
                ck.unknown("C09.K3", f"{s.func.qualname}: arguments of {wname}() cannot be bound", s.loc())
                continue
            ct = _content_type_at(ctx, s, callee, b)
            if ct is None or ct[0] != "const":
                ck.unknown("C09.K3", f"{s.func.name}: content type at the {wname}() call is not a constant", s.loc())
                continue
            if ct[1] not in (W.CONTENT_TYPES["JSON"], json_ct):
                continue
            n_json += 1
            if p_body not in b:
                ck.unknown("C09.K3", f"{s.func.name}: no body passed to {wname}()", s.loc())
                continue
            bt = T.of(s.cfg, s.node, b[p_body])
            fk = ctx.fkey(s.func)
            for a in _alts(bt):
                verdict, data, detail = _json_encoding(ctx, a)
                if verdict == "opaque":
                    ck.unknown("C09.K3", f"{s.func.name}: JSON body handed to {wname}() is not a recognisable encoder call: {detail}", s.loc())
                    continue
                ck.check("C09.K3", verdict == "compact", f"{s.func.name} -> {wname}(): JSON body = {detail} (compact)", f"{fk}:json-body->{wname}",
                         f"{s.func.name}: the JSON body handed to {wname}() is produced by {detail}, not by the compact encoder hkjson.dump_bytes",
                         s.loc())
                if verdict == "compact" and data is not None and (data[0] == "call" and _json_encoding(ctx, data)[0] != "opaque"):
                    ck.violated("C09.K3", f"{fk}:double-encoded->{wname}", f"{s.func.name}: the JSON body is encoded twice", s.loc())
    _require_min(ck, "C09.K3", "JSON bodies handed to put()/post()", n_json, 3)
    # (c) who-may-call: no pretty / stdlib encoder anywhere in controller/ip
    hits = 0
    for name, sites in sorted(_index(ctx).items()):
        if name not in ("dumps", "dump", "dumps_indented"):
            continue
        for s in sites:
            if not s.func.module.name.startswith(IP_PKG):
                continue
            d = dotted(s.call.func)
            r = _canon(ctx, ctx.prog.resolve_dotted(s.func.module, d)) if d else None
            if r in FOREIGN_ENCODERS:
                hits += 1
                ck.violated("C09.K3", f"{ctx.fkey(s.func)}:foreign-encoder:{r}",
                            f"{s.func.qualname} uses {r} in controller/ip; requests must be encoded with hkjson.dump_bytes", s.loc())
    if not hits:
        ck.holds("C09.K3", "controller/ip: no call of json.dumps / json.dump / commentjson.dumps / hkjson.dumps_indented", IP_PKG.replace(".", "/"))


# ---------------------------------------------------------------------- K4
def _id_pair_ok(aid, iid, targets) -> tuple[bool, object]:
    """aid/iid are element 0 and 1 of one iterated item -> (ok, the item term or comprehension target)."""
    if aid[0] == "sub" and iid[0] == "sub" and aid[1] == iid[1] and aid[1][0] == "iter" and (aid[2], iid[2]) == (("const", 0), ("const", 1)):
        return True, aid[1]
    for tg in targets:
        if tg[0] == "tuple" and len(tg[1]) >= 2 and tg[1][0] == aid and tg[1][1] == iid and aid[0] == "cvar" and iid[0] == "cvar":
            return True, tg
    return False, None


def _payload_items(ctx: Context, s: Site, eval_nid: int, v: ast.expr):
    """Item terms of the list stored under "characteristics" -> (items, comprehension targets)."""
    if is_built_list(ctx, s.cfg, eval_nid, v) and isinstance(v, ast.Name):
        du = ctx.terms.du(s.cfg)
        if [d for d, _x in _creation_defs(du, eval_nid, v.id)] != [d for d, _x in _creation_defs(du, s.node.id, v.id)]:
            raise Unrecognised("the payload list is re-created between building the body and sending it")
        seqs = list_sequences(ctx, s.cfg, s.node, v, benign={eval_nid})
        elems = _all_elems(seqs)
        if elems is None:
            raise Unrecognised("payload list has splices/insertions: " + "; ".join(sorted(map(_show_seq, seqs))))
        return elems, []
    t = strip_sites(ctx.terms.of(s.cfg, eval_nid, v))
    targets = []
    if t[0] == "list":
        if any(x[0] == "star" for x in t[1]):
            raise Unrecognised("payload list literal contains a starred element")
        return list(t[1]), []
    if t[0] == "iter":
        # one payload per request, taken from a prebuilt list of payloads
        t = t[1]
        if not (t[0] == "comp" and t[1] == "ListComp" and len(t[3]) == 1):
            raise Unrecognised(f"payloads are not prebuilt by a list comprehension: {show(t, 120)}")
        targets.append(t[3][0][0])
        t = t[2]
    if t[0] == "comp" and t[1] == "ListComp" and len(t[3]) == 1:
        targets.append(t[3][0][0])
        return [t[2]], targets
    raise Unrecognised(f"payload list not recognised: {show(t, 120)}")


def _k4(ctx: Context) -> None:
    ck, T = ctx.ck, ctx.terms
    # ---- plumbing: the target reaches the request line unchanged (get_json -> get; put_json -> put; request() itself is K1)
    for outer, inner in (("get_json", "get"), ("put_json", "put"), ("post_json", "post"), ("post_tlv", "post")):
        fo, fi = _hc(ctx, outer), _hc(ctx, inner)
        ss = [s for s in _wrapper_sites(ctx, inner) if s.func.qualname == fo.qualname]
        if len(ss) != 1:
            ck.unknown("C09.K4", f"{outer}() contains {len(ss)} calls of {inner}()", fo.loc())
            continue
        b = _bind(fi, ss[0].call)
        tp = fi.pos_params[1]
        t = _arg_term(ctx, ss[0], b.get(tp)) if b else None
        ck.check("C09.K4", t == ("param", fo.pos_params[1]), f"{outer}(): the target is passed to {inner}() unchanged", f"{ctx.fkey(fo)}:target-passthrough",
                 f"{outer}(): the target handed to {inner}() is {show(t, 80) if t else '?'}", ss[0].loc())
        if outer in ("put_json", "post_json") and b and fi.pos_params[2] in b:
            verdict, data, _d = _json_encoding(ctx, T.of(ss[0].cfg, ss[0].node, b[fi.pos_params[2]]))
            ck.check("C09.K4", verdict != "compact" or data == ("param", fo.pos_params[2]), f"{outer}(): the encoded data is the caller's payload, unchanged",
                     f"{ctx.fkey(fo)}:payload-passthrough", f"{outer}(): encodes {show(data, 80) if data else '?'} instead of the caller's payload", ss[0].loc())
    # ---- read URL
    n_read = 0
    for wname in ("get_json", "get"):
        callee = _hc(ctx, wname)
        for s in _wrapper_sites(ctx, wname):
            if s.func.qualname.startswith(HC + "."):
                continue
            b = _bind(callee, s.call)
            t = _arg_term(ctx, s, b.get(callee.pos_params[1])) if b else None
            if t is None:
                ck.unknown("C09.K4", f"{s.func.qualname}: target of {wname}() cannot be bound", s.loc())
                continue
            fk = ctx.fkey(s.func)
            if t[0] == "const" and isinstance(t[1], str):
                if "?" in t[1]:
                    ck.unknown("C09.K4", f"{s.func.name}: constant target with a query string {t[1]!r}", s.loc())
                else:
                    ck.holds("C09.K4", f"{s.func.name}: GET {t[1]} (constant target, no ids)", s.loc())
                continue
            if not (t[0] == "add" and len(t[1]) == 2 and t[1][0][0] == "const" and isinstance(t[1][0][1], str)):
                ck.unknown("C09.K4", f"{s.func.name}: GET target not recognised: {show(t, 160)}", s.loc())
                continue
            n_read += 1
            prefix, j = t[1][0][1], t[1][1]
            ck.check("C09.K4", prefix == W.READ_URL_PREFIX, f"{s.func.name}: read URL starts with {W.READ_URL_PREFIX!r}", f"{fk}:read-url-prefix",
                     f"{s.func.name}: read URL starts with {prefix!r}", s.loc())
            if not (_is_call(j, 1) and not j[3] and j[1][0] == "attr" and j[1][2] == "join" and j[1][1][0] == "const"):
                ck.unknown("C09.K4", f"{s.func.name}: id list is not <sep>.join(..): {show(j, 120)}", s.loc())
                continue
            ck.check("C09.K4", j[1][1][1] == W.ID_SEPARATOR, "read URL: ids are joined with ','", f"{fk}:id-separator",
                     f"{s.func.name}: ids are joined with {j[1][1][1]!r}, not ','", s.loc())
            comp = j[2][0]
            if not (comp[0] == "comp" and comp[1] in ("GeneratorExp", "ListComp") and len(comp[3]) == 1 and comp[3][0][0][0] == "tuple" and len(comp[3][0][0][1]) == 2):
                ck.unknown("C09.K4", f"{s.func.name}: ids are not rendered by one comprehension over (aid, iid) pairs: {show(comp, 120)}", s.loc())
                continue
            c1, c2 = comp[3][0][0][1]
            elt = comp[2]
            want = ("fstr", (("fmt", c1, -1, None), ("const", W.AID_IID_SEPARATOR), ("fmt", c2, -1, None)))
            if elt[0] not in ("fstr", "const"):
                ck.unknown("C09.K4", f"{s.func.name}: id rendering not recognised: {show(elt, 80)}", s.loc())
                continue
            ck.check("C09.K4", elt == want, "read URL: each id is rendered as f\"{aid}.{iid}\" of the iterated pair", f"{fk}:id-rendering",
                     f"{s.func.name}: each id is rendered as {show(elt, 80)}, expected f\"{{aid}}.{{iid}}\"", s.loc())
    _require_min(ck, "C09.K4", "read URLs built from id sets", n_read, 1)
    # ---- write / subscribe payloads
    pj = _hc(ctx, "put_json")
    counts = {"write": 0, "subscribe": 0}
    for s in _wrapper_sites(ctx, "put_json"):
        b = _bind(pj, s.call)
        fk = ctx.fkey(s.func)
        if b is None or s.node is None or pj.pos_params[1] not in b or pj.pos_params[2] not in b:
            ck.unknown("C09.K4", f"{s.func.qualname}: arguments of put_json() cannot be bound", s.loc())
            continue
        tgt = _arg_term(ctx, s, b[pj.pos_params[1]])
        if tgt[0] != "const":
            ck.unknown("C09.K4", f"{s.func.name}: put_json target is not a constant ({show(tgt, 80)})", s.loc())
            continue
        if tgt[1] != W.CHARACTERISTICS_TARGET:
            ck.holds("C09.K4", f"{s.func.name}: PUT {tgt[1]} is not a characteristics request", s.loc(), nontrivial=False)
            continue
        du = T.du(s.cfg)
        eval_nid, body = _resolve_expr(du, s.node.id, b[pj.pos_params[2]])
        if not isinstance(body, ast.Dict) or any(k is None for k in body.keys):
            ck.unknown("C09.K4", f"{s.func.name}: PUT /characteristics body is not a dict literal", s.loc())
            continue
        keys = [strip_sites(T.of(s.cfg, eval_nid, k)) for k in body.keys]
        ok_key = keys == [("const", W.PAYLOAD_KEY)]
        ck.check("C09.K4", ok_key, f"{s.func.name}: body is {{\"characteristics\": [...]}} and nothing else", f"{fk}:payload-key",
                 f"{s.func.name}: PUT /characteristics body has keys {[show(k, 30) for k in keys]}, expected only 'characteristics'", s.loc())
        if not ok_key:
            continue
        items, targets = _payload_items(ctx, s, eval_nid, body.values[0])
        if not items:
            ck.unknown("C09.K4", f"{s.func.name}: no item is ever added to the payload", s.loc())
            continue
        for it in items:
            if it[0] != "dict" or any(k[0] != "const" for k, _v in it[1]):
                ck.unknown("C09.K4", f"{s.func.name}: payload item is not a dict literal with constant keys: {show(it, 120)}", s.loc())
                continue
            ks = tuple(k[1] for k, _v in it[1])
            vals = {k[1]: v for k, v in it[1]}
            kind = "write" if set(ks) == set(W.WRITE_ITEM_KEYS) else "subscribe" if set(ks) == set(W.SUBSCRIBE_ITEM_KEYS) else None
            ck.check("C09.K4", kind is not None and len(ks) == len(set(ks)), f"{s.func.name}: item keys {list(ks)} are exactly aid, iid, value|ev",
                     f"{fk}:item-keys", f"{s.func.name}: item keys are {list(ks)}; required exactly aid, iid, value (write) or aid, iid, ev (subscribe)", s.loc())
            if kind is None or len(ks) != len(set(ks)):
                continue
            counts[kind] += 1
            ok, item = _id_pair_ok(vals["aid"], vals["iid"], targets)
            ck.check("C09.K4", ok, f"{s.func.name} ({kind}): \"aid\"/\"iid\" carry element 0/1 of the requested id", f"{fk}:{kind}-ids",
                     f"{s.func.name}: \"aid\" is {show(vals['aid'], 50)} and \"iid\" is {show(vals['iid'], 50)}; expected element 0 and 1 of the same id tuple", s.loc())
            if kind == "write":
                v = vals["value"]
                if not ok:
                    continue
                okv = (v == ("sub", item, ("const", 2)) or (item[0] == "tuple" and len(item[1]) == 3 and item[1][2] == v))
                ck.check("C09.K4", okv, f"{s.func.name} (write): \"value\" carries element 2 of the same tuple", f"{fk}:write-value",
                         f"{s.func.name}: \"value\" is {show(v, 80)}, expected element 2 of the written tuple", s.loc())
            else:
                ev = vals["ev"]
                if ev[0] == "const":
                    ck.check("C09.K4", isinstance(ev[1], bool), f"{s.func.name} (subscribe): \"ev\" is a boolean", f"{fk}:ev-value",
                             f"{s.func.name}: \"ev\" is {ev[1]!r}, not a boolean", s.loc())
                elif ev[0] == "param" and ev[1] in s.func.params:
                    ck.holds("C09.K4", f"{s.func.name} (subscribe): \"ev\" is the parameter {ev[1]} unchanged (callers below)", s.loc())
                    n_ev = 0
                    for cs in _sites_of(ctx, s.func.name, {s.func.qualname}):
                        cb = _bind(s.func, cs.call)
                        at = _arg_term(ctx, cs, cb.get(ev[1])) if cb else None
                        if at is None or at[0] != "const":
                            ck.unknown("C09.K4", f"{cs.func.name}: value passed for {ev[1]} is not a constant", cs.loc())
                            continue
                        n_ev += 1
                        ck.check("C09.K4", isinstance(at[1], bool), f"{cs.func.name}: passes {ev[1]}={at[1]!r} (boolean)", f"{ctx.fkey(cs.func)}:ev-argument",
                                 f"{cs.func.name}: passes {ev[1]}={at[1]!r}, which is not a boolean", cs.loc())
                    _require_min(ck, "C09.K4", f"callers of {s.func.name} passing {ev[1]}", n_ev, 2)
                elif has_unknown(ev):
                    ck.unknown("C09.K4", f"{s.func.name}: \"ev\" has unknown provenance", s.loc())
                else:
                    ck.violated("C09.K4", f"{fk}:ev-value", f"{s.func.name}: \"ev\" is {show(ev, 80)}, not the boolean flag itself", s.loc())
    _require_min(ck, "C09.K4", "write payload sites", counts["write"], 1)
    _require_min(ck, "C09.K4", "subscribe payload sites", counts["subscribe"], 1)


# ---------------------------------------------------------------------- thorough tier
def run_thorough(ctx: Context) -> None:
    """Package-wide sweeps by *name* (independent of call resolution) behind the anchor-based rules."""
    ck = ctx.ck
    idx = _index(ctx)
    distinctive = ("request", "put", "post", "get_json", "put_json", "post_json", "post_tlv", "send_bytes", "_send_lines")
    known = {f"{HC}.{n}" for n in PLUMBING} | SEND_BYTES | {SEND_LINES}
    if ck.rule("C09.S1", "sweep: every request-plumbing call under controller/ip resolves to an analysed method"):
        n = 0
        for name in distinctive:
            for s in idx.get(name, []):
                names = set(ctx.res.resolve_call(s.func, s.call, record=False))
                in_ip = s.func.module.name.startswith(IP_PKG)
                if not in_ip and not names & known:
                    continue
                n += 1
                if names and names <= known and s.node is not None:
                    ck.holds("C09.S1", f"{s.func.qualname}: `{norm_stmt(ast.unparse(s.call.func))}` -> {sorted(x.rsplit('.', 2)[-2] + '.' + x.rsplit('.', 1)[-1] for x in names)}", s.loc())
                elif not isinstance(s.call.func, ast.Attribute) and not names & known:
                    continue  # a bare function that merely shares the name
                else:
                    ck.unknown("C09.S1", f"{s.func.qualname}: `{norm_stmt(ast.unparse(s.call))[:80]}` resolves to {sorted(names) or 'nothing'}; "
                               "its request is not covered by the C09 rules", s.loc())
        _require_min(ck, "C09.S1", "request-plumbing call sites", n, 10)
        # the methods must not escape as values (f = conn.put; f(...))
        for f in ctx.prog.package_functions():
            if isinstance(f.node, ast.Lambda) or not f.module.name.startswith(IP_PKG):
                continue
            called = {id(c.func) for c in _own_calls(f)}
            stack = list(ast.iter_child_nodes(f.node))
            while stack:
                x = stack.pop()
                if isinstance(x, (ast.FunctionDef, ast.AsyncFunctionDef, ast.ClassDef)):
                    continue
                stack.extend(ast.iter_child_nodes(x))
                if isinstance(x, ast.Attribute) and isinstance(x.ctx, ast.Load) and x.attr in distinctive[1:] and id(x) not in called:
                    ck.unknown("C09.S1", f"{f.qualname}: method `{ast.unparse(x)}` is used as a value; calls through it are not followed", ctx.loc(f, x))
    if ck.rule("C09.S2", "sweep: every JSON encoder use under controller/ip is the compact encoder"):
        n = 0
        for name in ("dumps", "dump", "dump_bytes", "dumps_indented"):
            for s in idx.get(name, []):
                if not s.func.module.name.startswith(IP_PKG):
                    continue
                d = dotted(s.call.func)
                r = _canon(ctx, ctx.prog.resolve_dotted(s.func.module, d)) if d else None
                n += 1
                if r in (HKJSON + ".dump_bytes", HKJSON + ".dumps"):
                    ck.holds("C09.S2", f"{s.func.qualname}: {r.split('.', 1)[1]}", s.loc())
                elif r == "orjson.dumps" and s.node is not None:
                    verdict, _data, detail = _json_encoding(ctx, ctx.terms.of(s.cfg, s.node, s.call))
                    if verdict == "opaque":
                        ck.unknown("C09.S2", f"{s.func.qualname}: direct orjson.dumps use not recognised ({detail})", s.loc())
                    else:
                        ck.check("C09.S2", verdict == "compact", f"{s.func.qualname}: direct {detail}", f"{ctx.fkey(s.func)}:direct-orjson",
                                 f"{s.func.qualname}: {detail} under controller/ip", s.loc())
                elif r in FOREIGN_ENCODERS:
                    ck.violated("C09.S2", f"{ctx.fkey(s.func)}:foreign-encoder:{r}", f"{s.func.qualname} uses {r} under controller/ip", s.loc())
                else:
                    ck.unknown("C09.S2", f"{s.func.qualname}: encoder-like call `{norm_stmt(ast.unparse(s.call.func))}` resolves to {r}", s.loc())
        _require_min(ck, "C09.S2", "JSON encoder uses under controller/ip", n, 2)


MANIFEST = {
    "technique": "def-use terms (f-strings, flattened +, folded constants) compared with the frozen wire template; an ordered "
    "list-building analysis over the CFG (set of append sequences over all paths, loops summarised) for the line buffer, the "
    "frame list and the write payload; must-pass-through gates (edges) for the body and ':' in h outcomes; who-may-write / "
    "who-may-call sweeps for host_header, transport writes, _send_lines, send_bytes and JSON encoders",
    "level_text": "Static, all paths and all call sites: decides that the bytes handed to the protocol by request() are "
    "encode_utf8(CRLF.join([request line, Host, one line per header, '', ''])) plus the body exactly when present; that "
    "request()'s callers pass no headers without a body and exactly Content-Length, Content-Type (iOS order and casing, "
    "the two HAP MIME types) with one; that host_header is only ever 'Host: [h]' (':' in h) or 'Host: h' with h = "
    "getpeername()[0] and no port; that the only transport write under controller/ip is one writelines(payload) in "
    "_send_lines, reached once per send_bytes outside any loop and only from request(); that dump_bytes is orjson.dumps "
    "with no layout flag and is the encoder of every JSON body; and the read URL / write / subscribe payload shapes. The "
    "property is a wire template that exists as literals in the source, so this is its whole mechanism up to orjson's and "
    "asyncio's own behaviour.",
    "level_note": "Trusted: ast parse = what runs; orjson emits no insignificant whitespace without OPT_INDENT_2/"
    "OPT_APPEND_NEWLINE; str.join/encode/f-strings/list.append as documented; one writelines call = one write. Not decided: "
    "the order of keys inside a JSON item (the repository sends aid, iid, value), the encoding of characteristic values "
    "(C14), the framing of the encrypted session (C05: only 'all frames derive from the payload and go out in one "
    "_send_lines call' is decided here). Header values are formatted with plain {value} (str()). Unrecognised "
    "restructurings end in ANALYSIS-ERROR (exit 2), not a pass.",
}

TWIN_FILES = [
    "aiohomekit/controller/ip/connection.py",
    "aiohomekit/controller/ip/pairing.py",
    "aiohomekit/controller/ip/discovery.py",
    "aiohomekit/hkjson.py",
    "aiohomekit/http/__init__.py",
]
_CF = "aiohomekit/controller/ip/connection.py"
_PF = "aiohomekit/controller/ip/pairing.py"
_HEADERS = '                ("Content-Length", len(body)),\n                ("Content-Type", content_type.value),\n'
VARIANTS = [
    {
        "name": "Host form chosen by a conditional template, arms the wrong way round",
        "file": _CF,
        "old": '        if ":" in connected_host:\n            self.host_header = f"Host: [{connected_host}]"\n        else:\n            self.host_header = f"Host: {connected_host}"\n',
        "new": '        self.host_header = ("Host: {}" if ":" in connected_host else "Host: [{}]").format(connected_host)\n',
        "expect": "C09.K2",
    },
    # ---- Appendix A
    {
        "name": "the two entity headers swapped (put)",
        "file": _CF,
        "old": _HEADERS,
        "new": '                ("Content-Type", content_type.value),\n                ("Content-Length", len(body)),\n',
        "expect": "C09.K1",
    },
    {
        "name": "content-length in lower case (put)",
        "file": _CF,
        "old": '("Content-Length", len(body))',
        "new": '("content-length", len(body))',
        "expect": "C09.K1",
    },
    {
        "name": "lines joined with LF only",
        "file": _CF,
        "old": 'request_bytes = "\\r\\n".join(buffer)',
        "new": 'request_bytes = "\\n".join(buffer)',
        "expect": "C09.T1",
    },
    {
        "name": "OPT_INDENT_2 added to dump_bytes",
        "file": "aiohomekit/hkjson.py",
        "old": "    return orjson.dumps(data, option=orjson.OPT_NON_STR_KEYS)",
        "new": "    return orjson.dumps(data, option=orjson.OPT_NON_STR_KEYS | orjson.OPT_INDENT_2)",
        "expect": "C09.K3",
    },
    {
        "name": "port appended to the Host header",
        "file": _CF,
        "old": '            self.host_header = f"Host: {connected_host}"',
        "new": '            self.host_header = f"Host: {connected_host}:{self.port}"',
        "expect": "C09.K2",
    },
    {
        "name": "head and body sent in two send_bytes calls",
        "edits": [
            (_CF, "        if body:\n            request_bytes += body\n", ""),
            (
                _CF,
                "            resp = await self.protocol.send_bytes(request_bytes)\n",
                "            resp = await self.protocol.send_bytes(request_bytes)\n"
                "            if body:\n                resp = await self.protocol.send_bytes(body)\n",
            ),
        ],
        "file": _CF,
        "old": "",
        "new": "",
        "expect": "C09.T1",
    },
    {
        "name": "ids joined with ';' in the read URL",
        "file": _PF,
        "old": '"/characteristics?id=" + ",".join(',
        "new": '"/characteristics?id=" + ";".join(',
        "expect": "C09.K4",
    },
    # ---- own
    {
        "name": "Host header written after the other headers",
        "edits": [
            (_CF, 'HTTP/1.1", self.host_header]', 'HTTP/1.1"]'),
            (_CF, '        buffer.append("")\n        buffer.append("")\n', '        buffer.append(self.host_header)\n        buffer.append("")\n        buffer.append("")\n'),
        ],
        "file": _CF,
        "old": "",
        "new": "",
        "expect": "C09.T1",
    },
    {
        "name": "extra header line added in request()",
        "file": _CF,
        "old": '        buffer.append("")\n        buffer.append("")\n',
        "new": '        buffer.append("Connection: keep-alive")\n        buffer.append("")\n        buffer.append("")\n',
        "expect": "C09.T1",
    },
    {
        "name": "final blank line missing",
        "file": _CF,
        "old": '        buffer.append("")\n        buffer.append("")\n',
        "new": '        buffer.append("")\n',
        "expect": "C09.T1",
    },
    {
        "name": "header line without the space after the colon",
        "file": _CF,
        "old": 'buffer.append(f"{header}: {value}")',
        "new": 'buffer.append(f"{header}:{value}")',
        "expect": "C09.T1",
    },
    {
        "name": "headers skipped when the value is falsy (conditional append in the loop)",
        "file": _CF,
        "old": '                buffer.append(f"{header}: {value}")',
        "new": '                if value:\n                    buffer.append(f"{header}: {value}")',
        "expect": "C09.T1",
    },
    {
        "name": "CRLF appended after the body",
        "file": _CF,
        "old": "            request_bytes += body\n",
        "new": '            request_bytes += body + b"\\r\\n"\n',
        "expect": "C09.T1",
    },
    {
        "name": "body appended on the wrong outcome",
        "file": _CF,
        "old": "        if body:\n            request_bytes += body\n",
        "new": "        if not body:\n            request_bytes += body\n",
        "expect": "C09.T1",
    },
    {
        "name": "extra Accept header at the post() call site",
        "file": _CF,
        "old": 'method="POST",\n            target=target,\n            headers=[\n' + _HEADERS,
        "new": 'method="POST",\n            target=target,\n            headers=[\n' + _HEADERS + '                ("Accept", "*/*"),\n',
        "expect": "C09.K1",
    },
    {
        "name": "GET sent with a Content-Length header",
        "file": _CF,
        "old": '            method="GET",\n            target=target,\n',
        "new": '            method="GET",\n            target=target,\n            headers=[("Content-Length", 0)],\n',
        "expect": "C09.K1",
    },
    {
        "name": "JSON MIME type changed",
        "file": "aiohomekit/http/__init__.py",
        "old": 'JSON = "application/hap+json"',
        "new": 'JSON = "application/json"',
        "expect": "C09.K1",
    },
    {
        "name": "IPv6 literal not bracketed",
        "file": _CF,
        "old": 'self.host_header = f"Host: [{connected_host}]"',
        "new": 'self.host_header = f"Host: {connected_host}"',
        "expect": "C09.K2",
    },
    {
        "name": "Host header built from the configured host instead of the peer address",
        "file": _CF,
        "old": '            self.host_header = f"Host: {connected_host}"',
        "new": '            self.host_header = f"Host: {self.hosts[0]}"',
        "expect": "C09.K2",
    },
    {
        "name": "second writer of host_header in the secure connection",
        "file": _CF,
        "old": "        await super()._connect_once()\n",
        "new": '        await super()._connect_once()\n        self.host_header = f"Host: {self.hosts[0]}:{self.port}"\n',
        "expect": "C09.K2",
    },
    {
        "name": "writelines replaced by a loop of write",
        "file": _CF,
        "old": "            self.transport.writelines(payload)\n",
        "new": "            for chunk in payload:\n                self.transport.write(chunk)\n",
        "expect": "C09.G1",
    },
    {
        "name": "_send_lines called per frame inside the secure framing loop",
        "file": _CF,
        "old": "            self.c2a_counter += 1\n\n        return await self._send_lines(buffer)\n",
        "new": "            self.c2a_counter += 1\n            resp = await self._send_lines(buffer[-2:])\n\n        return resp\n",
        "expect": "C09.G1",
    },
    {
        "name": "head written directly to the transport before send_bytes",
        "file": _CF,
        "old": "            resp = await self.protocol.send_bytes(request_bytes)\n",
        "new": "            self.transport.write(request_bytes[:16])\n            resp = await self.protocol.send_bytes(request_bytes[16:])\n",
        "expect": ["C09.G1", "C09.T1"],
    },
    {
        "name": "insecure send_bytes hands only a prefix of the payload to _send_lines",
        "file": _CF,
        "old": "return await self._send_lines((payload,))",
        "new": "return await self._send_lines((payload[:64],))",
        "expect": "C09.G1",
    },
    {
        "name": "put_json encodes with dumps_indented",
        "file": _CF,
        "old": "            hkjson.dump_bytes(body),\n            content_type=HttpContentTypes.JSON,\n",
        "new": '            hkjson.dumps_indented(body).encode("utf-8"),\n            content_type=HttpContentTypes.JSON,\n',
        "expect": "C09.K3",
    },
    {
        "name": "image request encoded with the stdlib json module",
        "edits": [
            (_PF, "                body=hkjson.dump_bytes(\n", "                body=hkjson.json.dumps(\n"),
            (_PF, '                        "image-height": height,\n                    }\n                ),\n',
             '                        "image-height": height,\n                    }\n                ).encode(),\n'),
        ],
        "file": _PF,
        "old": "",
        "new": "",
        "expect": "C09.K3",
    },
    {
        "name": "OPT_APPEND_NEWLINE instead of OPT_NON_STR_KEYS",
        "file": "aiohomekit/hkjson.py",
        "old": "    return orjson.dumps(data, option=orjson.OPT_NON_STR_KEYS)",
        "new": "    return orjson.dumps(data, option=orjson.OPT_APPEND_NEWLINE)",
        "expect": "C09.K3",
    },
    {
        "name": "aid/iid values swapped in the write payload",
        "file": _PF,
        "old": '{"aid": aid, "iid": iid, "value": value}',
        "new": '{"aid": iid, "iid": aid, "value": value}',
        "expect": "C09.K4",
    },
    {
        "name": "write item key renamed",
        "file": _PF,
        "old": '{"aid": aid, "iid": iid, "value": value}',
        "new": '{"aid": aid, "iid": iid, "val": value}',
        "expect": "C09.K4",
    },
    {
        "name": "ev sent as a string",
        "file": _PF,
        "old": '{"aid": aid, "iid": iid, "ev": ev}',
        "new": '{"aid": aid, "iid": iid, "ev": str(ev).lower()}',
        "expect": "C09.K4",
    },
    {
        "name": "subscribe payload under a different key",
        "file": _PF,
        "old": '                {"characteristics": char_payload},\n',
        "new": '                {"chars": char_payload},\n',
        "expect": "C09.K4",
    },
    {
        "name": "ids rendered as aid:iid",
        "file": _PF,
        "old": 'f"{aid}.{iid}" for aid, iid in characteristics_set',
        "new": 'f"{aid}:{iid}" for aid, iid in characteristics_set',
        "expect": "C09.K4",
    },
    {
        "name": "extra field added to every write item after the append",
        "file": _PF,
        "old": '            char_payload.append({"aid": aid, "iid": iid, "value": value})\n',
        "new": '            char_payload.append({"aid": aid, "iid": iid, "value": value})\n            char_payload.append({"aid": aid, "iid": iid, "value": value, "remote": True})\n',
        "expect": "C09.K4",
    },
]
