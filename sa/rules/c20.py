"""C20  Saved pairings and accessory cache survive restart and interrupted saves."""

from __future__ import annotations

import ast

from ..engine.context import Context, is_membership
from ..engine.loader import dotted, walk_expr, walk_own
from ..engine.report import norm_stmt
from ..engine.terms import contains, show, strip_sites, subterms

PROPERTY = "C20"
EXPLANATION = (
    "Static analysis of persistence: (W1) crash consistency by POSIX rename atomicity - in Controller.save_data no "
    "write-open targets the pairing file itself; the bytes go to a different (temporary sibling) path that is moved over "
    "the target by os.replace/Path.replace/os.rename on every normal path after the write, and a package-wide sweep "
    "classifies every other write-open (only the accessory cache, whose corruption is tolerated by X1); all CLI saves go "
    "through save_data; (X1) the cache parse in CharacteristicCacheFile.__init__ sits in a try whose handler covers the "
    "JSON decode exception classes (incl. UnicodeDecodeError via ValueError) and falls through with the empty default "
    "assigned before; hkjson.loads converts LarkError to ValueError; (X2) load_data maps PermissionError and JSON errors "
    "to ConfigLoadingError, ignores FileNotFoundError and skips unsupported transports per pairing; (K1) writer/reader "
    "table agreement: for every field the property lists, the JSON key written by to_accessory_and_service_list is the key "
    "read by Accessory.create_from_dict and ends, via the keyword consumed by Characteristic.__init__, in the same "
    "attribute; the cache record's argument order, Pairing keys and the keys read at restore agree; broadcast key "
    "hex/fromhex; save_data writes {alias: pairing_data} and load_data feeds exactly that back; both sides use UTF-8 and "
    "hkjson. Quantifier: every crash point (by the rename argument) and every field row, not sampled files."
)
TRUSTED = [
    "POSIX: rename/replace of a completely written file over the target is atomic; file-system behaviour below that is not analysed",
    "orjson/commentjson parse and print JSON faithfully",
]

CTRL = "aiohomekit.controller.controller.Controller"
CACHE = "aiohomekit.characteristic_cache"
ABS = "aiohomekit.controller.abstract.AbstractPairing"
CHAR = "aiohomekit.model.characteristics.characteristic.Characteristic"
SERVICE = "aiohomekit.model.services.service.Service"
ACC = "aiohomekit.model.Accessory"

REQUIRED_CHAR_FIELDS = [
    "type", "iid", "perms", "format", "value", "minValue", "maxValue", "minStep", "valid-values", "unit",
    "description", "handle", "broadcast_events", "disconnected_events",
]  # fmt: skip


def _u(e) -> str:
    return " ".join(ast.unparse(e).split())


def _resolve_ast(T, cfg, node, expr):
    """Follow a Name through its unique reaching definition(s) to the defining expression (AST) and node."""
    du = T.du(cfg)
    cur_node, cur = node, expr
    for _ in range(6):
        if not isinstance(cur, ast.Name):
            break
        rd = du.reaching(cur_node.id, cur.id)
        if len(rd) != 1 or rd[0][1].kind != "assign" or rd[0][1].path:
            break
        cur_node, cur = cfg.nodes[rd[0][0]], rd[0][1].value
    return cur_node, cur


def _write_mode(ctx, f, call: ast.Call):
    """mode of an open()-like call if it writes, else None"""
    mode = None
    if len(call.args) >= 2:
        mode = ctx.const(f, call.args[1], None)
    for kw in call.keywords:
        if kw.arg == "mode":
            mode = ctx.const(f, kw.value, "?")
    if mode is None:
        return None
    if not isinstance(mode, str):
        return "?"
    return mode if any(c in mode for c in "wax+") else None


def write_opens(ctx: Context, f):
    """(node-ast call, path expr, how) for every file-writing call in function f"""
    out = []
    for n in walk_own(f.node):
        if not isinstance(n, ast.Call):
            continue
        if isinstance(n.func, ast.Name) and n.func.id == "open" and n.args:
            m = _write_mode(ctx, f, n)
            if m:
                out.append((n, n.args[0], f"open(mode={m!r})"))
        elif isinstance(n.func, ast.Attribute) and n.func.attr in ("write_text", "write_bytes"):
            out.append((n, n.func.value, n.func.attr))
        elif isinstance(n.func, ast.Attribute) and n.func.attr == "open" and (n.args or n.keywords):
            # Path.open("w")
            mode = ctx.const(f, n.args[0], None) if n.args else None
            for kw in n.keywords:
                if kw.arg == "mode":
                    mode = ctx.const(f, kw.value, "?")
            if isinstance(mode, str) and any(c in mode for c in "wax+"):
                out.append((n, n.func.value, f"Path.open({mode!r})"))
    return out


def run(ctx: Context) -> None:
    ck = ctx.ck
    if ck.rule("C20.W1", "atomic replacement of the pairing file"):
        _w1(ctx)
    if ck.rule("C20.X1", "a corrupt accessory cache is an empty cache"):
        _x1(ctx)
    if ck.rule("C20.X2", "load_data error translation"):
        _x2(ctx)
    if ck.rule("C20.K1", "writer / reader tables agree"):
        _k1(ctx)


# ---------------------------------------------------------------------- W1
def _node_of(cfg, a):
    for n in cfg.nodes:
        if n.ast is None:
            continue
        for e in n.exprs:
            if e is None:
                continue
            for sub in walk_expr(e):
                if sub is a:
                    return n
    return None


def _w1(ctx: Context) -> None:
    ck = ctx.ck
    f = ctx.func(f"{CTRL}.save_data")
    cfg = ctx.cfg(f.qualname)
    T = ctx.terms
    target = f.pos_params[1] if len(f.pos_params) > 1 else None
    if target is None:
        ck.unknown("C20.W1", "save_data has no filename parameter", f.loc())
        return

    def is_target(t) -> bool:
        """the term denotes the pairing file itself: filename or Path(filename)"""
        s = strip_sites(t)
        if s == ("param", target):
            return True
        if s[0] == "call" and s[1][0] == "glob" and s[1][1] in ("pathlib.Path", "pathlib.PurePath", "str", "os.fspath", "os.path.abspath") and s[2] and is_target(s[2][0]):
            return True
        return False

    wos = write_opens(ctx, f)
    if not wos:
        ck.unknown("C20.W1", "save_data no longer writes any file", f.loc())
        return
    tmp_terms = []
    for call, pexpr, how in wos:
        n = _node_of(cfg, call)
        pt = T.of(cfg, n, pexpr)
        if is_target(pt):
            ck.violated(
                "C20.W1",
                f"{ctx.fkey(f)}:in-place-write",
                f"save_data writes the pairing file in place ({how} on the target path): a crash between truncation and the "
                "end of the write destroys the previously saved pairings",
                ctx.loc(f, n),
                [f"{f.module.relpath}:{n.lineno}: {n.text()}", "  crash point: after truncation, before the last byte is written"],
                "save_data never opens the target for writing",
            )
        else:
            tmp_terms.append((n, pt, how))
            ck.holds("C20.W1", f"save_data writes to {show(pt, 80)} (not the target itself)", ctx.loc(f, n))
    # the target is never removed or truncated by the save (unlink + rename is not atomic: a crash in between leaves no file)
    for n in cfg.nodes:
        for c in ctx.calls(n):
            name = ctx.resolve_name(f, c.func) or ""
            victim = None
            if name in ("os.remove", "os.unlink", "os.truncate", "shutil.rmtree") and c.args:
                victim = T.of(cfg, n, c.args[0])
            elif isinstance(c.func, ast.Attribute) and c.func.attr in ("unlink", "rmdir", "touch", "write_text", "write_bytes") and name not in ("os.unlink",):
                victim = T.of(cfg, n, c.func.value)
            if victim is not None and is_target(victim):
                ck.violated(
                    "C20.W1",
                    f"{ctx.fkey(f)}:target-removed",
                    f"save_data removes/truncates the pairing file itself (`{n.text()[:70]}`) before the new content is in place: a crash right after it leaves "
                    "no pairing file at all, and a missing file is loaded as 'no pairings'",
                    ctx.loc(f, n),
                    [f"{f.module.relpath}:{n.lineno}: {n.text()}", "  crash point: after this statement, before the move"],
                    "save_data never removes the target",
                )
    # the move over the target
    moves = []
    for n in cfg.nodes:
        for c in ctx.calls(n):
            name = ctx.resolve_name(f, c.func) or ""
            src = dst = None
            if name in ("os.replace", "os.rename", "shutil.move") and len(c.args) >= 2:
                src, dst = T.of(cfg, n, c.args[0]), T.of(cfg, n, c.args[1])
            elif isinstance(c.func, ast.Attribute) and c.func.attr in ("replace", "rename") and len(c.args) == 1 and name not in ("os.replace",):
                rt = T.of(cfg, n, c.func.value)
                if not (rt[0] == "const" and isinstance(rt[1], (str, bytes))):
                    src, dst = rt, T.of(cfg, n, c.args[0])
            if src is not None:
                moves.append((n, src, dst))
    # the target is never the SOURCE of a move either (`os.replace(path, path.bak)` before the new file is moved in): between
    # the two renames no pairing file exists, and a missing file is loaded as 'no pairings'
    for n, src, dst in moves:
        if is_target(src):
            ck.violated(
                "C20.W1",
                f"{ctx.fkey(f)}:target-moved-away",
                f"save_data moves the pairing file itself away (`{n.text()[:70]}`): until the new content is moved in there is no pairing file, a crash "
                "in between leaves none, and a missing file is loaded as 'no pairings' (the next save then overwrites the copy as well)",
                ctx.loc(f, n),
                [f"{f.module.relpath}:{n.lineno}: {n.text()}", "  crash point: after this statement, before the move of the new file"],
                "save_data never moves the target away",
            )
    for n, pt, how in tmp_terms:
        good = [m for m in moves if strip_sites(m[1]) == strip_sites(pt) and is_target(m[2])]
        if not good:
            ck.violated(
                "C20.W1",
                f"{ctx.fkey(f)}:no-atomic-move",
                "save_data writes a temporary file but never moves it over the pairing file with os.replace/Path.replace",
                ctx.loc(f, n),
                None,
                "the temporary file is moved over the target",
            )
            continue
        # every normal path from the write to the exit passes the move, and the move comes after the write
        mv = {m[0].id for m in good}
        p = cfg.find_path(n.id, cfg.exit.id, avoid_nodes=mv, edge_ok=lambda u, d, l, e: l != "x")
        ck.check("C20.W1", p is None, "every normal path from the write to the end of save_data passes the atomic move",
                 f"{ctx.fkey(f)}:move-not-on-all-paths", "save_data can finish without moving the temporary file over the target",
                 ctx.loc(f, n), cfg.render_path(p) if p else None)
        p2 = cfg.find_path(cfg.entry.id, good[0][0].id, avoid_nodes=[n.id])
        ck.check("C20.W1", p2 is None, "the move happens only after the write", f"{ctx.fkey(f)}:move-before-write",
                 "save_data moves the temporary file before writing it", ctx.loc(f, good[0][0]))
        # the move is outside the `with` that holds the file open (the file is complete and closed)
        inside = any(fr[0] == "with" and fr[2] == "body" and any(c is call for it in fr[1].items for c in ast.walk(it.context_expr) for call in [w[0] for w in wos]) for fr in good[0][0].frames)
        ck.check("C20.W1", not inside, "the move happens after the file was closed", f"{ctx.fkey(f)}:move-inside-with",
                 "save_data moves the temporary file while it is still open for writing", ctx.loc(f, good[0][0]))
    # package-wide sweep: every other write-open is classified
    allowed = {
        f"{CACHE}.CharacteristicCacheFile._do_save": "accessory cache (a truncated cache is treated as empty: C20.X1)",
        f"{CTRL}.save_data": "pairing file (checked above)",
    }
    nsites = 0
    for g in ctx.prog.package_functions():
        if isinstance(g.node, ast.Lambda):
            continue
        for call, pexpr, how in write_opens(ctx, g):
            nsites += 1
            ck.check(
                "C20.W1",
                g.qualname in allowed,
                f"write-open in {g.qualname.split('.', 1)[1]}: {allowed.get(g.qualname, '')}",
                f"{ctx.fkey(g)}:unclassified-write-open",
                f"{g.qualname} writes a file ({how} on `{_u(pexpr)}`) outside the two known persistence functions: "
                "if this is the pairing file it bypasses the atomic save",
                ctx.loc(g, call),
            )
    ck.require_min("C20.W1", "write-open sites in the package", nsites, 2)
    # CLI: the pairing file is only written through save_data
    mainm = ctx.prog.modules.get("aiohomekit.__main__")
    if mainm is not None:
        n_saves = sum(1 for x in ast.walk(mainm.tree) if isinstance(x, ast.Call) and isinstance(x.func, ast.Attribute) and x.func.attr == "save_data")
        ck.check("C20.W1", n_saves >= 1, f"CLI saves through Controller.save_data ({n_saves} call sites)", "aiohomekit.__main__:save-sites",
                 "the CLI no longer saves through Controller.save_data", "aiohomekit/__main__.py:1")


# ---------------------------------------------------------------------- X1
def _x1(ctx: Context) -> None:
    ck = ctx.ck
    f = ctx.func(f"{CACHE}.CharacteristicCacheFile.__init__")
    cfg = ctx.cfg(f.qualname)
    loads = [(n, c) for n, c in ctx.nodes_calling_name(cfg, "loads")]
    if len(loads) != 1:
        ck.unknown("C20.X1", f"CharacteristicCacheFile.__init__: expected one JSON parse, found {len(loads)}", f.loc())
        return
    ln, _c = loads[0]
    decode = set(ctx.prog.modules["aiohomekit.hkjson"].assigns.get("JSON_DECODE_EXCEPTIONS") and
                 __import__("sa.engine.cfg", fromlist=["resolve_exc_classes"]).resolve_exc_classes(
                     ctx.prog, ctx.func("aiohomekit.hkjson.loads"), ast.parse("JSON_DECODE_EXCEPTIONS").body[0].value))
    ck.check("C20.X1", "ValueError" in decode, "hkjson.JSON_DECODE_EXCEPTIONS contains ValueError (covers JSONDecodeError, UnicodeDecodeError and the converted LarkError)",
             "aiohomekit.hkjson:JSON_DECODE_EXCEPTIONS", f"JSON_DECODE_EXCEPTIONS = {sorted(decode)} lacks ValueError", "aiohomekit/hkjson.py:1")
    # reading the (text-mode) file can fail with UnicodeDecodeError - a truncation inside a multi-byte sequence: the read
    # must sit in the same guarded region as the parse
    reads = [n for n in cfg.nodes for c in ctx.calls(n) if isinstance(c.func, ast.Attribute) and (
        (c.func.attr in ("read", "readlines", "readline") and not c.args) or c.func.attr == "read_text")]
    binary_reads = [n for n in cfg.nodes for c in ctx.calls(n) if isinstance(c.func, ast.Attribute) and c.func.attr == "read_bytes"]
    tries = [fr[1] for fr in ln.frames if fr[0] == "try" and fr[2] == "body"]
    for rn in reads:
        inside = any(fr[0] == "try" and fr[2] == "body" and fr[1] in tries for fr in rn.frames)
        ck.check("C20.X1", inside, "the cache file is read inside the guarded region (a truncated multi-byte sequence raises UnicodeDecodeError, a ValueError)",
                 f"{ctx.fkey(f)}:read-outside-try", "CharacteristicCacheFile.__init__ reads the cache file outside the try that tolerates corruption: a cache cut inside a multi-byte "
                 "UTF-8 sequence (or containing invalid bytes) raises UnicodeDecodeError and fails start-up", ctx.loc(f, rn))
    ck.require_min("C20.X1", "reads of the cache file", len(reads) + len(binary_reads), 1)
    # every class the parse can raise goes to a handler that does not raise
    classes = {exc for (_d, l, exc) in ln.succ if l == "x"}
    uncaught = {exc for (d, l, exc) in ln.succ if l == "x" and cfg.nodes[d].kind != "handler"}
    ck.check("C20.X1", bool(classes) and not uncaught, f"every exception of the cache parse ({sorted(c.rsplit('.', 1)[-1] for c in classes)}) is caught",
             f"{ctx.fkey(f)}:parse-uncaught", f"CharacteristicCacheFile.__init__: {sorted(uncaught)} from the cache parse is not caught - a corrupt cache fails start-up",
             ctx.loc(f, ln))
    hs = {d for (d, l, exc) in ln.succ if l == "x" and cfg.nodes[d].kind == "handler"}
    for h in hs:
        hn = cfg.nodes[h]
        covers = hn.handler_classes is None or any(ctx.prog.is_subclass("ValueError", c) for c in hn.handler_classes)
        ck.check("C20.X1", covers, "the handler covers ValueError and its subclasses", f"{ctx.fkey(f)}:handler-classes",
                 f"CharacteristicCacheFile.__init__: the corruption handler catches only {hn.handler_classes}", ctx.loc(f, hn))
        reach = cfg.reachable_from(h)
        raises = any(cfg.nodes[x].kind == "raise" for x in reach if any(fr[0] == "try" and isinstance(fr[2], tuple) and fr[2][1] is hn.ast for fr in cfg.nodes[x].frames))
        ck.check("C20.X1", cfg.exit.id in reach and not raises, "the corruption handler falls through (cold cache), it does not raise",
                 f"{ctx.fkey(f)}:handler-raises", "CharacteristicCacheFile.__init__: the corruption handler raises", ctx.loc(f, hn))
    # the empty default is assigned before (super().__init__ -> storage_data = {})
    sup = [n for n, c in ctx.nodes_calling_name(cfg, "__init__") if "super" in _u(c.func)]
    ok = bool(sup) and cfg.find_path(cfg.entry.id, ln.id, avoid_nodes=[s.id for s in sup]) is None
    mem = ctx.func(f"{CACHE}.CharacteristicCacheMemory.__init__")
    mcfg = ctx.cfg(mem.qualname)
    dflt = any(n.kind == "stmt" and isinstance(n.ast, (ast.Assign, ast.AnnAssign)) and _u(n.ast.targets[0] if isinstance(n.ast, ast.Assign) else n.ast.target) == "self.storage_data"
               and isinstance(n.ast.value, ast.Dict) and not n.ast.value.keys for n in mcfg.nodes)
    ck.check("C20.X1", ok and dflt, "the empty default map is assigned (by super().__init__) before the parse", f"{ctx.fkey(f)}:default-first",
             "CharacteristicCacheFile.__init__: no empty default before the parse - a corrupt cache leaves storage_data undefined", f.loc())
    # hkjson.loads converts LarkError
    hf = ctx.func("aiohomekit.hkjson.loads")
    esc = ctx.flow.esc(hf.qualname)
    ck.check("C20.X1", all(ctx.prog.is_subclass(e, "ValueError") for e in esc) and bool(esc),
             f"hkjson.loads lets only ValueError (sub)classes escape ({sorted(esc)})", f"{ctx.fkey(hf)}:escapes",
             f"hkjson.loads lets {sorted(esc)} escape; callers only catch the JSON decode classes", hf.loc())


# ---------------------------------------------------------------------- X2
def _x2(ctx: Context) -> None:
    ck = ctx.ck
    f = ctx.func(f"{CTRL}.load_data")
    cfg = ctx.cfg(f.qualname)
    handlers = {tuple(sorted(n.handler_classes or ["*"])): n for n in cfg.nodes if n.kind == "handler"}
    LOADERR = "aiohomekit.exceptions.ConfigLoadingError"

    def outcome(h):
        reach = cfg.reachable_from(h.id)
        classes = {exc for (s, l, exc) in cfg.xexit.pred if s in reach and l == "x"}
        return cfg.exit.id in reach, classes

    perm = [h for k, h in handlers.items() if "PermissionError" in k]
    ok = bool(perm) and outcome(perm[0]) == (False, {LOADERR})
    ck.check("C20.X2", ok, "PermissionError -> ConfigLoadingError", f"{ctx.fkey(f)}:permission", "load_data: PermissionError is not translated to ConfigLoadingError", f.loc())
    js = [h for k, h in handlers.items() if "ValueError" in k]
    ok = bool(js) and outcome(js[0]) == (False, {LOADERR})
    ck.check("C20.X2", ok, "JSON errors -> ConfigLoadingError", f"{ctx.fkey(f)}:json", "load_data: an unparsable pairing file is not reported as ConfigLoadingError", f.loc())
    nf = [h for k, h in handlers.items() if "FileNotFoundError" in k]
    ok = bool(nf) and outcome(nf[0]) == (True, set())
    ck.check("C20.X2", ok, "FileNotFoundError is ignored (fresh start)", f"{ctx.fkey(f)}:not-found", "load_data: a missing pairing file is not ignored", f.loc())
    tn = [h for k, h in handlers.items() if "aiohomekit.exceptions.TransportNotSupportedError" in k]
    ok = bool(tn) and any(fr[0] == "loop" for fr in tn[0].frames) and outcome(tn[0])[0]
    early = bool(tn) and any(isinstance(x, (ast.Break, ast.Return, ast.Raise)) for x in ast.walk(tn[0].ast))
    ck.check("C20.X2", ok and not early, "an unsupported transport skips that pairing only (handler inside the loop, no break/raise)",
             f"{ctx.fkey(f)}:unsupported-transport", "load_data: an unsupported pairing aborts loading the remaining pairings", f.loc())


# ---------------------------------------------------------------------- K1
def _k1(ctx: Context) -> None:
    ck = ctx.ck
    T = ctx.terms
    # ---- characteristic: writer table  json key -> attribute
    wf = ctx.func(f"{CHAR}.to_accessory_and_service_list")
    W: dict[str, str] = {}
    for n in walk_own(wf.node):
        if isinstance(n, ast.Dict):
            for k, v in zip(n.keys, n.values):
                kk = ctx.const(wf, k, None) if k is not None else None
                if isinstance(kk, str) and isinstance(v, ast.Attribute) and isinstance(v.value, ast.Name) and v.value.id == "self":
                    W[kk] = v.attr
        if isinstance(n, ast.Assign) and len(n.targets) == 1 and isinstance(n.targets[0], ast.Subscript):
            kk = ctx.const(wf, n.targets[0].slice, None)
            v = n.value
            if isinstance(kk, str) and isinstance(v, ast.Attribute) and isinstance(v.value, ast.Name) and v.value.id == "self":
                W[kk] = v.attr
    # ---- reader table  json key -> keyword of Characteristic.__init__ / special
    rf = ctx.func(f"{ACC}.create_from_dict")
    R: dict[str, str] = {}
    add_char_calls = []
    for n in walk_own(rf.node):
        if isinstance(n, ast.Dict):
            for k, v in zip(n.keys, n.values):
                kk = ctx.const(rf, k, None) if k is not None else None
                if isinstance(kk, str) and isinstance(v, ast.Subscript):
                    src = ctx.const(rf, v.slice, None)
                    if isinstance(src, str):
                        R[src] = kk
        if isinstance(n, ast.Assign) and len(n.targets) == 1 and isinstance(n.targets[0], ast.Subscript) and isinstance(n.value, ast.Subscript):
            kw = ctx.const(rf, n.targets[0].slice, None)
            src = ctx.const(rf, n.value.slice, None)
            if isinstance(kw, str) and isinstance(src, str):
                R[src] = kw
            else:
                # key and keyword held in locals (one row of a table of (json key, keyword) pairs): by value at that statement
                rcfg = ctx.cfg(rf.qualname)
                for cn in rcfg.nodes:
                    if cn.kind == "stmt" and cn.ast is n:
                        tk, ts = T.of(rcfg, cn, n.targets[0].slice), T.of(rcfg, cn, n.value.slice)
                        if tk[0] == "const" and ts[0] == "const" and isinstance(tk[1], str) and isinstance(ts[1], str):
                            R[ts[1]] = tk[1]
        if isinstance(n, ast.Call) and isinstance(n.func, ast.Attribute) and n.func.attr == "add_char":
            add_char_calls.append(n)
        if isinstance(n, ast.Call) and isinstance(n.func, ast.Attribute) and n.func.attr == "set_value" and n.args and isinstance(n.args[0], ast.Subscript):
            src = ctx.const(rf, n.args[0].slice, None)
            if isinstance(src, str):
                R[src] = "<set_value>"
    init = ctx.func(f"{CHAR}.__init__")
    iparams = init.pos_params
    for c in add_char_calls:
        if c.args and isinstance(c.args[0], ast.Subscript):
            src = ctx.const(rf, c.args[0].slice, None)
            if isinstance(src, str) and len(iparams) >= 3:
                R[src] = "<positional:" + iparams[2] + ">"
        for kw in c.keywords:
            if kw.arg and isinstance(kw.value, ast.Subscript):
                src = ctx.const(rf, kw.value.slice, None)
                if isinstance(src, str):
                    R[src] = kw.arg
    # ---- init table  keyword -> attribute
    I: dict[str, str] = {}
    for n in walk_own(init.node):
        if isinstance(n, ast.Assign) and len(n.targets) == 1 and isinstance(n.targets[0], ast.Attribute) and isinstance(n.targets[0].value, ast.Name) and n.targets[0].value.id == "self":
            v = n.value
            kwname = init.node.args.kwarg.arg if init.node.args.kwarg is not None else None
            # `<look-up>(.., kwargs, "key", ..)`: a call of a package function that receives the keyword dict and ONE constant
            # string, and returns `kwargs[key]` for a key that is present (method or plain function, whatever its name)
            if isinstance(v, ast.Call) and kwname and not v.keywords and any(isinstance(a_, ast.Name) and a_.id == kwname for a_ in v.args):
                strs = [(j, ctx.const(init, a_, None)) for j, a_ in enumerate(v.args) if isinstance(ctx.const(init, a_, None), str) and isinstance(a_, ast.Constant)]
                callees = [q_ for q_ in ctx.callee_names(init, v) if q_ in ctx.prog.functions]
                if len(strs) == 1 and len(callees) == 1:
                    cal = ctx.prog.functions[callees[0]]
                    off = 1 if (cal.cls is not None and isinstance(v.func, ast.Attribute)) else 0
                    kpos = next(j for j, a_ in enumerate(v.args) if isinstance(a_, ast.Name) and a_.id == kwname)
                    if len(cal.pos_params) > max(kpos, strs[0][0]) + off:
                        pk, ps = cal.pos_params[kpos + off], cal.pos_params[strs[0][0] + off]
                        ccfg_ = ctx.cfg(cal.qualname)
                        want_ = ("sub", ("param", pk), ("param", ps))
                        if any(r_.kind == "return" and r_.exprs and r_.exprs[0] is not None and strip_sites(T.of(ccfg_, r_, r_.exprs[0])) == want_ for r_ in ccfg_.nodes):
                            I[strs[0][1]] = n.targets[0].attr
            elif isinstance(v, ast.Call) and isinstance(v.func, ast.Attribute) and v.func.attr in ("get", "pop") and kwname and _u(v.func.value) == kwname and v.args:
                kw = ctx.const(init, v.args[0], None)
                if isinstance(kw, str):
                    I[kw] = n.targets[0].attr
            else:
                for x in ast.walk(v):
                    if isinstance(x, ast.Name) and len(iparams) >= 3 and x.id == iparams[2]:
                        I["<positional:" + iparams[2] + ">"] = n.targets[0].attr
    sv = ctx.func(f"{CHAR}.set_value")
    for n in walk_own(sv.node):
        if isinstance(n, ast.Assign) and isinstance(n.targets[0], ast.Attribute) and _u(n.targets[0].value) == "self":
            I["<set_value>"] = n.targets[0].attr
    # fields whose falsy values are meaningful (0, 0.0, False, []) must be written under `is not None`, not under truthiness
    ZERO_OK = {"minValue", "maxValue", "minStep", "handle", "valid-values", "broadcast_events", "disconnected_events"}
    wcfg = ctx.cfg(wf.qualname)
    for n in wcfg.nodes:
        a = n.ast
        if n.kind == "stmt" and isinstance(a, ast.Assign) and isinstance(a.targets[0], ast.Subscript):
            kk = ctx.const(wf, a.targets[0].slice, None)
            if kk in ZERO_OK and isinstance(a.value, ast.Attribute):
                attr_t = ("attr", ("param", "self"), a.value.attr)
                # edges that allow the write although the value is falsy-but-not-None: `is not None` tests (any outcome is fine)
                truthy_gate = []
                for m in wcfg.nodes:
                    if m.kind == "test" and strip_sites(T.of(wcfg, m, m.exprs[0])) == attr_t:
                        truthy_gate += wcfg.out_edges(m, ("T",))
                # if removing the truthiness edges makes the write unreachable, the write depends on truthiness
                dep = bool(truthy_gate) and wcfg.find_path(wcfg.entry.id, n.id, avoid_edges=truthy_gate) is None
                ck.check("C20.K1", not dep, f"characteristic field {kk!r} is written whenever it is not None (0 / False / [] are kept)", f"{CHAR}:falsy-dropped:{kk}",
                         f"to_accessory_and_service_list writes {kk!r} only when self.{a.value.attr} is truthy: a declared value of 0 / 0.0 / False is dropped and comes back as None after a restart",
                         ctx.loc(wf, n))
    ck.stats["c20_char_writer_table"] = W
    ck.stats["c20_char_reader_table"] = R
    ck.stats["c20_char_init_table"] = I
    for field in REQUIRED_CHAR_FIELDS:
        w = W.get(field)
        r = R.get(field)
        i = I.get(r) if r else None
        ck.check(
            "C20.K1",
            w is not None and r is not None and i is not None and w == i,
            f"characteristic field {field!r}: written from .{w}, read into {r}, stored in .{i}",
            f"{CHAR}:field:{field}",
            f"characteristic field {field!r} does not survive a save/restore: written from attribute {w!r}, read back into "
            f"keyword {r!r}, which Characteristic.__init__ stores in {i!r}",
            wf.loc(),
        )
    # ---- service / accessory rows
    sw = ctx.func(f"{SERVICE}.to_accessory_and_service_list")
    skeys = {ctx.const(sw, k, None) for n in walk_own(sw.node) if isinstance(n, ast.Dict) for k in n.keys if k is not None}
    skeys |= {ctx.const(sw, n.targets[0].slice, None) for n in walk_own(sw.node) if isinstance(n, ast.Assign) and isinstance(n.targets[0], ast.Subscript)}
    rkeys = set()
    for n in walk_own(rf.node):
        if isinstance(n, ast.Subscript) and isinstance(n.value, ast.Name):
            k = ctx.const(rf, n.slice, None)
            if isinstance(k, str):
                rkeys.add((n.value.id, k))
        if isinstance(n, ast.Call) and isinstance(n.func, ast.Attribute) and n.func.attr == "get" and isinstance(n.func.value, ast.Name) and n.args:
            k = ctx.const(rf, n.args[0], None)
            if isinstance(k, str):
                rkeys.add((n.func.value.id, k))
    read_any = {k for (_v, k) in rkeys}
    for k in ("iid", "type", "characteristics", "linked"):
        ck.check("C20.K1", k in skeys and k in read_any, f"service field {k!r} written and read back", f"{SERVICE}:field:{k}",
                 f"service field {k!r}: written={k in skeys} read={k in read_any}", sw.loc())
    aw = ctx.func(f"{ACC}.to_accessory_and_service_list")
    akeys = {ctx.const(aw, k, None) for n in walk_own(aw.node) if isinstance(n, ast.Dict) for k in n.keys if k is not None}
    for k in ("aid", "services"):
        ck.check("C20.K1", k in akeys and k in read_any, f"accessory field {k!r} written and read back", f"{ACC}:field:{k}",
                 f"accessory field {k!r}: written={k in akeys} read={k in read_any}", aw.loc())
    # linked services are re-linked by iid
    # ---- cache record
    FIELDS = ["config_num", "accessories", "broadcast_key", "state_num"]
    uf = ctx.func(f"{ABS}._update_accessories_state_cache")
    ucfg = ctx.cfg(uf.qualname)
    calls = [(n, c) for n, c in ctx.nodes_calling_name(ucfg, "async_create_or_update_map")]
    if len(calls) != 1:
        ck.unknown("C20.K1", "_update_accessories_state_cache: expected one async_create_or_update_map call", uf.loc())
        return
    n, c = calls[0]
    for impl in (f"{CACHE}.CharacteristicCacheMemory.async_create_or_update_map", f"{CACHE}.CharacteristicCacheFile.async_create_or_update_map"):
        g = ctx.func(impl)
        params = g.pos_params[1:]
        bound = {}
        for i, a in enumerate(c.args):
            if i < len(params):
                bound[params[i]] = strip_sites(T.of(ucfg, n, a))
        for kw in c.keywords:
            if kw.arg:
                bound[kw.arg] = strip_sites(T.of(ucfg, n, kw.value))
        for fld in FIELDS:
            t = bound.get(fld, ("unknown", "unbound"))
            ok = contains(t, lambda s, fld=fld: s == ("attr", ("param", "self"), fld))
            ck.check("C20.K1", ok, f"cache write: parameter {fld!r} of {impl.rsplit('.', 2)[-2]} receives self.{fld}",
                     f"{ctx.fkey(uf)}:arg:{fld}:{impl.rsplit('.', 2)[-2]}",
                     f"_update_accessories_state_cache passes {show(t, 80)} as {fld!r} to {impl.rsplit('.', 2)[-2]}.async_create_or_update_map", ctx.loc(uf, n))
    bk = strip_sites(T.of(ucfg, n, c.args[3])) if len(c.args) > 3 else ("unknown", "")
    ck.check("C20.K1", bk[0] == "call" and bk[1] == ("glob", "aiohomekit.utils.serialize_broadcast_key"), "the broadcast key is serialised with serialize_broadcast_key",
             f"{ctx.fkey(uf)}:broadcast-key-serialiser", f"broadcast key written as {show(bk, 80)}", ctx.loc(uf, n))
    # Memory implementation: Pairing(k=k) for every field
    mf = ctx.func(f"{CACHE}.CharacteristicCacheMemory.async_create_or_update_map")
    mcfg = ctx.cfg(mf.qualname)
    pc = [(nn, cc) for nn, cc in ctx.nodes_calling_name(mcfg, "Pairing")]
    okp = bool(pc)
    if pc:
        nn, cc = pc[0]
        kws = {k.arg: strip_sites(T.of(mcfg, nn, k.value)) for k in cc.keywords if k.arg}
        for fld in FIELDS:
            ck.check("C20.K1", kws.get(fld) == ("param", fld), f"cache record key {fld!r} = parameter {fld!r}", f"{ctx.fkey(mf)}:record:{fld}",
                     f"cache record key {fld!r} is {show(kws.get(fld, ('unknown', 'missing')), 60)}", ctx.loc(mf, nn))
        # stored under the id
        stored = any(isinstance(x, ast.Assign) and isinstance(x.targets[0], ast.Subscript) and _u(x.targets[0].value) == "self.storage_data" and _u(x.targets[0].slice) == mf.pos_params[1] for x in walk_own(mf.node))
        ck.check("C20.K1", stored, "the record is stored under the pairing id", f"{ctx.fkey(mf)}:stored", "the cache record is not stored under the pairing id", mf.loc())
    else:
        ck.unknown("C20.K1", "CharacteristicCacheMemory.async_create_or_update_map: Pairing(...) construction not found", mf.loc())
    # File implementation forwards the parameters in order and saves
    ff = ctx.func(f"{CACHE}.CharacteristicCacheFile.async_create_or_update_map")
    fcfg = ctx.cfg(ff.qualname)
    sc = [(nn, cc) for nn, cc in ctx.nodes_calling_name(fcfg, "async_create_or_update_map")]
    okf = False
    if sc:
        nn, cc = sc[0]
        args = [strip_sites(T.of(fcfg, nn, a)) for a in cc.args]
        okf = args == [("param", p) for p in ff.pos_params[1:]] and not cc.keywords
        saves = [x for x, _c in ctx.nodes_calling_name(fcfg, "_do_save")]
        okf = okf and bool(saves) and fcfg.find_path(fcfg.entry.id, fcfg.exit.id, avoid_nodes=[s.id for s in saves]) is None
    ck.check("C20.K1", okf, "the file cache forwards its parameters unchanged and saves on every path", f"{ctx.fkey(ff)}:forward",
             "CharacteristicCacheFile.async_create_or_update_map does not forward its parameters in order / does not save", ff.loc())
    # restore: AccessoriesState fields from the same keys
    lf = ctx.func(f"{ABS}._load_accessories_from_cache")
    lcfg = ctx.cfg(lf.qualname)
    st = [(nn, cc) for nn, cc in ctx.nodes_calling_name(lcfg, "AccessoriesState")]
    if len(st) != 1:
        ck.unknown("C20.K1", "_load_accessories_from_cache: AccessoriesState(...) construction not found", lf.loc())
        return
    nn, cc = st[0]
    sc_cls = ctx.prog.cls("aiohomekit.model.AccessoriesState")
    order = list(sc_cls.annotations.keys())
    bound = {}
    for i, a in enumerate(cc.args):
        if i < len(order):
            bound[order[i]] = strip_sites(T.of(lcfg, nn, a))
    for kw in cc.keywords:
        if kw.arg:
            bound[kw.arg] = strip_sites(T.of(lcfg, nn, kw.value))
    for fld in FIELDS:
        t = bound.get(fld, ("unknown", "unbound"))
        ok = contains(t, lambda s, fld=fld: (s[0] == "call" and s[1][0] == "attr" and s[1][2] == "get" and s[2] and s[2][0] == ("const", fld))
                      or (s[0] == "sub" and s[2] == ("const", fld)))
        # and from no other key
        others = [x for x in FIELDS if x != fld and contains(t, lambda s, x=x: (s[0] == "call" and s[1][0] == "attr" and s[1][2] == "get" and s[2] and s[2][0] == ("const", x)) or (s[0] == "sub" and s[2] == ("const", x)))]
        ck.check("C20.K1", ok and not others, f"restore: AccessoriesState.{fld} comes from cache key {fld!r}", f"{ctx.fkey(lf)}:restore:{fld}",
                 f"restore: AccessoriesState.{fld} is {show(t, 100)}", ctx.loc(lf, nn))
    t = bound.get("broadcast_key", ("unknown", ""))
    ck.check("C20.K1", t[0] == "call" and t[1] == ("glob", "aiohomekit.utils.deserialize_broadcast_key"), "restore: the broadcast key goes through deserialize_broadcast_key",
             f"{ctx.fkey(lf)}:broadcast-key-deserialiser", f"restore: broadcast key is {show(t, 80)}", ctx.loc(lf, nn))
    t = bound.get("accessories", ("unknown", ""))
    ck.check("C20.K1", t[0] == "call" and t[1][0] == "glob" and t[1][1].endswith("Accessories.from_list"), "restore: accessories go through Accessories.from_list",
             f"{ctx.fkey(lf)}:accessories-from-list", f"restore: accessories are {show(t, 80)}", ctx.loc(lf, nn))
    # hex / fromhex
    for q, want in (("aiohomekit.utils.serialize_broadcast_key", "hex"), ("aiohomekit.utils.deserialize_broadcast_key", "fromhex")):
        g = ctx.func(q)
        gcfg = ctx.cfg(q)
        p = g.pos_params[0]
        rets = [r for r in gcfg.nodes if r.kind == "return" and r.exprs]
        vals = [strip_sites(T.of(gcfg, r, r.exprs[0])) for r in rets]
        if want == "hex":
            good = ("call", ("attr", ("param", p), "hex"), (), ()) in vals
        else:
            good = ("call", ("attr", ("glob", "bytes"), "fromhex"), (("param", p),), ()) in vals or (
                "call", ("glob", "bytes.fromhex"), (("param", p),), ()) in vals
        none_ok = ("const", None) in vals
        ck.check("C20.K1", good and none_ok and len(vals) == 2, f"{g.name}: None -> None, otherwise {want}", f"{ctx.fkey(g)}:shape",
                 f"{g.name} returns {[show(v, 40) for v in vals]}", g.loc())
    # pairing file: writer {alias: pairing_data}, reader load_pairing(alias, data[alias]); utf-8 + hkjson on both sides
    sf = ctx.func(f"{CTRL}.save_data")
    scfg = ctx.cfg(sf.qualname)
    wr = [(nn2, cc2) for nn2, cc2 in ctx.nodes_calling_name(scfg, "write")]
    okw = False
    for nn2, cc2 in wr:
        if cc2.args:
            _dn, de = _resolve_ast(T, scfg, nn2, cc2.args[0])
            if isinstance(de, ast.Call) and ctx.resolve_name(sf, de.func) in ("aiohomekit.hkjson.dumps_indented", "aiohomekit.hkjson.dumps"):
                okw = True
    ck.check("C20.K1", okw, "save_data serialises with hkjson", f"{ctx.fkey(sf)}:serialiser", "save_data no longer serialises with hkjson.dumps(_indented)", sf.loc())
    fill = [x for x in walk_own(sf.node) if isinstance(x, ast.Assign) and isinstance(x.targets[0], ast.Subscript) and isinstance(x.value, ast.Attribute) and x.value.attr == "pairing_data"]
    okd = False
    for x in fill:
        # data[alias] = self.aliases[alias].pairing_data
        if isinstance(x.value.value, ast.Subscript) and _u(x.value.value.value) == "self.aliases" and _u(x.value.value.slice) == _u(x.targets[0].slice):
            okd = True
    # ... or {alias: pairing.pairing_data for alias, pairing in self.aliases.items()}
    for x in walk_own(sf.node):
        if isinstance(x, ast.DictComp) and len(x.generators) == 1 and not x.generators[0].ifs:
            g0 = x.generators[0]
            it = g0.iter
            if isinstance(it, ast.Call) and isinstance(it.func, ast.Attribute) and it.func.attr == "items" and _u(it.func.value) == "self.aliases" \
                    and isinstance(g0.target, ast.Tuple) and len(g0.target.elts) == 2 and all(isinstance(e, ast.Name) for e in g0.target.elts):
                kn, vn = g0.target.elts[0].id, g0.target.elts[1].id
                if isinstance(x.key, ast.Name) and x.key.id == kn and isinstance(x.value, ast.Attribute) and x.value.attr == "pairing_data" \
                        and isinstance(x.value.value, ast.Name) and x.value.value.id == vn:
                    okd = True
    ck.check("C20.K1", okd, "save_data writes {alias: pairing.pairing_data} for every alias", f"{ctx.fkey(sf)}:record",
             "save_data no longer writes every alias with its own pairing data", sf.loc())
    ld = ctx.func(f"{CTRL}.load_data")
    okl = False
    for x in walk_own(ld.node):
        if isinstance(x, ast.Call) and isinstance(x.func, ast.Attribute) and x.func.attr == "load_pairing" and len(x.args) == 2:
            a0, a1 = x.args
            if isinstance(a1, ast.Subscript) and _u(a1.slice) == _u(a0):
                okl = True
    # by value (through temporaries / parameters of an inlined helper): the record is <data>[<alias>] for the alias iterated
    # over <data>, or the two halves of one item of <data>.items()
    lcfg = ctx.cfg(ld.qualname)
    for n, c in ctx.nodes_calling_name(lcfg, "load_pairing"):
        if len(c.args) == 2:
            t0, t1 = strip_sites(T.of(lcfg, n, c.args[0])), strip_sites(T.of(lcfg, n, c.args[1]))
            if t1[0] == "sub" and len(t1) == 3 and t1[2] == t0 and t0[0] in ("iter", "each") and t0[1] == t1[1]:
                okl = True
            if t0[0] == "sub" and t1[0] == "sub" and t0[1] == t1[1] and t0[1][0] in ("iter", "each") and t0[2] == ("const", 0) and t1[2] == ("const", 1) \
                    and t0[1][1][0] == "call" and t0[1][1][1][0] == "attr" and t0[1][1][1][2] == "items":
                okl = True
    ck.check("C20.K1", okl, "load_data feeds (alias, data[alias]) to load_pairing", f"{ctx.fkey(ld)}:record",
             "load_data no longer loads every alias with its own record", ld.loc())
    encs = []
    for g in (sf, ld, ctx.func(f"{CACHE}.CharacteristicCacheFile.__init__"), ctx.func(f"{CACHE}.CharacteristicCacheFile._do_save")):
        for x in walk_own(g.node):
            if isinstance(x, ast.Call) and isinstance(x.func, ast.Name) and x.func.id == "open":
                enc = [ctx.const(g, kw.value, None) for kw in x.keywords if kw.arg == "encoding"]
                encs.append((g.name, enc[0] if enc else None))
    ck.check("C20.K1", bool(encs) and all(str(e[1]).lower().replace("-", "") == "utf8" for e in encs), f"all persistence files are opened as UTF-8 ({len(encs)} sites)",
             "aiohomekit:persistence-encoding", f"persistence files opened with encodings {encs}", sf.loc())
    # every pairing class keeps the record it was constructed from
    n_cls = 0
    for cn in sorted(ctx.prog.subclasses(ABS)):
        c = ctx.prog.classes[cn]
        if c.module.name == "aiohomekit.testing" or "__init__" not in c.methods:
            continue
        init = c.methods["__init__"]
        if "pairing_data" not in init.pos_params:
            continue
        n_cls += 1
        keeps = any(isinstance(x, ast.Assign) and _u(x.targets[0]) == "self.pairing_data" and _u(x.value) == "pairing_data" for x in walk_own(init.node))
        ck.check("C20.K1", keeps, f"{c.name} keeps the pairing record it was loaded from (self.pairing_data)", f"{cn}:pairing_data",
                 f"{c.name}.__init__ does not keep `pairing_data`: save_data would write something else back", init.loc())
    ck.require_min("C20.K1", "pairing classes keeping their record", n_cls, 3)


MANIFEST = {
    "technique": "who-may-write sweep + provenance of the opened path + must-pass-through of os.replace (rename-atomicity argument), "
    "exception-edge analysis of the load paths, writer/reader key-table extraction and agreement",
    "level_text": "Static: decides crash consistency of the pairing file at every crash point by the rename-atomicity argument (the "
    "target is never opened for writing; a completely written temporary is moved over it on every path), the corrupt-cache and "
    "load error handling over all exception classes, and three-hop agreement of every listed field between serialiser, "
    "deserialiser and constructor. Value-level equality of arbitrary databases after a round trip is not decided.",
    "level_note": "Trusted: POSIX rename atomicity and that close() flushes; orjson/commentjson. The accessory cache file is written in "
    "place by design (a corrupt cache is treated as empty, which X1 decides).",
}

TWIN_FILES = [
    "aiohomekit/controller/controller.py",
    "aiohomekit/characteristic_cache.py",
    "aiohomekit/controller/abstract.py",
    "aiohomekit/model/__init__.py",
    "aiohomekit/model/characteristics/characteristic.py",
    "aiohomekit/model/services/service.py",
    "aiohomekit/utils.py",
]
_C = "aiohomekit/controller/controller.py"
_CC = "aiohomekit/characteristic_cache.py"
VARIANTS = [
    {"name": "save in place (pinned defect)", "file": _C, "old": "            with open(tmp_path, mode=\"w\", encoding=\"utf-8\") as output_fp:", "new": "            with open(filename, mode=\"w\", encoding=\"utf-8\") as output_fp:", "expect": "C20.W1"},
    {"name": "temporary never moved", "file": _C, "old": "            os.replace(tmp_path, path)\n", "new": "", "expect": "C20.W1"},
    {"name": "move direction reversed", "file": _C, "old": "            os.replace(tmp_path, path)", "new": "            os.replace(path, tmp_path)", "expect": "C20.W1"},
    {"name": "second in-place writer in the CLI", "file": "aiohomekit/__main__.py", "old": "        controller.save_data(args.file)\n", "new": "        controller.save_data(args.file)\n        with open(args.file, \"a\") as fp:\n            fp.write(\"\")\n", "expect": "C20.W1"},
    {"name": "corruption handler deleted", "file": _CC,
     "old": "                try:\n                    self.storage_data = hkjson.loads(fp.read())[\"pairings\"]\n                except hkjson.JSON_DECODE_EXCEPTIONS:\n                    logger.debug(\"Characteristic cache was corrupted, proceeding with cold cache\")",
     "new": "                self.storage_data = hkjson.loads(fp.read())[\"pairings\"]", "expect": "C20.X1"},
    {"name": "corruption handler re-raises", "file": _CC, "old": "                    logger.debug(\"Characteristic cache was corrupted, proceeding with cold cache\")", "new": "                    raise", "expect": "C20.X1"},
    {"name": "LarkError no longer converted", "file": "aiohomekit/hkjson.py", "old": "        except LarkError as ex:\n            raise ValueError(f\"Failed to parse JSON: {ex}\") from ex", "new": "        except KeyError as ex:\n            raise ValueError(f\"Failed to parse JSON: {ex}\") from ex", "expect": "C20.X1"},
    {"name": "missing file is an error", "file": _C, "old": "        except FileNotFoundError:\n            pass", "new": "        except FileNotFoundError:\n            raise", "expect": "C20.X2"},
    {"name": "unsupported pairing aborts the load", "file": _C, "old": "                        logger.error(\"Skipped pairing: %s\", e)", "new": "                        break", "expect": "C20.X2"},
    {"name": "minStep omitted by the writer", "file": "aiohomekit/model/characteristics/characteristic.py", "old": "        if self.minStep is not None:\n            d[\"minStep\"] = self.minStep\n", "new": "", "expect": "C20.K1"},
    {"name": "maxValue read into min_value", "file": "aiohomekit/model/__init__.py", "old": "kwargs[\"max_value\"] = char_data[\"maxValue\"]", "new": "kwargs[\"min_value\"] = char_data[\"maxValue\"]", "expect": "C20.K1"},
    {"name": "unit stored in description", "file": "aiohomekit/model/characteristics/characteristic.py", "old": "self.unit = self._get_configuration(kwargs, \"unit\", None)", "new": "self.unit = self._get_configuration(kwargs, \"description\", None)", "expect": "C20.K1"},
    {"name": "broadcast_key / state_num swapped in the cache write", "file": "aiohomekit/controller/abstract.py",
     "old": "            serialize_broadcast_key(self.broadcast_key),\n            self.state_num,", "new": "            self.state_num,\n            serialize_broadcast_key(self.broadcast_key),", "expect": "C20.K1"},
    {"name": "state_num restored from config_num", "file": "aiohomekit/controller/abstract.py", "old": "state_num = cache.get(\"state_num\")", "new": "state_num = cache.get(\"config_num\")", "expect": "C20.K1"},
    {"name": "broadcast key restored without fromhex", "file": "aiohomekit/utils.py", "old": "    return bytes.fromhex(broadcast_key)", "new": "    return broadcast_key.encode()", "expect": "C20.K1"},
    {"name": "cache written as latin-1", "file": _CC, "old": "with open(self.location, mode=\"w\", encoding=\"utf-8\") as fp:", "new": "with open(self.location, mode=\"w\", encoding=\"latin-1\") as fp:", "expect": "C20.K1"},
]
