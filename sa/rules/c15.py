"""C15  Pairing TLV encoding round-trips and is the canonical TLV8 wire format."""

from __future__ import annotations

import ast

from ..engine.buflen import BufLen
from ..engine.context import Context, compare_parts, expand, is_membership
from ..engine.loader import dotted, walk_expr, walk_own
from ..engine.report import norm_stmt
from ..engine.terms import contains, show, strip_sites

PROPERTY = "C15"
EXPLANATION = (
    "Static analysis of the pairing TLV codec: (B1) decoder totality - a lower-bound abstract interpretation of the "
    "length of the wire buffer in decode_bytearray and of the value buffer in the eagerly evaluated to_string covers "
    "every pop/index, and the only class the decoder raises explicitly is TlvParseException; (G1) the length test "
    "dominates every place a value is stored (never a short value) and equal-typed neighbours are merged; (T1) byte "
    "accounting - type and length are two successive pops, the value taken and the remainder kept use the same length "
    "term, and the decoder consumes a copy; (K1) in the encoder the fragment comparison constant, the emitted length "
    "byte and both slice bounds agree and equal 255, keys are validated to 0..255, the separator is emitted as (255, 0) "
    "and rejects data; (G2) every item of the input produces at least one header on every path through the encoder "
    "loop; (G3) BLE pairing reassembly extends and decodes the whole buffer on FragmentLast, acknowledges FragmentData "
    "with 0c 00 and is bounded. Quantifier: all CFG paths / all buffer lengths (by lower bound), not sampled inputs. Added from a seeded fault: for the decoder written over an index cursor, a parse error for a truncated item is raised only through an outcome that implies missing bytes (a complete item of length 0 at the end of a message is not rejected)."
)
TRUSTED = ["bytearray slicing never raises; bytearray.pop(0) raises IndexError only when empty"]

TLVC = "aiohomekit.protocol.tlv.TLV"
PARSE_EXC = "aiohomekit.protocol.tlv.TlvParseException"


def _u(e) -> str:
    return " ".join(ast.unparse(e).split())


def run(ctx: Context) -> None:
    ck = ctx.ck
    if ck.rule("C15.B1", "decoder totality: every pop/index covered, only TlvParseException raised"):
        _b1(ctx)
    if ck.rule("C15.G1", "length test dominates every store of a value; equal-typed neighbours merged"):
        _g1(ctx)
    if ck.rule("C15.T1", "decoder byte accounting; works on a copy"):
        _t1(ctx)
    if ck.rule("C15.K1", "encoder: 255-byte fragments, key range, separator"):
        _k1(ctx)
    if ck.rule("C15.G2", "every item is emitted"):
        _g2(ctx)
    if ck.rule("C15.G3", "BLE pairing fragment reassembly"):
        _g3(ctx)


# ---------------------------------------------------------------------- helpers
def _resolve_ast(T, cfg, node, expr):
    """Follow a Name through its unique reaching definition(s) to the defining expression (AST) and node."""
    du = T.du(cfg)
    cur_node, cur = node, expr
    for _ in range(6):
        if not isinstance(cur, ast.Name):
            break
        rd = du.reaching(cur_node.id, cur.id)
        if len(rd) != 1 or rd[0][1].kind != "assign" or rd[0][1].path:
            break
        cur_node, cur = cfg.nodes[rd[0][0]], rd[0][1].value
    return cur_node, cur


def _same_defs(T, cfg, var, a, b) -> bool:
    """``var`` holds the same value at the entry of nodes a and b (same reaching definitions, b after a without redefinition)."""
    du = T.du(cfg)
    ra = [x[0] for x in du.reaching(a.id, var)]
    rb = [x[0] for x in du.reaching(b.id, var)]
    return ra == rb


def _wire_buffers(ctx: Context, cfg) -> set[str]:
    """Locals of the decoder that hold wire bytes: every variable that is popped or sliced-and-reassigned."""
    out = set()
    for n in cfg.nodes:
        for c in ctx.calls(n):
            if isinstance(c.func, ast.Attribute) and c.func.attr == "pop" and isinstance(c.func.value, ast.Name):
                out.add(c.func.value.id)
        a = n.ast
        if n.kind == "stmt" and isinstance(a, ast.Assign) and len(a.targets) == 1 and isinstance(a.targets[0], ast.Name) and isinstance(a.value, ast.Subscript):
            v = a.value
            if isinstance(v.value, ast.Name) and v.value.id == a.targets[0].id and isinstance(v.slice, ast.Slice):
                out.add(v.value.id)  # buf = buf[k:]  (a cursor over the wire bytes)
    return out


def _b1(ctx: Context) -> None:
    ck = ctx.ck
    f = ctx.func(f"{TLVC}.decode_bytearray")
    cfg = ctx.cfg(f.qualname)
    bufs = _wire_buffers(ctx, cfg) - {"result"}
    if not bufs:
        cur = _cursor_form(ctx)
        if cur.ok:
            _cursor_b1(ctx, cur)
            _b1_rest(ctx, f, cfg)
            return
        ck.unknown("C15.B1", f"decode_bytearray: no popped wire buffer found, and not the cursor form ({cur.why})", f.loc())
        return
    bl = BufLen(ctx, cfg, bufs)
    n = 0
    for s in bl.sites:
        n += 1
        ck.check(
            "C15.B1",
            s.covered,
            f"decode_bytearray: `{s.text}` covered (len >= {s.have}, needs {s.need})",
            f"{ctx.fkey(f)}:uncovered:{norm_stmt(s.node.text())}",
            f"decode_bytearray: `{s.text}` in `{s.node.text()}` can raise IndexError: only len({s.var}) >= {s.have} is known "
            f"here (a truncated TLV, e.g. a lone type byte, reaches it)",
            ctx.loc(f, s.node),
        )
    ck.require_min("C15.B1", "pop/index sites on the wire buffer", n, 2)
    _b1_rest(ctx, f, cfg)


def _b1_rest(ctx: Context, f, cfg) -> None:
    ck = ctx.ck
    # to_string is evaluated eagerly for the debug log of both codec directions
    ts = ctx.func(f"{TLVC}.to_string")
    called = any(c for n_, c in ctx.nodes_calling_name(cfg, "to_string"))
    inner = ts.nested.get("entry_to_string")
    if inner is not None:
        icfg = ctx.cfg(inner.qualname)
        params = inner.pos_params
        vb = {params[1]} if len(params) >= 2 else set()
        bl2 = BufLen(ctx, icfg, vb)
        for s in bl2.sites:
            ck.check(
                "C15.B1",
                s.covered,
                f"to_string: `{s.text}` covered",
                f"{ctx.fkey(inner)}:uncovered:{s.text}",
                f"to_string (evaluated eagerly by {'decode_bytearray and ' if called else ''}encode_list): `{s.text}` can raise "
                f"IndexError for a zero-length value (e.g. the bytes 07 00)",
                ctx.loc(inner, s.node),
            )
    elif called:
        ck.unknown("C15.B1", "to_string no longer has the nested entry_to_string: re-confirm its index sites", ts.loc())
    # explicit raises of the decoder
    classes = set()
    for q in (f"{TLVC}.decode_bytearray", f"{TLVC}.decode_bytes"):
        c2 = ctx.cfg(q)
        for nd in c2.nodes:
            if nd.kind == "raise":
                classes |= {exc for (_d, l, exc) in nd.succ if l == "x"}
        classes |= set(ctx.flow.esc(q))
    ck.check(
        "C15.B1",
        classes <= {PARSE_EXC},
        f"decoder raises only TlvParseException ({sorted(c.rsplit('.', 1)[-1] for c in classes)})",
        f"{ctx.fkey(f)}:raise-classes",
        f"decoder raises {sorted(classes)}; only the codec's own parse error is allowed",
        f.loc(),
    )


def _decoder_parts(ctx: Context):
    """Locate the structural parts of decode_bytearray by data flow, not by names."""
    f = ctx.func(f"{TLVC}.decode_bytearray")
    cfg = ctx.cfg(f.qualname)
    T = ctx.terms
    pops = []  # (node, target var, buffer var)
    for n in cfg.nodes:
        a = n.ast
        if n.kind == "stmt" and isinstance(a, ast.Assign) and isinstance(a.value, ast.Call):
            c = a.value
            if isinstance(c.func, ast.Attribute) and c.func.attr == "pop" and isinstance(c.func.value, ast.Name) and len(a.targets) == 1 and isinstance(a.targets[0], ast.Name):
                idx = ctx.const(f, c.args[0], None) if c.args else None
                pops.append((n, a.targets[0].id, c.func.value.id, idx))
    return f, cfg, pops


# ---------------------------------------------------------------------- the decoder written over an integer cursor
class _Cursor:
    """decode_bytearray as a walk over an unchanged buffer D with an integer cursor P (`key = D[P]; P += 1; ...`).

    Everything is stated over single-assignment values (engine/avail.py `ssa`): with P0 the cursor at the loop head, a read is
    D[P0 + k], the cursor after some steps is P0 + k (+ D[P0 + 1]), `end = len(D)`, `remaining = end - P` are what they
    compute.  How the cursor is stepped (`+= 1` twice, `+= 2`, `P = P + 1 + D[P]` ...) does not matter."""

    def __init__(self, ctx: Context):
        from ..engine import avail as AV

        self.AV = AV
        self.ctx = ctx
        self.f = ctx.func(f"{TLVC}.decode_bytearray")
        self.cfg = cfg = ctx.cfg(self.f.qualname)
        self.A = A = AV.Avail(ctx, cfg)
        self.ok = False
        self.why = ""
        live = cfg.reachable_from(cfg.entry.id) | {cfg.entry.id}
        self.live = live
        heads = [n for n in cfg.nodes if n.kind == "loop_head" and n.id in live and sum(1 for fr in n.frames if fr[0] == "loop") == 0]
        if len(heads) != 1:
            self.why = f"expected one item loop, found {len(heads)}"
            return
        self.head = heads[0]
        # indexed reads X[i] of a local that is never changed in place, i = <merge value of a local P> + constant
        cand: dict = {}
        self.reads = []
        for n in cfg.nodes:
            if n.id not in live:
                continue
            roots = [n.ast] if n.kind == "stmt" and n.ast is not None else [e for e in n.exprs if e is not None]
            for r in roots:
                for x in walk_expr(r):
                    if isinstance(x, ast.Subscript) and isinstance(x.ctx, ast.Load) and isinstance(x.value, ast.Name) and not isinstance(x.slice, ast.Slice) \
                            and x.value.id in A.du.local_names and not A.mutated_in_place(x.value.id):
                        v = A.ssa(n, x.slice)
                        phis = [a for a, k in v[1] if a[0] == "phi"]
                        if len(v[1]) == 1 and len(phis) == 1 and v[1][0][1] == 1:
                            cand.setdefault((x.value.id, phis[0]), []).append((n, x, v[2]))
        if len(cand) != 1:
            self.why = f"no single (buffer, cursor) pair found ({sorted((k[0], k[1][1]) for k in cand)})"
            return
        (self.D, self.P0a), self.reads = next(iter(cand.items()))
        self.P = self.P0a[1]
        self.P0 = AV.atom(self.P0a)
        if A.ssa_var(self.head, self.P) != self.P0:
            self.why = "the cursor read from is not the one merged at the loop head"
            return
        self.Dv = A.ssa_var(self.reads[0][0], self.D)
        if any(A.ssa_var(n, self.D) != self.Dv for n, _x, _k in self.reads) or AV.has_opaque(self.Dv):
            self.why = "the buffer read from is rebound between reads"
            return
        self.LEN = AV.atom(("len", self.Dv))
        self.L = AV.atom(("read", self.Dv, AV.add(self.P0, AV.const(1))))  # the length byte of the item at the cursor
        self.ITEM_END = AV.add(AV.add(self.P0, AV.const(2)), self.L)
        self.REM = AV.add(self.LEN, self.P0, -1)  # bytes from the cursor (at the head) to the end
        self.ok = True

    # -- a comparison `l op r` at a test node as  <affine> op 0
    def test_diff(self, n):
        cp = compare_parts(n.exprs[0])
        if cp is None:
            # truthiness of an integer expression (`while remaining:`): value != 0
            v = self.A.ssa(n, n.exprs[0])
            return (v, "NotEq") if not self.AV.has_opaque(v) and v[0] == "lin" else None
        l, op, r = cp
        if op not in ("Lt", "LtE", "Gt", "GtE", "Eq", "NotEq"):
            return None
        d = self.AV.add(self.A.ssa(n, l), self.A.ssa(n, r), -1)
        return (d, op)

    @staticmethod
    def _outcome(op: str, truth: bool) -> str:
        NEG = {"Lt": "GtE", "LtE": "Gt", "Gt": "LtE", "GtE": "Lt", "Eq": "NotEq", "NotEq": "Eq"}
        return op if truth else NEG[op]

    def lower_bound(self, diff, op: str, G):
        """diff op 0 holds, diff = s*G + c with s = +-1: the lower bound it gives for the integer G (None: none).
        `!=` gives none by itself (see rem_bounds, which combines it with what is known)."""
        AV = self.AV
        for s_ in (1, -1):
            rest = AV.add(diff, AV.scale(G, s_), -1)
            c = AV.as_const(rest)
            if c is None:
                continue
            # s*G + c op 0
            if s_ == 1:
                return {"Gt": -c + 1, "GtE": -c, "Eq": -c}.get(op)
            return {"Lt": c + 1, "LtE": c, "Eq": c}.get(op)
        return None

    def rem_bounds(self) -> dict:
        """Forward data flow over one iteration: at each node, a lower bound of REM = len(D) - P0 (bytes available from the
        item's first byte) established by the tests passed since the loop head."""
        AV, cfg = self.AV, self.cfg
        IN: dict[int, int] = {self.head.id: 0}
        work = [self.head.id]
        it = 0
        while work and it < 20000:
            it += 1
            u = work.pop()
            cur = IN[u]
            n = cfg.nodes[u]
            td = self.test_diff(n) if n.kind == "test" else None
            for d, lab, _exc in n.succ:
                if d == self.head.id:
                    continue
                out = cur
                if td is not None and lab in ("T", "F"):
                    op = self._outcome(td[1], lab == "T")
                    lb = self.lower_bound(td[0], op, self.REM)
                    if lb is not None:
                        out = max(out, lb)
                    elif op == "NotEq":
                        # REM != k together with REM >= k is REM >= k + 1
                        k = self.lower_bound(td[0], "Eq", self.REM)
                        if k is not None and cur >= k:
                            out = max(out, k + 1)
                if d not in IN or out < IN[d]:
                    IN[d] = out if d not in IN else min(IN[d], out)
                    work.append(d)
        return IN


def _cursor_form(ctx: Context):
    c = getattr(ctx, "_c15_cursor", None)
    if c is None:
        c = _Cursor(ctx)
        ctx._c15_cursor = c
    return c


def _cursor_b1(ctx: Context, c: _Cursor) -> None:
    """Totality for the cursor form: every indexed read D[P0 + k] is reached only with len(D) - P0 >= k + 1 established."""
    ck, f, cfg, AV = ctx.ck, c.f, c.cfg, c.AV
    lb = c.rem_bounds()
    n_sites = 0
    for n, x, k in c.reads:
        n_sites += 1
        have = lb.get(n.id, 0)
        ck.check("C15.B1", have >= k + 1, f"decode_bytearray: `{_u(x)}` covered (bytes available >= {have}, needs {k + 1})",
                 f"{ctx.fkey(f)}:uncovered:{norm_stmt(n.text())}",
                 f"decode_bytearray: `{_u(x)}` in `{n.text()}` can raise IndexError: only {have} byte(s) from the item's first byte are known to be there "
                 f"(a truncated TLV, e.g. a lone type byte, reaches it)", ctx.loc(f, n))
    ck.require_min("C15.B1", "indexed reads of the wire buffer", n_sites, 2)


def _cursor_reject(ctx: Context, c: _Cursor, rule: str) -> None:
    """A complete item is never rejected (cursor form).  With REM = len(D) - P the bytes from the item's type byte to the end
    and L its length byte, the item is truncated exactly when REM < 2 (no room for type and length) or REM - L < 2 (the value
    is cut short).  A `raise` of the parse error that is reached only through outcomes of comparisons of these quantities must
    be reached through one that implies truncation; `start >= end` with start = P + 2 also holds for REM == 2, a complete item
    of length 0 at the very end of the message (what every list ending in a separator, and the BLE fragment ack 0c 00, is)."""
    ck, f, cfg, AV = ctx.ck, c.f, c.cfg, c.AV
    fk = ctx.fkey(f)

    def upper_bound(diff, op, G):
        for s_ in (1, -1):
            rest = AV.add(diff, AV.scale(G, s_), -1)
            k = AV.as_const(rest)
            if k is None:
                continue
            if s_ == 1:   # G + k op 0
                return {"Lt": -k - 1, "LtE": -k, "Eq": -k}.get(op, "none")
            return {"Gt": k - 1, "GtE": k, "Eq": k}.get(op, "none")  # -G + k op 0
        return None

    G_head, G_val = c.REM, AV.add(c.REM, c.L, -1)
    raises = [n for n in cfg.nodes if n.kind == "raise" and n.id in c.live and n.id in cfg.reachable_from(c.head.id)]
    judged = 0
    for r in raises:
        guards = []  # (test, label, kind, upper bound)
        for t in cfg.nodes:
            if t.kind != "test" or t.id not in c.live:
                continue
            td = c.test_diff(t)
            if td is None or AV.has_opaque(td[0]):
                continue
            for lab in ("T", "F"):
                edges = cfg.out_edges(t, (lab,))
                if not edges or cfg.find_path(c.head.id, r.id, avoid_edges=edges, avoid_nodes=[]) is not None:
                    continue
                op = c._outcome(td[1], lab == "T")
                for kind, G in (("header", G_head), ("value", G_val)):
                    ub = upper_bound(td[0], op, G)
                    if ub is not None:
                        guards.append((t, lab, kind, ub))
        guards = [g for g in guards if g[3] != "none"]  # outcomes that bound the bytes left from above
        if not guards:
            continue  # a raise for another reason (it is not reached through a "too few bytes" outcome)
        judged += 1
        legit = [g for g in guards if g[3] <= 1]
        worst = min(guards, key=lambda g: g[3])
        what = "the bytes from the item's type byte to the end" if worst[2] == "header" else "those bytes minus the declared length"
        ck.check(rule, bool(legit), "a parse error for a truncated item is raised only when bytes are missing (fewer than 2 for the header, or fewer than 2 + length)",
                 f"{fk}:complete-item-rejected",
                 f"decode_bytearray raises `{r.text()[:60]}` under `{worst[0].text()}` [{worst[1]}], which only says that {what} are "
                 f"<= {worst[3]}: a COMPLETE item is rejected (with <= 2: an item of length 0 at the very end of the message - a list "
                 "ending in a separator, the fragment ack 0c 00)", ctx.loc(f, r))
    if raises and not judged:
        ck.unknown(rule, "decode_bytearray (cursor form): no parse-error raise is guarded by a comparison of the cursor with the length that the analysis reads", f.loc())


def _cursor_g1_t1(ctx: Context, c: _Cursor, rule: str) -> None:
    ck, f, cfg, AV, A = ctx.ck, c.f, c.cfg, c.AV, c.A
    fk = ctx.fkey(f)
    if rule == "C15.G1":
        _cursor_reject(ctx, c, rule)
    # the stores of a decoded item: result.append([key, value]) / <previous>[1] += value
    stores = []
    for n in cfg.nodes:
        a = n.ast
        if n.kind != "stmt" or n.id not in c.live:
            continue
        if isinstance(a, ast.AugAssign) and isinstance(a.target, ast.Subscript):
            stores.append((n, None, a.value))
        for cl in ctx.calls(n):
            if isinstance(cl.func, ast.Attribute) and cl.func.attr == "append" and len(cl.args) == 1 and isinstance(cl.args[0], (ast.List, ast.Tuple)) and len(cl.args[0].elts) == 2:
                stores.append((n, cl.args[0].elts[0], cl.args[0].elts[1]))
    stores = [s_ for s_ in stores if "logger" not in _u(s_[0].ast)]
    if not stores:
        ck.unknown(rule, "decode_bytearray (cursor form): no store of a decoded item found", f.loc())
        return
    want_val = AV.atom(("slice", c.Dv, AV.add(c.P0, AV.const(2)), c.ITEM_END))
    want_key = AV.atom(("read", c.Dv, c.P0))
    if rule == "C15.T1":
        for n, ke, ve in stores:
            v = A.ssa(n, ve)
            good = v == want_val
            if good or not AV.has_opaque(v):
                ck.check(rule, good, "the value stored is buffer[P + 2 : P + 2 + length byte] (type at P, length at P + 1)", f"{fk}:value-slice",
                         f"decode_bytearray stores {AV.show(v)} as the value of the item at P = {AV.show(c.P0)}: it must be buffer[P + 2 : P + 2 + buffer[P + 1]]", ctx.loc(f, n))
            else:
                ck.unknown(rule, f"decode_bytearray (cursor form): the stored value {AV.show(v)} is not read by the analysis", ctx.loc(f, n))
            if ke is not None:
                kv = A.ssa(n, ke)
                ck.check(rule, kv == want_key, "the type stored is buffer[P]", f"{fk}:pops",
                         f"decode_bytearray stores {AV.show(kv)} as the type of the item at P = {AV.show(c.P0)}", ctx.loc(f, n))
        # every way back to the loop head leaves the cursor at the end of the item: P0 + 2 + length byte
        n_back = 0
        for src, lab, _exc in c.head.pred:
            if src not in c.live or src not in cfg.reachable_from(c.head.id):
                continue
            n_back += 1
            sn = cfg.nodes[src]
            v = A.ssa_after(sn, c.P)
            good = v == c.ITEM_END
            if good or not AV.has_opaque(v):
                ck.check(rule, good, "at the end of an iteration the cursor stands behind the item: P + 2 + length byte", f"{fk}:slice-terms",
                         f"decode_bytearray: after `{sn.text()[:50]}` the next iteration starts at {AV.show(v)}; the item at P ends at {AV.show(c.ITEM_END)}", ctx.loc(f, sn))
            else:
                ck.unknown(rule, f"decode_bytearray (cursor form): the cursor at the end of an iteration is {AV.show(v)}: not decided", ctx.loc(f, sn))
        ck.require_min(rule, "ways back to the head of the item loop", n_back, 1)
        # never the caller's buffer: nothing is changed in place (reads and fresh slices only)
        params = set(f.pos_params)
        mut = [p for p in params if A.mutated_in_place(p)] + ([c.D] if A.mutated_in_place(c.D) else [])
        ck.check(rule, not mut, "the decoder never mutates the caller's buffer (the cursor form only reads and takes fresh slices)", f"{fk}:consumes-callers-buffer",
                 f"decode_bytearray changes {mut} in place", f.loc())
        return
    # G1: a value is stored only after  len(D) >= P0 + 2 + length byte  was established
    G = AV.add(c.LEN, c.ITEM_END, -1)
    fit = AV.atom(("len", want_val))
    gates = []
    for n in cfg.nodes:
        if n.kind != "test" or n.id not in c.live:
            continue
        td = c.test_diff(n)
        if td is None:
            continue
        for truth, lab in ((True, "T"), (False, "F")):
            op = c._outcome(td[1], truth)
            lb = c.lower_bound(td[0], op, G)
            if lb is not None and lb >= 0:
                gates += ctx.edges(cfg, n, lab)
            # length byte == len(the value slice): the slice is as long as declared
            if op == "Eq" and td[0] in (AV.add(c.L, fit, -1), AV.add(fit, c.L, -1)):
                gates += ctx.edges(cfg, n, lab)
    for n, _ke, _ve in stores:
        ctx.must_pass(rule, cfg, n, "declared length fits: len(buffer) >= P + 2 + length byte", gates, start=c.head.id,
                      desc=f"decode_bytearray: `{n.text()[:50]}` only after the declared length was checked against the bytes available")


def _lin(e, buf: str, lenv: str):
    """linear form  a*len(buf) + b*<length variable> + k  of an expression, or None"""
    if isinstance(e, ast.Constant) and isinstance(e.value, int) and not isinstance(e.value, bool):
        return (0, 0, e.value)
    if isinstance(e, ast.Name) and e.id == lenv:
        return (0, 1, 0)
    if isinstance(e, ast.Call) and isinstance(e.func, ast.Name) and e.func.id == "len" and len(e.args) == 1 and isinstance(e.args[0], ast.Name) and e.args[0].id == buf:
        return (1, 0, 0)
    if isinstance(e, ast.BinOp) and isinstance(e.op, (ast.Add, ast.Sub)):
        l, r = _lin(e.left, buf, lenv), _lin(e.right, buf, lenv)
        if l is None or r is None:
            return None
        sg = 1 if isinstance(e.op, ast.Add) else -1
        return (l[0] + sg * r[0], l[1] + sg * r[1], l[2] + sg * r[2])
    return None


def _enough_edges(ctx: Context, cfg, buf: str, lenv: str):
    """[(edge, C)]: on this edge  len(buf) >= <length> + C  is known (from a comparison of the declared length with the bytes left)"""
    out = []
    for n in cfg.nodes:
        if n.kind != "test":
            continue
        e = n.exprs[0]
        if not (isinstance(e, ast.Compare) and len(e.ops) == 1):
            continue
        l, r = _lin(e.left, buf, lenv), _lin(e.comparators[0], buf, lenv)
        if l is None or r is None:
            continue
        a, b, k = l[0] - r[0], l[1] - r[1], l[2] - r[2]  # a*len + b*L + k  <op>  0
        op = type(e.ops[0]).__name__
        if (a, b) == (1, -1):
            # len - L + k <op> 0
            facts = {"GtE": ("T", -k), "Gt": ("T", 1 - k), "Lt": ("F", -k), "LtE": ("F", 1 - k), "Eq": ("T", -k), "NotEq": ("F", -k)}
        elif (a, b) == (-1, 1):
            # -len + L + k <op> 0   <=>   len - L - k <op'> 0
            facts = {"LtE": ("T", k), "Lt": ("T", k + 1), "Gt": ("F", k), "GtE": ("F", k + 1), "Eq": ("T", k), "NotEq": ("F", k)}
        else:
            continue
        if op in facts:
            lab, c = facts[op]
            for ed in cfg.out_edges(n, (lab,)):
                out.append((ed, c))
    return out


def _index_idiom(ctx: Context):
    """The decoder written with indices and slices: key = buf[0]; length = buf[1]; value = buf[A : A + length]; buf = buf[A + length :]"""
    f = ctx.func(f"{TLVC}.decode_bytearray")
    cfg = ctx.cfg(f.qualname)
    bufs = _wire_buffers(ctx, cfg)
    res = None
    for buf in sorted(bufs):
        idx = {}
        for n in cfg.nodes:
            a = n.ast
            if n.kind == "stmt" and isinstance(a, ast.Assign) and len(a.targets) == 1 and isinstance(a.targets[0], ast.Name) and isinstance(a.value, ast.Subscript) and isinstance(a.value.value, ast.Name) and a.value.value.id == buf:
                if not isinstance(a.value.slice, ast.Slice):
                    i = ctx.const(f, a.value.slice, None)
                    if isinstance(i, int):
                        idx[i] = (n, a.targets[0].id)
        if 0 in idx and 1 in idx:
            res = (f, cfg, buf, idx[0], idx[1])
    return res


def _g1_t1_index_idiom(ctx: Context, rule: str) -> bool:
    """G1/T1 for the index/slice form of the decoder.  Returns False when the decoder is not written that way."""
    ck = ctx.ck
    r = _index_idiom(ctx)
    if r is None:
        return False
    f, cfg, buf, (kn, keyv), (ln, lenv) = r
    # value slice and advance
    take = keep = None
    for n in cfg.nodes:
        a = n.ast
        if n.kind == "stmt" and isinstance(a, ast.Assign) and isinstance(a.value, ast.Subscript) and isinstance(a.value.slice, ast.Slice) and isinstance(a.value.value, ast.Name) and a.value.value.id == buf:
            sl = a.value.slice
            lo = _lin(sl.lower, buf, lenv) if sl.lower is not None else (0, 0, 0)
            hi = _lin(sl.upper, buf, lenv) if sl.upper is not None else None
            if isinstance(a.targets[0], ast.Name) and a.targets[0].id == buf and sl.upper is None:
                keep = (n, lo)
            elif sl.upper is not None:
                take = (n, lo, hi)
    if take is None or keep is None or take[1] is None or take[2] is None or keep[1] is None:
        ck.unknown(rule, "decode_bytearray (index form): value slice / advance not recognised", f.loc())
        return True
    A = take[1][2] if take[1][:2] == (0, 0) else None
    if rule == "C15.T1":
        ck.check(rule, A == 2 and take[2] == (0, 1, 2), "value = buffer[2 : 2 + length] (type at 0, length at 1)", f"{ctx.fkey(f)}:value-slice",
                 f"decode_bytearray takes the value from {take[1]}..{take[2]} (as a*len + b*length + k): it must be buffer[2 : 2 + length]", ctx.loc(f, take[0]))
        ck.check(rule, keep[1] == take[2], "the buffer advances to exactly the end of the value", f"{ctx.fkey(f)}:slice-terms",
                 f"decode_bytearray advances to {keep[1]} but the value ended at {take[2]} (a*len + b*length + k)", ctx.loc(f, keep[0]))
        p = cfg.find_path(ln.id, keep[0].id, avoid_nodes=[take[0].id])
        ck.check(rule, p is None, "the value is taken before the buffer is advanced", f"{ctx.fkey(f)}:take-before-advance", "decode_bytearray advances the buffer before taking the value", ctx.loc(f, keep[0]))
        # works on a copy: definitions reaching the index reads
        du = ctx.terms.du(cfg)
        bad = []
        for def_nid, d in du.reaching(kn.id, buf):
            v = d.value
            ok = d.kind == "assign" and ((isinstance(v, ast.Call) and ((isinstance(v.func, ast.Attribute) and v.func.attr == "copy") or (isinstance(v.func, ast.Name) and v.func.id in ("bytearray", "bytes"))))
                                         or (isinstance(v, ast.Subscript) and isinstance(v.slice, ast.Slice)) or isinstance(v, ast.Name))
            if not ok:
                bad.append(cfg.nodes[def_nid])
        ck.check(rule, not bad, "the decoder never mutates the caller's buffer (index form only reads and re-slices)", f"{ctx.fkey(f)}:consumes-callers-buffer",
                 "decode_bytearray's cursor is not a copy/slice of the input", ctx.loc(f, kn))
        return True
    # G1: never a short value - the value is stored only after  len(buffer) >= length + A  was established
    need = A if A is not None else 10**6
    gates = [ed for ed, c in _enough_edges(ctx, cfg, buf, lenv) if c >= need]
    stores = []
    for n in cfg.nodes:
        a = n.ast
        if n.kind != "stmt":
            continue
        if isinstance(a, ast.AugAssign) and isinstance(a.target, ast.Subscript):
            stores.append(n)
        for c in ctx.calls(n):
            if isinstance(c.func, ast.Attribute) and c.func.attr in ("append", "extend", "insert") and not (isinstance(c.func.value, ast.Name) and c.func.value.id == buf):
                stores.append(n)
    stores = [x for x in stores if "logger" not in _u(x.ast)]
    for st in stores:
        ctx.must_pass(rule, cfg, st, f"declared length fits: len(buffer) >= length + {need}", gates,
                      desc=f"decode_bytearray: `{st.text()[:50]}` only after the declared length was checked against the bytes available")
    weaker = [c for ed, c in _enough_edges(ctx, cfg, buf, lenv) if c < need]
    if weaker and not gates:
        ck.note(f"decode_bytearray: a length test establishes only len >= length + {max(weaker)}, the value slice needs + {need}")
    # merge of equal-typed neighbours (shared with the pop form)
    return True


def _g1(ctx: Context) -> None:
    ck = ctx.ck
    f, cfg, pops = _decoder_parts(ctx)
    T = ctx.terms
    if len(pops) != 2 and _g1_t1_index_idiom(ctx, "C15.G1"):
        _merge_check(ctx, f, cfg, _index_idiom(ctx)[3][1])
        return
    if len(pops) != 2:
        cur = _cursor_form(ctx)
        if cur.ok:
            _cursor_g1_t1(ctx, cur, "C15.G1")
            keyd = [n.ast.targets[0].id for n, x, k in cur.reads if k == 0 and n.kind == "stmt" and type(n.ast) is ast.Assign and isinstance(n.ast.targets[0], ast.Name) and n.ast.value is x]
            if len(keyd) == 1:
                _merge_check(ctx, f, cfg, keyd[0])
            else:
                ck.unknown("C15.G1", "decode_bytearray (cursor form): the type byte is not kept in one local: merge of equal-typed neighbours not decided", f.loc())
            return
        ck.unknown("C15.G1", f"decode_bytearray: expected two pops (type, length), found {len(pops)}", f.loc())
        return
    (kn, keyv, buf, _i1), (ln, lenv, buf2, _i2) = sorted(pops, key=lambda p: p[0].lineno)
    # the length test: compare  length  with  len(value)  where value = buf[:length]
    gate = []
    for n in cfg.nodes:
        if n.kind != "test":
            continue
        t = T.of(cfg, n, n.exprs[0])
        if t[0] != "cmp" or len(t[1]) != 1 or t[1][0] not in ("NotEq", "Eq", "Gt", "Lt"):
            continue
        l, r = t[2]
        for a, b in ((l, r), (r, l)):
            if a[0] == "call" and a[1][0] == "attr" and a[1][2] == "pop" and b[0] == "call" and b[1] == ("glob", "len"):
                inner = b[2][0]
                if inner[0] == "sub" and inner[2][0] == "slice" and inner[2][1] is None and inner[2][2] == a:
                    if t[1][0] == "NotEq":
                        gate += ctx.edges(cfg, n, "F")
                    elif t[1][0] == "Eq":
                        gate += ctx.edges(cfg, n, "T")
                    elif t[1][0] == "Gt" and a is l or t[1][0] == "Lt" and a is r:
                        gate += ctx.edges(cfg, n, "F")
    # stores of a value into the result
    stores = []
    for n in cfg.nodes:
        a = n.ast
        if n.kind != "stmt":
            continue
        if isinstance(a, ast.AugAssign) and isinstance(a.target, ast.Subscript):
            stores.append(n)
        for c in ctx.calls(n):
            if isinstance(c.func, ast.Attribute) and c.func.attr in ("append", "extend", "insert") and not (
                isinstance(c.func.value, ast.Name) and c.func.value.id == buf
            ):
                stores.append(n)
    stores = [s for s in stores if "logger" not in _u(s.ast)]
    if not stores:
        ck.unknown("C15.G1", "decode_bytearray: no store of a decoded value found", f.loc())
        return
    for s in stores:
        ctx.must_pass("C15.G1", cfg, s, "length test [declared length == bytes available]", gate,
                      desc=f"decode_bytearray: `{s.text()[:50]}` only after the declared length was checked against the bytes available")
    _merge_check(ctx, f, cfg, keyv)


def _merge_check(ctx: Context, f, cfg, keyv: str) -> None:
    ck = ctx.ck
    T = ctx.terms
    # merge of equal-typed neighbours
    merged = False
    for n in cfg.nodes:
        if n.kind == "stmt" and isinstance(n.ast, ast.AugAssign) and isinstance(n.ast.target, ast.Subscript):
            # guarded by a comparison of the previous item's type with the current key
            for m in cfg.nodes:
                if m.kind == "test":
                    t = T.of(cfg, m, m.exprs[0])
                    if t[0] == "cmp" and t[1] == ("Eq",):
                        l, r = t[2]
                        keyt = T.var_at(cfg, m, keyv)
                        if (l == keyt or r == keyt) and cfg.find_path(cfg.entry.id, n.id, avoid_edges=ctx.edges(cfg, m, "T")) is None:
                            merged = True
    ck.check("C15.G1", merged, "decode_bytearray: a fragment with the type of the previous item is appended to it",
             f"{ctx.fkey(f)}:no-merge", "decode_bytearray: equal-typed neighbours are no longer merged (fragmented values come back in pieces)", f.loc())


def _t1(ctx: Context) -> None:
    ck = ctx.ck
    f, cfg, pops = _decoder_parts(ctx)
    T = ctx.terms
    if len(pops) != 2 and _g1_t1_index_idiom(ctx, "C15.T1"):
        return
    if len(pops) != 2:
        cur = _cursor_form(ctx)
        if cur.ok:
            _cursor_g1_t1(ctx, cur, "C15.T1")
            return
        ck.unknown("C15.T1", f"decode_bytearray: expected two pops (type, length), found {len(pops)}", f.loc())
        return
    (kn, keyv, buf, i1), (ln, lenv, buf2, i2) = sorted(pops, key=lambda p: p[0].lineno)
    ck.check("C15.T1", buf == buf2 and i1 == 0 and i2 == 0, "type and length are popped from the front of the same buffer",
             f"{ctx.fkey(f)}:pops", f"decode_bytearray: pops are {buf}.pop({i1}) and {buf2}.pop({i2})", ctx.loc(f, kn))
    # order: the type pop dominates the length pop
    p = cfg.find_path(cfg.entry.id, ln.id, avoid_nodes=[kn.id])
    ck.check("C15.T1", p is None, "the type byte is consumed before the length byte on every path",
             f"{ctx.fkey(f)}:pop-order", "decode_bytearray: the length pop is reachable without the type pop", ctx.loc(f, ln))
    # value = buf[:L], remainder buf = buf[L:] with L = the popped length
    take = keep = None
    for n in cfg.nodes:
        a = n.ast
        if n.kind == "stmt" and isinstance(a, ast.Assign) and isinstance(a.value, ast.Subscript) and isinstance(a.value.slice, ast.Slice):
            sl = a.value.slice
            if isinstance(a.value.value, ast.Name) and a.value.value.id == buf:
                if sl.lower is None and sl.upper is not None:
                    take = (n, T.of(cfg, n, sl.upper))
                elif sl.upper is None and sl.lower is not None and isinstance(a.targets[0], ast.Name) and a.targets[0].id == buf:
                    keep = (n, T.of(cfg, n, sl.lower))
    if take is None or keep is None:
        ck.unknown("C15.T1", "decode_bytearray: value slice / remainder slice not found", f.loc())
        return
    lent = T.var_after(cfg, ln, lenv)
    ck.check("C15.T1", take[1] == keep[1] == lent,
             "value = buf[:L] and remainder = buf[L:] use the popped length L itself",
             f"{ctx.fkey(f)}:slice-terms",
             f"decode_bytearray: value taken up to {show(take[1], 60)}, remainder from {show(keep[1], 60)}, popped length {show(lent, 60)}",
             ctx.loc(f, take[0]))
    # take precedes keep
    p = cfg.find_path(ln.id, keep[0].id, avoid_nodes=[take[0].id])
    ck.check("C15.T1", p is None, "the value is taken before the buffer is advanced",
             f"{ctx.fkey(f)}:take-before-advance", "decode_bytearray: the buffer is advanced before the value is taken", ctx.loc(f, keep[0]))
    # the consumed buffer is a copy: every definition reaching a pop is .copy() / bytearray(..) / a slice
    du = T.du(cfg)
    bad = []
    for pn in (kn, ln):
        for def_nid, d in du.reaching(pn.id, buf):
            v = d.value
            ok = False
            if d.kind == "assign" and isinstance(v, ast.Call):
                if isinstance(v.func, ast.Attribute) and v.func.attr == "copy":
                    ok = True
                if isinstance(v.func, ast.Name) and v.func.id in ("bytearray", "bytes", "list"):
                    ok = True
            if d.kind == "assign" and isinstance(v, ast.Subscript) and isinstance(v.slice, ast.Slice):
                ok = True
            if not ok:
                bad.append(cfg.nodes[def_nid])
    ck.check("C15.T1", not bad, "the decoder pops from a copy, never from the caller's buffer",
             f"{ctx.fkey(f)}:consumes-callers-buffer",
             f"decode_bytearray pops from a buffer defined by `{bad[0].text() if bad else ''}`: the caller's bytes are consumed",
             ctx.loc(f, bad[0] if bad else kn))


def _remainder_fragments(ctx: Context, f, cfg) -> None:
    """A length byte computed as a remainder (`len(v) % K`, `divmod(len(v), K)[1]`) is 0 for every exact multiple of K:
    emitting it unguarded produces an extra zero-length fragment (and `v[-0:]` is the whole value, not nothing)."""
    ck = ctx.ck
    rem: dict[str, tuple] = {}  # local name -> (defining node, K expr)
    for n in cfg.nodes:
        a = n.ast
        if n.kind != "stmt" or not isinstance(a, ast.Assign) or len(a.targets) != 1:
            continue
        tg, v = a.targets[0], a.value
        if isinstance(tg, ast.Tuple) and len(tg.elts) == 2 and isinstance(tg.elts[1], ast.Name) and isinstance(v, ast.Call) \
                and isinstance(v.func, ast.Name) and v.func.id == "divmod" and len(v.args) == 2:
            rem[tg.elts[1].id] = (n, v.args[1])
        elif isinstance(tg, ast.Name) and isinstance(v, ast.BinOp) and isinstance(v.op, ast.Mod):
            rem[tg.id] = (n, v.right)
    for n in cfg.nodes:
        for c in ctx.calls(n):
            if not (isinstance(c.func, ast.Attribute) and c.func.attr == "append" and len(c.args) == 1):
                continue
            a0 = c.args[0]
            name = a0.id if isinstance(a0, ast.Name) and a0.id in rem else None
            if name is None and not (isinstance(a0, ast.BinOp) and isinstance(a0.op, ast.Mod)):
                continue
            nonzero = []
            if name is not None:
                for tn in cfg.nodes:
                    if tn.kind != "test":
                        continue
                    e = tn.exprs[0]
                    if isinstance(e, ast.Name) and e.id == name:
                        nonzero += ctx.edges(cfg, tn, "T")
                    cp = compare_parts(e)
                    if cp and isinstance(cp[0], ast.Name) and cp[0].id == name and ctx.const(f, cp[2], None) == 0:
                        if cp[1] in ("Gt", "NotEq"):
                            nonzero += ctx.edges(cfg, tn, "T")
                        elif cp[1] in ("Eq", "LtE"):
                            nonzero += ctx.edges(cfg, tn, "F")
            p = cfg.find_path(cfg.entry.id, n.id, avoid_edges=nonzero)
            ck.check("C15.K1", p is None, "encode_list: a remainder is announced as a fragment length only when it is not zero",
                     f"{ctx.fkey(f)}:zero-length-fragment",
                     f"encode_list: `{n.text()}` announces a remainder as the length of the last fragment without testing it for zero: a value whose "
                     "length is an exact multiple of the fragment size gets an extra zero-length fragment (and a slice `value[-0:]` is the whole value)",
                     ctx.loc(f, n), cfg.render_path(p) if p else None)


def _k1(ctx: Context) -> None:
    ck = ctx.ck
    f = ctx.func(f"{TLVC}.encode_list")
    cfg = ctx.cfg(f.qualname)
    T = ctx.terms
    # the fragment test  len(value) > K
    frag = []
    for n in cfg.nodes:
        if n.kind != "test" or not cfg.in_region(n, "loop"):
            continue
        cp = compare_parts(n.exprs[0])
        if cp is None:
            continue
        l, op, r = cp
        if isinstance(l, ast.Call) and isinstance(l.func, ast.Name) and l.func.id == "len" and op in ("Gt", "GtE"):
            k = ctx.const(f, r, None)
            if isinstance(k, int) and k > 0:
                frag.append((n, k if op == "Gt" else k - 1, l.args[0]))
    _remainder_fragments(ctx, f, cfg)
    if len(frag) != 1:
        ck.unknown("C15.K1", f"encode_list: expected one fragment-size test `len(value) > K`, found {len(frag)}", f.loc())
        return
    fn, K, valexpr = frag[0]
    ck.check("C15.K1", K == 255, "fragment threshold is 255", f"{ctx.fkey(f)}:threshold",
             f"encode_list: values are fragmented above {K} bytes, TLV8 says 255", ctx.loc(f, fn))
    valname = valexpr.id if isinstance(valexpr, ast.Name) else None
    # appends of a length byte and the slices, per outcome
    for label, want in (("T", "const"), ("F", "len")):
        region = set()
        for e in ctx.edges(cfg, fn, label):
            region |= cfg.reachable_from(e[1], avoid_nodes=[fn.id] + [x.id for x in cfg.nodes if x.kind == "loop_head"])
        lens = []
        slices_take, slices_keep = [], []
        for nid in sorted(region):
            n = cfg.nodes[nid]
            a = n.ast
            if n.kind == "stmt":
                for c in ctx.calls(n):
                    if isinstance(c.func, ast.Attribute) and c.func.attr == "append" and len(c.args) == 1:
                        t = T.of(cfg, n, c.args[0])
                        if t[0] == "const" and isinstance(t[1], int):
                            lens.append((n, t))
                        elif t[0] == "call" and t[1] == ("glob", "len"):
                            lens.append((n, t))
                if isinstance(a, ast.Assign) and isinstance(a.value, ast.Subscript) and isinstance(a.value.slice, ast.Slice):
                    sl = a.value.slice
                    if isinstance(a.value.value, ast.Name) and a.value.value.id == valname and sl.upper is None and sl.lower is not None:
                        slices_keep.append((n, T.of(cfg, n, sl.lower)))
            if n.kind == "for_iter" and isinstance(a.iter, ast.Subscript) and isinstance(a.iter.slice, ast.Slice):
                sl = a.iter.slice
                if sl.lower is None and sl.upper is not None:
                    slices_take.append((n, T.of(cfg, n, sl.upper)))
            for c in ctx.calls(n):
                if isinstance(c.func, ast.Attribute) and c.func.attr in ("extend",) and c.args and isinstance(c.args[0], ast.Subscript) and isinstance(c.args[0].slice, ast.Slice):
                    sl = c.args[0].slice
                    if sl.lower is None and sl.upper is not None:
                        slices_take.append((n, T.of(cfg, n, sl.upper)))
            if n.kind == "stmt" and isinstance(a, ast.AugAssign) and isinstance(a.value, ast.Subscript) and isinstance(a.value.slice, ast.Slice):
                sl = a.value.slice
                if sl.lower is None and sl.upper is not None:
                    slices_take.append((n, T.of(cfg, n, sl.upper)))
        side = "long-value" if label == "T" else "short-value"
        if not lens or not slices_take or not slices_keep:
            ck.unknown("C15.K1", f"encode_list [{side} outcome]: length byte / emitted slice / advance not found", ctx.loc(f, fn))
            continue
        lt = lens[0][1]
        if want == "const":
            ok = lt == ("const", K) and K == 255
            msg = f"encode_list: a full fragment announces length {show(lt)} but the threshold is {K} (TLV8: 255)"
        else:
            # the announced length is len(<the value variable>) and the variable is not redefined in between
            an = lens[0][0]
            dn, de = _resolve_ast(T, cfg, an, [c.args[0] for c in ctx.calls(an) if isinstance(c.func, ast.Attribute) and c.func.attr == "append"][0])
            ok = (
                isinstance(de, ast.Call) and isinstance(de.func, ast.Name) and de.func.id == "len" and len(de.args) == 1
                and isinstance(de.args[0], ast.Name) and de.args[0].id == valname
                and _same_defs(T, cfg, valname, dn, an)
            )
            msg = f"encode_list: the last fragment announces length `{_u(de)}` instead of len(value)"
        ck.check("C15.K1", ok, f"encode_list [{side}]: the length byte is {'255' if want == 'const' else 'len(value) (<= 255)'}",
                 f"{ctx.fkey(f)}:{side}:length-byte", msg, ctx.loc(f, lens[0][0]))
        same = all(strip_sites(s[1]) == strip_sites(lt) for s in slices_take + slices_keep)
        ck.check("C15.K1", same, f"encode_list [{side}]: bytes emitted value[:L] and advance value[L:] use the announced length L",
                 f"{ctx.fkey(f)}:{side}:slice-agreement",
                 f"encode_list [{side}]: announced {show(lt)}, emitted up to {[show(s[1]) for s in slices_take]}, advanced by {[show(s[1]) for s in slices_keep]}",
                 ctx.loc(f, slices_take[0][0]))
    # key validation
    vf = ctx.func(f"{TLVC}.validate_key")
    vcfg = ctx.cfg(vf.qualname)
    lo = hi = None
    for n in vcfg.nodes:
        if n.kind == "test":
            cp = compare_parts(n.exprs[0])
            if cp:
                l, op, r = cp
                k = ctx.const(vf, r, None)
                if op == "Lt" and isinstance(k, int):
                    lo = k
                if op == "Gt" and isinstance(k, int):
                    hi = k
                if op == "LtE" and isinstance(k, int):
                    lo = k + 1
                if op == "GtE" and isinstance(k, int):
                    hi = k - 1
    ck.check("C15.K1", (lo, hi) == (0, 255), "validate_key accepts exactly 0..255", f"{ctx.fkey(vf)}:range",
             f"validate_key accepts {lo}..{hi}", vf.loc())
    gate = []
    for n in cfg.nodes:
        if n.kind == "test":
            for c in ctx.calls(n):
                if "validate_key" in " ".join(ctx.callee_names(f, c)):
                    gate += ctx.edges(cfg, n, "T")
    appends = [n for n in cfg.nodes for c in ctx.calls(n) if isinstance(c.func, ast.Attribute) and c.func.attr == "append"]
    for a in appends[:1]:
        ctx.must_pass("C15.K1", cfg, a, "validate_key(key) [valid outcome]", gate, desc="encode_list: nothing is emitted for a key that failed validation")
    # separator
    seps = []
    for n in cfg.nodes:
        if n.kind == "test":
            cp = compare_parts(n.exprs[0])
            if cp and cp[1] == "Eq" and (ctx.const(f, cp[2], None) == 255 or ctx.const(f, cp[0], None) == 255):
                seps.append(n)
    if len(seps) != 1:
        ck.unknown("C15.K1", f"encode_list: separator test not found ({len(seps)})", f.loc())
        return
    sn = seps[0]
    # inside its true outcome: empty -> append key, 0 ; else raise
    t_region = set()
    for e in ctx.edges(cfg, sn, "T"):
        t_region |= cfg.reachable_from(e[1], avoid_nodes=[x.id for x in cfg.nodes if x.kind == "loop_head"])
    empt = [n for n in cfg.nodes if n.id in t_region and n.kind == "test" and (cp := compare_parts(n.exprs[0])) and cp[1] in ("Eq", "NotEq", "Gt") and ctx.const(f, cp[2], None) == 0]
    ok = False
    if empt:
        en = empt[0]
        op = compare_parts(en.exprs[0])[1]
        empty_label = "T" if op == "Eq" else "F"
        other = "F" if empty_label == "T" else "T"
        emitted = []
        for e in ctx.edges(cfg, en, empty_label):
            cur = e[1]
            for _ in range(4):
                n = cfg.nodes[cur]
                for c in ctx.calls(n):
                    if isinstance(c.func, ast.Attribute) and c.func.attr == "append" and c.args:
                        emitted.append(strip_sites(T.of(cfg, n, c.args[0])))
                nx = [d for (d, l, _e) in n.succ if l == "n"]
                if len(nx) != 1:
                    break
                cur = nx[0]
        raises = True
        for e in ctx.edges(cfg, en, other):
            reach = cfg.reachable_from(e[1])
            raises = cfg.exit.id not in reach and not any(cfg.nodes[x].kind == "loop_head" for x in reach)
        keyt = None
        ok = len(emitted) >= 2 and emitted[1] == ("const", 0) and raises
    ck.check("C15.K1", ok, "encode_list: a separator is emitted as (type, 0) and rejects data", f"{ctx.fkey(f)}:separator",
             "encode_list: separator handling changed (must emit the type byte and a zero length, and raise for data)", ctx.loc(f, sn))


def _g2(ctx: Context) -> None:
    ck = ctx.ck
    f = ctx.func(f"{TLVC}.encode_list")
    cfg = ctx.cfg(f.qualname)
    T = ctx.terms
    heads = [n for n in cfg.nodes if n.kind == "for" and not any(fr[0] == "loop" for fr in n.frames)]
    if len(heads) != 1:
        ck.unknown("C15.G2", f"encode_list: expected one outer item loop, found {len(heads)}", f.loc())
        return
    h = heads[0]
    # nodes that emit the item's type byte
    keyname = None
    tgt = h.ast.target
    if isinstance(tgt, ast.Tuple) and tgt.elts and isinstance(tgt.elts[0], ast.Name):
        keyname = tgt.elts[0].id
    emit = set()
    for n in cfg.nodes:
        for c in ctx.calls(n):
            if isinstance(c.func, ast.Attribute) and c.func.attr == "append" and c.args and isinstance(c.args[0], ast.Name) and c.args[0].id == keyname:
                emit.add(n.id)
    bad = None
    for e in cfg.out_edges(h, ("T",)):
        p = cfg.find_path(e[1], h.id, avoid_nodes=emit)
        if p is not None and e[1] not in emit:
            bad = p
    if bad is None:
        ck.holds("C15.G2", "encode_list: every iteration of the item loop emits at least one header", ctx.loc(f, h))
    else:
        ck.violated(
            "C15.G2",
            f"{ctx.fkey(f)}:empty-value-not-emitted",
            "encode_list: an item can pass through the loop without emitting any header - a zero-length value of a "
            "non-separator type is dropped (encode_list([(1, b'')]) == b''), so the round trip loses the item",
            ctx.loc(f, h),
            cfg.render_path([(h.id, "T", None)] + bad),
            "encode_list: every item produces at least one header",
        )


def _g3(ctx: Context) -> None:
    ck = ctx.ck
    q = "aiohomekit.controller.ble.client._pairing_char_write"
    f = ctx.func(q)
    cfg = ctx.cfg(q)
    T = ctx.terms
    LAST, DATA = 13, 12
    tests = {}
    for n in cfg.nodes:
        if n.kind == "test":
            m = is_membership(n.exprs[0])
            if m:
                k = ctx.const(f, m[0], None)
                if k in (LAST, DATA):
                    tests[k] = (n, m[2])
                continue
            # presence by value: `.get(K)` truthiness treats a zero-length fragment as absent
            t = strip_sites(T.of(cfg, n, n.exprs[0]))
            inner, strict = t, False
            if t[0] == "cmp" and t[1] in (("IsNot",), ("Is",)) and t[2][1] == ("const", None):
                inner, strict = t[2][0], True
            if inner[0] == "call" and inner[1][0] == "attr" and inner[1][2] == "get" and inner[2] and inner[2][0][0] == "const" and inner[2][0][1] in (LAST, DATA):
                k = inner[2][0][1]
                if strict:
                    tests[k] = (n, t[1] == ("IsNot",))
                else:
                    ck.violated("C15.G3", f"{ctx.fkey(f)}:fragment-presence-by-truthiness:{k}",
                                f"_pairing_char_write tests the presence of TLV type {k} by the truthiness of .get({k}): a zero-length "
                                f"{'FragmentLast' if k == LAST else 'FragmentData'} item (a valid TLV8 item, sent when the response length is an exact multiple of the "
                                "fragment size) is treated as absent and the reassembled response is discarded", ctx.loc(f, n))
                    tests[k] = (n, True)
    if set(tests) != {LAST, DATA}:
        ck.unknown("C15.G3", "_pairing_char_write: FragmentLast / FragmentData tests not found", f.loc())
        return

    def extends_with(region, k):
        out = []
        for nid in region:
            n = cfg.nodes[nid]
            for c in ctx.calls(n):
                if isinstance(c.func, ast.Attribute) and c.func.attr == "extend" and c.args:
                    from ._pairing import get_as_item

                    t = get_as_item(strip_sites(T.of(cfg, n, c.args[0])))  # decoded.get(k) behind a presence test is decoded[k]
                    if t[0] == "sub" and t[2] == ("const", k):
                        out.append((n, c))
        return out

    # FragmentLast: extend then return dict(decode_bytes(buffer))
    ln, pos = tests[LAST]
    lab = "T" if pos else "F"
    for e in ctx.edges(cfg, ln, lab):
        region = cfg.reachable_from(e[1], avoid_nodes=[x.id for x in cfg.nodes if x.kind in ("for",)])
        ex = extends_with(region, LAST)
        rets = [cfg.nodes[x] for x in region if cfg.nodes[x].kind == "return"]
        ok = bool(ex) and bool(rets)
        if ok:
            bufname = _u(ex[0][1].func.value)
            for r in rets:
                p = cfg.find_path(e[1], r.id, avoid_nodes=[ex[0][0].id])
                if p is not None and e[1] != ex[0][0].id:
                    ok = False
                t = strip_sites(T.of(cfg, r, r.exprs[0])) if r.exprs else ("const", None)
                if not contains(t, lambda s: s[0] == "call" and s[1][0] == "glob" and s[1][1].endswith("decode_bytes") or s[0] == "call" and s[1][0] == "glob" and s[1][1].endswith("decode_bytearray")):
                    ok = False
                arg_names = {x.id for x in ast.walk(expand(f.node, r.exprs[0], only=lambda nm: nm != bufname)) if isinstance(x, ast.Name)} if r.exprs else set()
                if bufname not in arg_names:
                    ok = False
        ck.check("C15.G3", ok, "FragmentLast: the fragment is appended, then the whole buffer is decoded and returned",
                 f"{ctx.fkey(f)}:fragment-last", "_pairing_char_write: the final fragment is not appended before decoding the reassembly buffer", ctx.loc(f, ln))
    # FragmentData: extend, acknowledge with 0c 00, keep looping
    dn, pos = tests[DATA]
    lab = "T" if pos else "F"
    for e in ctx.edges(cfg, dn, lab):
        region = cfg.reachable_from(e[1], avoid_nodes=[x.id for x in cfg.nodes if x.kind in ("for",)])
        ex = extends_with(region, DATA)
        ack = None
        for nid in region:
            n = cfg.nodes[nid]
            if n.kind == "stmt" and isinstance(n.ast, ast.Assign):
                t = T.of(cfg, n, n.ast.value)
                if t == ("const", bytes([DATA, 0])):
                    ack = n
        loops = any(cfg.nodes[d].kind == "for" for nid in region for (d, l, _x) in cfg.nodes[nid].succ)
        # the acknowledged value is what the next write sends
        sends_ack = False
        if ack is not None and isinstance(ack.ast.targets[0], ast.Name):
            v = ack.ast.targets[0].id
            for n, c in ctx.nodes_calling_name(cfg, "char_write"):
                if any(isinstance(a, ast.Name) and a.id == v for a in c.args):
                    sends_ack = True
        ck.check("C15.G3", bool(ex) and ack is not None and loops and sends_ack,
                 "FragmentData: the fragment is appended and acknowledged with 0c 00 by the next write",
                 f"{ctx.fkey(f)}:fragment-data", "_pairing_char_write: an intermediate fragment is not appended / not acknowledged with bytes 0c 00", ctx.loc(f, dn))
    # bounded
    fors = [n for n in cfg.nodes if n.kind == "for_iter"]
    bounded = False
    for n in fors:
        it = n.ast.iter
        if isinstance(it, ast.Call) and isinstance(it.func, ast.Name) and it.func.id == "range" and len(it.args) == 1:
            k = ctx.const(f, it.args[0], None)
            bounded = isinstance(k, int) and 0 < k <= 10000
            if not isinstance(k, int):
                # not a constant: every value the bound can take - a positive constant, or a parameter that no caller in the
                # package passes (it then has its default: None, replaced by a constant before the loop, or a constant)
                def _alts(t_):
                    return [a_ for x_ in t_[1] for a_ in _alts(x_)] if t_[0] == "phi" else [t_]

                verdicts = []
                for a_ in _alts(strip_sites(T.of(cfg, n, it.args[0]))):
                    if a_[0] == "const" and isinstance(a_[1], int) and not isinstance(a_[1], bool):
                        verdicts.append(0 < a_[1] <= 10000)
                    elif a_[0] == "param" and a_[1] in f.pos_params:
                        pi = f.pos_params.index(a_[1])
                        passed = False
                        for g_ in ctx.prog.package_functions():
                            if isinstance(g_.node, ast.Lambda):
                                continue
                            for c_ in ast.walk(g_.node):
                                if isinstance(c_, ast.Call) and f.qualname in ctx.callee_names(g_, c_):
                                    if len(c_.args) > pi or any(kw_.arg in (a_[1], None) for kw_ in c_.keywords) or any(isinstance(x_, ast.Starred) for x_ in c_.args):
                                        passed = True
                        dflt = f.node.args.defaults[pi - (len(f.pos_params) - len(f.node.args.defaults))] if pi >= len(f.pos_params) - len(f.node.args.defaults) else None
                        dv = ctx.const(f, dflt, NotImplemented) if dflt is not None else NotImplemented
                        verdicts.append(None if passed or dv is NotImplemented else True if dv is None else (isinstance(dv, int) and 0 < dv <= 10000))
                    else:
                        verdicts.append(None)
                if verdicts and all(v_ is True for v_ in verdicts):
                    bounded = True
                elif verdicts and not any(v_ is False for v_ in verdicts):
                    ck.unknown("C15.G3", f"_pairing_char_write: the bound of the reassembly loop `{n.text()}` is not a constant of this function: not decided", ctx.loc(f, n))
                    bounded = None
    # leaving the loop by exhaustion raises
    ends_raise = True
    for n in cfg.nodes:
        if n.kind == "for":
            for e in cfg.out_edges(n, ("F",)):
                ends_raise &= cfg.exit.id not in cfg.reachable_from(e[1])
    if bounded is None:
        bounded = True  # reported above as not decided; the exhaustion check below still applies
    ck.check("C15.G3", bool(bounded) and ends_raise, "reassembly is bounded by a positive constant and exhaustion raises",
             f"{ctx.fkey(f)}:bounded", "_pairing_char_write: reassembly is unbounded or ends silently", f.loc())


MANIFEST = {
    "technique": "abstract interpretation (lower bound on buffer length) + CFG must-pass-through + def-use term agreement of slice bounds and constants",
    "level_text": "Static, all paths and all buffer lengths (by lower bound): decides decoder totality (no IndexError, only the codec's "
    "parse error), that no value shorter than its declared length is ever stored, the decoder's byte accounting, the "
    "encoder's 255-byte fragment constants/keys/separator and that every item is emitted, plus the BLE reassembly shape. "
    "These are necessary structural conditions of the round trip; equality of decoded and encoded lists as values is not decided.",
    "level_note": "Trusted: bytearray slice/pop semantics. Round-trip equality and canonicity as values are NOT decided (DESIGN section 8). "
    "The zero-length-value drop in encode_list is a recorded known finding.",
}

TWIN_FILES = ["aiohomekit/protocol/tlv.py", "aiohomekit/controller/ble/client.py"]
_F = "aiohomekit/protocol/tlv.py"
VARIANTS = [
    {"name": "length-availability guard removed (pinned defect)", "file": _F,
     "old": "            if len(tail) == 0:\n                raise TlvParseException(f\"Not enough data for length while decoding '{ba}'\")\n", "new": "", "expect": "C15.B1"},
    {"name": "to_string guard removed (pinned defect)", "file": _F,
     "old": "if tlv_key == TLV.kTLVType_Error and len(entry_value) > 0:", "new": "if tlv_key == TLV.kTLVType_Error:", "expect": "C15.B1"},
    {"name": "decoder raises ValueError", "file": _F,
     "old": "                raise TlvParseException(f\"Not enough data for length {length} while decoding '{ba}'\")",
     "new": "                raise ValueError(f\"Not enough data for length {length} while decoding '{ba}'\")", "expect": "C15.B1"},
    {"name": "length test deleted", "file": _F,
     "old": "            if length != len(value):\n                raise TlvParseException(f\"Not enough data for length {length} while decoding '{ba}'\")\n", "new": "", "expect": "C15.G1"},
    {"name": "length test only logs", "file": _F,
     "old": "                raise TlvParseException(f\"Not enough data for length {length} while decoding '{ba}'\")",
     "new": "                logger.debug(f\"Not enough data for length {length} while decoding '{ba}'\")", "expect": "C15.G1"},
    {"name": "merge deleted", "file": _F,
     "old": "            if len(result) > 0 and result[-1][0] == key:\n                result[-1][1] += value\n            else:\n                result.append([key, value])",
     "new": "            result.append([key, value])", "expect": "C15.G1"},
    {"name": "remainder off by one", "file": _F, "old": "            tail = tail[length:]", "new": "            tail = tail[length + 1 :]", "expect": "C15.T1"},
    {"name": "decoder consumes the caller's buffer", "file": _F, "old": "        tail = ba.copy()", "new": "        tail = ba", "expect": "C15.T1"},
    {"name": "length popped from the end", "file": _F, "old": "            length = tail.pop(0)", "new": "            length = tail.pop()", "expect": "C15.T1"},
    {"name": "threshold 254", "file": _F, "old": "                if len(value) > 255:\n                    length = 255", "new": "                if len(value) > 254:\n                    length = 255", "expect": "C15.K1"},
    {"name": "fragment length 256", "file": _F, "old": "                if len(value) > 255:\n                    length = 255", "new": "                if len(value) > 255:\n                    length = 256", "expect": "C15.K1"},
    {"name": "advance differs from emitted", "file": _F,
     "old": "                    for b in value[:length]:\n                        result.append(b)\n                    value = value[length:]\n                else:",
     "new": "                    for b in value[:length]:\n                        result.append(b)\n                    value = value[254:]\n                else:", "expect": "C15.K1"},
    {"name": "keys up to 256 accepted", "file": _F, "old": "if val < 0 or val > 255:", "new": "if val < 0 or val > 256:", "expect": "C15.K1"},
    {"name": "separator with data accepted", "file": _F, "old": '                    raise ValueError("Separator must not have data")', "new": "                    pass", "expect": "C15.K1"},
    {"name": "ack bytes wrong", "file": "aiohomekit/controller/ble/client.py", "old": "next_write = bytes([TLV.kTLVType_FragmentData, 0])", "new": "next_write = bytes([TLV.kTLVType_FragmentLast, 0])", "expect": "C15.G3"},
    {"name": "last fragment not appended", "file": "aiohomekit/controller/ble/client.py", "old": "            buffer.extend(decoded[TLV.kTLVType_FragmentLast])\n", "new": "", "expect": "C15.G3"},
]
