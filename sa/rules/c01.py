"""C01  Pair-verify yields session keys only for the authentic paired accessory."""

from __future__ import annotations

import ast

from ..engine.context import Context
from ..engine.loader import walk_expr, walk_own
from ..engine.report import norm_stmt
from ..engine.terms import contains, show, strip_sites, subterms
from ..spec import hap
from . import _pairing as pp
from ._pairing import attr, call, const, glob, hkdf, reply, sub

PROPERTY = "C01"
EXPLANATION = (
    "Static analysis of pair-verify (HAP 5.7) and session resume: (G1) every path to the return that carries the key "
    "derivation closure passes, as edges, the first yield, the M2 step check, the presence of PublicKey and EncryptedData, "
    "the successful AEAD decrypt (its failure handler can only raise), the presence of Identifier and Signature in the "
    "decrypted sub-TLV, the equal outcome of the comparison with the stored accessory id, the successful Ed25519 verify, the "
    "second yield and the M4 step check; (G2) the resume shortcut returns only what resume_m3 returns, whose non-None return "
    "passes method == Resume, session id and auth tag present, successful decrypt under the response key and empty "
    "plaintext; (T1) what the signature covers, as provenance terms: verify key = the STORED AccessoryLTPK, message = "
    "accessory session key | identifier from the decrypted sub-TLV | this invocation's fresh X25519 public key, in this "
    "order, signature from the sub-TLV, sub-TLV decrypted under HKDF(X25519(fresh private, reply key), Pair-Verify-Encrypt "
    "labels) with nonce PV-Msg02; (T2) the controller proof: signs fresh key | stored controller id | accessory key with the "
    "stored LTSK, sub-TLV [Identifier, Signature] under the same key with PV-Msg03, request [State M3, EncryptedData]; (K1) "
    "every HKDF label/nonce constant equals the specification table, hkdf_derive binds its parameters to HKDF-SHA-512, the "
    "returned closure and the session id derive from the same shared secret, resume keys from pub_key|session_id; (T3) "
    "label -> cipher slot binding through the constructors on IP, BLE and CoAP (write = controller->accessory = encrypt, "
    "read = accessory->controller = decrypt, event = CoAP events); (X1) in the three drivers keys are installed only through "
    "the StopIteration handler and no handler lets a failed exchange continue. Quantifier: all paths / all exits."
)
TRUSTED = ["cryptography (Ed25519, X25519, HKDF) and the ChaCha20-Poly1305 library", "TLV decoding (C15)"]

Q = f"{pp.P}.get_session_keys"


def run(ctx: Context) -> None:
    ck = ctx.ck
    if ck.rule("C01.G1", "gates of the full handshake"):
        _g1(ctx)
    if ck.rule("C01.G2", "gates of the resume shortcut"):
        _g2(ctx)
    if ck.rule("C01.T1", "what the accessory's signature covers"):
        _t1(ctx)
    if ck.rule("C01.T2", "the controller's proof"):
        _t2(ctx)
    if ck.rule("C01.K1", "key schedule constants"):
        _k1(ctx)
    if ck.rule("C01.T3", "label -> cipher slot"):
        _t3(ctx)
    if ck.rule("C01.X1", "a failed attempt yields no keys"):
        _x1(ctx)


# ---------------------------------------------------------------------- common term vocabulary of get_session_keys
def _vocab(ctx: Context):
    f = ctx.func(Q)
    cfg = ctx.cfg(Q)
    T = pp.terms(ctx)
    pd = ("param", f.pos_params[0])
    r0 = reply(0)
    ios_priv = call(glob(f"{pp.X_PRIV}.generate"))
    ios_pub = pp.raw_public_bytes(ios_priv)
    acc_pub = sub(r0, const(hap.TLV_PUBLIC_KEY))
    shared = call(attr(ios_priv, "exchange"), call(glob(f"{pp.X_PUB}.from_public_bytes"), acc_pub))
    skey = hkdf(shared, *hap.HKDF_LABELS["verify-encrypt"])
    dec = call(attr(call(glob(f"{pp.DEC}.__init__"), skey), "decrypt"), const(b""), const(hap.NONCES["PV-Msg02"]), sub(r0, const(hap.TLV_ENCRYPTED_DATA)))
    return f, cfg, T, pd, r0, ios_priv, ios_pub, acc_pub, shared, skey, dec


def _norm_ctor(t):
    """ChaCha20Poly1305Decryptor(x) appears as a call of the class's __init__ or of the class: normalise to __init__"""
    if not isinstance(t, tuple):
        return t
    if t and t[0] == "const":
        return t
    if t and t[0] == "call" and t[1][0] == "glob" and t[1][1] in (pp.ENC, pp.DEC):
        t = ("call", ("glob", t[1][1] + ".__init__")) + t[2:]
    return tuple(_norm_ctor(x) if isinstance(x, tuple) else x for x in t)


def _sub_tlv_ok(t, dec) -> bool:
    """dict(TLV.decode_bytes/bytearray(<dec>))"""
    t = _norm_ctor(t)
    return (t[0] == "call" and t[1] == ("glob", "dict") and len(t[2]) == 1 and t[2][0][0] == "call" and t[2][0][1][0] == "glob"
            and t[2][0][1][1].rsplit(".", 1)[-1] in ("decode_bytes", "decode_bytearray") and t[2][0][2][:1] == (dec,))


def _full_return(cfg, T):
    for n in cfg.nodes:
        if n.kind == "return" and n.exprs:
            t = T.of(cfg, n, n.exprs[0])
            if t[0] == "tuple" and len(t[1]) == 2 and t[1][1][0] == "closure":
                return n
    return None


def _g1(ctx: Context) -> None:
    ck = ctx.ck
    f, cfg, T, pd, r0, ios_priv, ios_pub, acc_pub, shared, skey, dec = _vocab(ctx)
    pp.step_check_effective(ctx, "C01.G1")
    ret = _full_return(cfg, T)
    if ret is None:
        ck.unknown("C01.G1", "get_session_keys: the return carrying the derivation closure was not found", f.loc())
        return
    ys = pp.yield_nodes(ctx, cfg, T)
    if len(ys) != 2:
        ck.unknown("C01.G1", f"get_session_keys: expected 2 yields, found {len(ys)}", f.loc())
        return
    is_r0 = lambda t: t == r0  # noqa: E731
    is_d1 = lambda t: _sub_tlv_ok(t, dec)  # noqa: E731
    decs = [(n, c) for n, c, recv, args in pp.method_calls(ctx, cfg, T, "decrypt") if len(args) == 3 and args[1] == const(hap.NONCES["PV-Msg02"])]
    vers = [(n, c) for n, c, recv, args in pp.method_calls(ctx, cfg, T, "verify")]
    # id comparison
    id_edges = []
    stored = sub(pd, const("AccessoryPairingID"))
    for n in cfg.nodes:
        if n.kind == "test":
            t = strip_sites(T.of(cfg, n, n.exprs[0]))
            if t[0] == "cmp" and len(t[1]) == 1 and t[1][0] in ("NotEq", "Eq"):
                l, r = t[2]
                other = r if l == stored else l if r == stored else None
                if other is not None and other[0] == "call" and other[1][0] == "attr" and other[1][2] == "decode" and other[1][1][0] == "sub" and other[1][1][2] == const(hap.TLV_IDENTIFIER) and is_d1(other[1][1][1]):
                    id_edges += cfg.out_edges(n, ("F",) if t[1][0] == "NotEq" else ("T",))
    gates = [
        ("first yield (M1 sent, M2 received)", ctx.normal_out(cfg, ys[0][1])),
        ("handle_state_step(M2)", pp.step_edges(ctx, cfg, T, 0, hap.M[2])),
        ("M2 carries PublicKey", pp.presence_edges(ctx, cfg, T, hap.TLV_PUBLIC_KEY, is_r0)),
        ("M2 carries EncryptedData", pp.presence_edges(ctx, cfg, T, hap.TLV_ENCRYPTED_DATA, is_r0)),
        ("AEAD decrypt of the M2 sub-TLV succeeded (PV-Msg02)", [e for n, c in decs for e in ctx.normal_out(cfg, n)]),
        ("sub-TLV carries Identifier", pp.presence_edges(ctx, cfg, T, hap.TLV_IDENTIFIER, is_d1)),
        ("sub-TLV carries Signature", pp.presence_edges(ctx, cfg, T, hap.TLV_SIGNATURE, is_d1)),
        ("identifier equals the stored AccessoryPairingID", id_edges),
        ("Ed25519 verify returned", [e for n, c in vers for e in ctx.normal_out(cfg, n)]),
        ("second yield (M3 sent, M4 received)", ctx.normal_out(cfg, ys[1][1])),
        ("handle_state_step(M4)", pp.step_edges(ctx, cfg, T, 1, hap.M[4])),
    ]
    for name, edges in gates:
        ctx.must_pass("C01.G1", cfg, ret, name, edges, desc=f"get_session_keys: keys are returned only after: {name}")
    # order of the cryptographic gates: decrypt before verify before the second yield
    if decs and vers:
        p = cfg.find_path(cfg.entry.id, vers[0][0].id, avoid_edges=[e for n, c in decs for e in ctx.normal_out(cfg, n)])
        ck.check("C01.G1", p is None, "the signature is verified only on authenticated (decrypted) data", f"{ctx.fkey(f)}:verify-before-decrypt",
                 "get_session_keys verifies a signature that was not obtained from the authenticated sub-TLV", ctx.loc(f, vers[0][0]))
        p = cfg.find_path(cfg.entry.id, ys[1][1].id, avoid_edges=[e for n, c in vers for e in ctx.normal_out(cfg, n)])
        ck.check("C01.G1", p is None, "the controller's proof (M3) is sent only after the accessory was verified", f"{ctx.fkey(f)}:m3-before-verify",
                 "get_session_keys sends M3 on a path where the accessory's signature was not verified", ctx.loc(f, ys[1][1]))
    # the exception classes of the two failures are the documented ones
    for (nodes, want, what) in ((decs, "aiohomekit.exceptions.InvalidAuthTagError", "auth tag"), (vers, "aiohomekit.exceptions.InvalidSignatureError", "signature")):
        for n, c in nodes:
            for d, l, x in n.succ:
                if l == "x":
                    reach = cfg.reachable_from(d)
                    classes = {e for (s, lab, e) in cfg.xexit.pred if s in reach and lab == "x"}
                    ck.check("C01.G1", cfg.exit.id not in reach and classes == {want}, f"a bad {what} ends in {want.rsplit('.', 1)[-1]}", f"{ctx.fkey(f)}:{what}-failure-class",
                             f"get_session_keys: a bad {what} leads to {sorted(classes)} / continues: {cfg.exit.id in reach}", ctx.loc(f, n))


def _g2(ctx: Context) -> None:
    ck = ctx.ck
    f, cfg, T, pd, r0, ios_priv, ios_pub, acc_pub, shared, skey, dec = _vocab(ctx)
    full = _full_return(cfg, T)
    rets = [n for n in cfg.nodes if n.kind == "return" and n.exprs and n is not full]
    if len(rets) != 1:
        ck.unknown("C01.G2", f"get_session_keys: expected one resume return, found {len(rets)}", f.loc())
        return
    rn = rets[0]
    dparam = ("param", f.pos_params[2]) if len(f.pos_params) > 2 else None
    t = strip_sites(T.of(cfg, rn, rn.exprs[0]))
    want = call(glob(f"{pp.P}.resume_m3"), ios_pub, dparam, r0)
    ck.check("C01.G2", t == want, "the shortcut returns resume_m3(fresh public key, previous derive, M2 reply)", f"{ctx.fkey(f)}:resume-return",
             f"get_session_keys: the early return yields {show(t, 200)} instead of the result of resume_m3 on this exchange", ctx.loc(f, rn))
    # gates in get_session_keys: derive given, resume_m3 result truthy, after yield + M2 step check
    ys = pp.yield_nodes(ctx, cfg, T)
    truth = []
    for n in cfg.nodes:
        if n.kind == "test":
            tt = strip_sites(T.of(cfg, n, n.exprs[0]))
            if tt == want:
                truth += cfg.out_edges(n, ("T",))
    for name, edges in (("first yield", ctx.normal_out(cfg, ys[0][1]) if ys else []), ("handle_state_step(M2)", pp.step_edges(ctx, cfg, T, 0, hap.M[2])),
                        ("resume_m3 returned a result", truth)):
        ctx.must_pass("C01.G2", cfg, rn, name, edges, desc=f"get_session_keys: the resume shortcut is taken only after: {name}")
    # inside resume_m3
    g = ctx.func(f"{pp.P}.resume_m3")
    gcfg = ctx.cfg(g.qualname)
    pub, der, resp = [("param", p) for p in g.pos_params[:3]]
    ok_ret = [n for n in gcfg.nodes if n.kind == "return" and n.exprs and T.of(gcfg, n, n.exprs[0]) != ("const", None)]
    if len(ok_ret) != 1:
        ck.unknown("C01.G2", f"resume_m3: expected one non-None return, found {len(ok_ret)}", g.loc())
        return
    okr = ok_ret[0]
    is_resp = lambda t: t == resp  # noqa: E731
    sid = call(attr(resp, "get"), const(hap.TLV_SESSION_ID))
    rkey = call(der, ("add", (pub, sid)), const(hap.RESUME_RESPONSE_INFO))
    decs = [(n, c) for n, c, recv, args in pp.method_calls(ctx, gcfg, T, "decrypt") if len(args) == 3]
    meth_edges = []
    empty_edges = []
    dec_equal_edges = []
    for n in gcfg.nodes:
        if n.kind == "test":
            tt = strip_sites(T.of(gcfg, n, n.exprs[0]))
            if tt[0] == "cmp" and len(tt[1]) == 1 and tt[1][0] in ("NotEq", "Eq"):
                l, r = tt[2]
                if r == const(hap.METHOD_RESUME) and l[0] == "call" and l[1] == attr(glob("int"), "from_bytes") and l[2][0] == call(attr(resp, "get"), const(hap.TLV_METHOD)):
                    meth_edges += gcfg.out_edges(n, ("F",) if tt[1][0] == "NotEq" else ("T",))
                is_dec = lambda x: x[0] == "call" and x[1][0] == "attr" and x[1][2] == "decrypt"  # noqa: E731
                if r == const(b"") and is_dec(l):
                    empty_edges += gcfg.out_edges(n, ("F",) if tt[1][0] == "NotEq" else ("T",))
                elif r == const(b"") and l[0] == "phi" and any(is_dec(a) for a in l[1]) and all(is_dec(a) or (a[0] == "const" and a[1] != b"") for a in l[1]):
                    # `except DecryptionError: plaintext = None` then `plaintext != b""`: the value that equals b"" can only be
                    # the decrypt result (None != b""), so the equal outcome certifies BOTH a successful decrypt and an empty text
                    es = gcfg.out_edges(n, ("F",) if tt[1][0] == "NotEq" else ("T",))
                    empty_edges += es
                    dec_equal_edges += es
    gates = [
        ("Method present", pp.presence_edges(ctx, gcfg, T, hap.TLV_METHOD, is_resp)),
        ("Method == Resume", meth_edges),
        ("SessionID present", pp.presence_edges(ctx, gcfg, T, hap.TLV_SESSION_ID, is_resp)),
        ("auth tag (EncryptedData) present", pp.presence_edges(ctx, gcfg, T, hap.TLV_ENCRYPTED_DATA, is_resp)),
        ("AEAD decrypt of the auth tag succeeded (PR-Msg02)", dec_equal_edges if dec_equal_edges else [e for n, c in decs for e in ctx.normal_out(gcfg, n)]),
        ("plaintext is empty", empty_edges),
    ]
    for name, edges in gates:
        ctx.must_pass("C01.G2", gcfg, okr, name, edges, desc=f"resume_m3: a resumed session is accepted only after: {name}")
    # the decrypt is under the response key with the right nonce and the reply's tag
    okd = False
    for n, c, recv, args in pp.method_calls(ctx, gcfg, T, "decrypt"):
        recv = _norm_ctor(recv)
        _gi = pp.get_as_item  # reply.get(K) and reply[K] are the same item behind the presence gates checked above
        okd = _gi(recv) == _gi(call(glob(f"{pp.DEC}.__init__"), rkey)) and [_gi(a_) for a_ in args] == [const(b""), const(hap.NONCES["PR-Msg02"]), _gi(call(attr(resp, "get"), const(hap.TLV_ENCRYPTED_DATA)))]
    ck.check("C01.G2", okd, "resume: the tag is checked under derive(pub_key | session_id, Pair-Resume-Response-Info) with nonce PR-Msg02", f"{ctx.fkey(g)}:resume-decrypt",
             "resume_m3: the auth tag is not checked under the response key / nonce of the specification", g.loc())
    # what it returns: (session id of the reply, closure over derive(pub|sid, Shared-Secret-Info))
    rt = T.of(gcfg, okr, okr.exprs[0])
    oks = rt[0] == "tuple" and pp.get_as_item(strip_sites(rt[1][0])) == pp.get_as_item(sid) and rt[1][1][0] == "closure"
    if oks:
        cl = ctx.func(rt[1][1][1])
        ccfg = ctx.cfg(cl.qualname)
        crs = [n for n in ccfg.nodes if n.kind == "return" and n.exprs]
        ss = call(der, ("add", (pub, sid)), const(hap.RESUME_SHARED_SECRET_INFO))
        oks = len(crs) == 1 and pp.get_as_item(strip_sites(T.of(ccfg, crs[0], crs[0].exprs[0]))) == pp.get_as_item(call(glob(pp.HKDF), ss, ("param", cl.pos_params[0]), ("param", cl.pos_params[1]), ("param", cl.pos_params[2])))
    ck.check("C01.G2", oks, "resume: new keys derive from derive(pub_key | session_id, Pair-Resume-Shared-Secret-Info)", f"{ctx.fkey(g)}:resume-secret",
             "resume_m3 does not return (session id, HKDF closure over the resumed shared secret)", g.loc())


def _t1(ctx: Context) -> None:
    ck = ctx.ck
    f, cfg, T, pd, r0, ios_priv, ios_pub, acc_pub, shared, skey, dec = _vocab(ctx)
    vs = pp.method_calls(ctx, cfg, T, "verify")
    if len(vs) != 1:
        ck.unknown("C01.T1", f"get_session_keys: expected one verify call, found {len(vs)}", f.loc())
        return
    n, c, recv, args = vs[0]
    want_key = call(glob(f"{pp.ED_PUB}.from_public_bytes"), call(attr(glob("bytes"), "fromhex"), sub(pd, const("AccessoryLTPK"))))
    ck.check("C01.T1", recv == want_key, "verify key = Ed25519PublicKey.from_public_bytes(fromhex(stored AccessoryLTPK))", f"{ctx.fkey(f)}:verify-key",
             f"get_session_keys verifies with the key {show(recv, 160)}: it must be the long-term key STORED at pairing time, never one taken from the reply", ctx.loc(f, n))
    if len(args) != 2:
        ck.unknown("C01.T1", "verify is not called with (signature, message)", ctx.loc(f, n))
        return
    sig, msg = _norm_ctor(args[0]), _norm_ctor(args[1])
    ok_sig = sig[0] == "sub" and sig[2] == const(hap.TLV_SIGNATURE) and _sub_tlv_ok(sig[1], dec)
    ck.check("C01.T1", ok_sig, "signature = Signature item of the decrypted sub-TLV", f"{ctx.fkey(f)}:verify-signature",
             f"get_session_keys: the signature verified is {show(sig, 160)}", ctx.loc(f, n))
    ok_msg = False
    if msg[0] == "add" and len(msg[1]) == 3:
        a, b, cc = msg[1]
        ok_b = b[0] == "sub" and b[2] == const(hap.TLV_IDENTIFIER) and _sub_tlv_ok(b[1], dec)
        ok_msg = a == acc_pub and ok_b and cc == ios_pub
    ck.check("C01.T1", ok_msg, "signed message = accessory session key | sub-TLV identifier | this session's controller key (in this order)", f"{ctx.fkey(f)}:verify-message",
             f"get_session_keys: the accessory signature is checked over {show(msg, 300)}; it must cover reply[PublicKey] | sub[Identifier] | own fresh public key in this order",
             ctx.loc(f, n))
    # freshness: the X25519 key is generated inside this invocation
    raw = T.of(cfg, n, c.args[1])
    ck.check("C01.T1", pp.fresh_in_function(raw, f.name), "the controller's exchange key is generated inside this invocation (fresh per session)", f"{ctx.fkey(f)}:fresh-exchange-key",
             "get_session_keys: the controller's X25519 key is not generated per invocation (a cached/static key lets recorded exchanges be replayed)", ctx.loc(f, n))
    # the decrypt that produced the sub-TLV: key/nonce/ciphertext
    ds = [x for x in pp.method_calls(ctx, cfg, T, "decrypt")]
    okd = any(_norm_ctor(call(attr(recv2, "decrypt"), *a2)) == dec for (_n, _c, recv2, a2) in ds)
    ck.check("C01.T1", okd, "sub-TLV = decrypt under HKDF(X25519(fresh private, reply key), Pair-Verify-Encrypt-Salt/Info), nonce PV-Msg02, reply[EncryptedData]",
             f"{ctx.fkey(f)}:m2-decrypt", "get_session_keys: the M2 sub-TLV is not decrypted under the exchange-derived key / PV-Msg02 / the reply's EncryptedData", f.loc())


def _t2(ctx: Context) -> None:
    ck = ctx.ck
    f, cfg, T, pd, r0, ios_priv, ios_pub, acc_pub, shared, skey, dec = _vocab(ctx)
    ss = pp.method_calls(ctx, cfg, T, "sign")
    if len(ss) != 1:
        ck.unknown("C01.T2", f"get_session_keys: expected one sign call, found {len(ss)}", f.loc())
        return
    n, c, recv, args = ss[0]
    want_key = call(glob(f"{pp.ED_PRIV}.from_private_bytes"), call(attr(glob("bytes"), "fromhex"), sub(pd, const("iOSDeviceLTSK"))))
    ck.check("C01.T2", recv == want_key, "signing key = stored iOSDeviceLTSK", f"{ctx.fkey(f)}:sign-key", f"get_session_keys signs with {show(recv, 140)}", ctx.loc(f, n))
    cid = call(attr(sub(pd, const("iOSPairingId")), "encode"))
    want_msg = ("add", (ios_pub, cid, acc_pub))
    ck.check("C01.T2", len(args) == 1 and args[0] == want_msg, "signed iOSDeviceInfo = own fresh key | stored controller id | accessory session key", f"{ctx.fkey(f)}:sign-message",
             f"get_session_keys signs {show(args[0] if args else ('unknown', ''), 300)}; a conformant accessory verifies own-key | controller-id | accessory-key", ctx.loc(f, n))
    sig = call(attr(recv, "sign"), *args)
    es = [x for x in pp.method_calls(ctx, cfg, T, "encrypt")]
    oke = False
    enc_t = None
    for _n, _c, r2, a2 in es:
        r2 = _norm_ctor(r2)
        if len(a2) == 3 and a2[1] == const(hap.NONCES["PV-Msg03"]):
            pt = a2[2]
            want_pt = call(glob("aiohomekit.protocol.tlv.TLV.encode_list"), ("list", (("tuple", (const(hap.TLV_IDENTIFIER), cid)), ("tuple", (const(hap.TLV_SIGNATURE), sig)))))
            oke = r2 == call(glob(f"{pp.ENC}.__init__"), skey) and a2[0] == const(b"") and pt == want_pt
            enc_t = call(attr(r2, "encrypt"), *a2)
    ck.check("C01.T2", oke, "sub-TLV [Identifier, Signature] encrypted under the same session key with nonce PV-Msg03", f"{ctx.fkey(f)}:m3-encrypt",
             "get_session_keys: the M3 sub-TLV is not [(Identifier, controller id), (Signature, sig)] under the verify key with PV-Msg03", f.loc())
    ys = pp.yield_nodes(ctx, cfg, T)
    okr = False
    if len(ys) == 2 and enc_t is not None:
        yt = _norm_ctor(strip_sites(T.of(cfg, ys[1][1], ys[1][2].value)))
        req = yt[1][0] if yt[0] == "tuple" else None
        okr = req == ("list", (("tuple", (const(hap.TLV_STATE), const(hap.M[3]))), ("tuple", (const(hap.TLV_ENCRYPTED_DATA), _norm_ctor(enc_t)))))
    ck.check("C01.T2", okr, "M3 request = [(State, M3), (EncryptedData, <that ciphertext>)]", f"{ctx.fkey(f)}:m3-request", "get_session_keys: the M3 request is not [State=M3, EncryptedData]", f.loc())
    # M1 request
    if ys:
        y0 = strip_sites(T.of(cfg, ys[0][1], ys[0][2].value))
        req = y0[1][0] if y0[0] == "tuple" else ("unknown", "")
        alts = list(req[1]) if req[0] == "phi" else [req]
        plain = ("list", (("tuple", (const(hap.TLV_STATE), const(hap.M[1]))), ("tuple", (const(hap.TLV_PUBLIC_KEY), ios_pub))))
        okp = plain in alts
        ck.check("C01.T2", okp, "M1 request = [(State, M1), (PublicKey, fresh key)] (or the resume form)", f"{ctx.fkey(f)}:m1-request",
                 f"get_session_keys: M1 is {show(req, 200)}", ctx.loc(f, ys[0][1]))
        others = [a for a in alts if a != plain]
        okres = all(a[0] == "call" and a[1] == glob(f"{pp.P}.resume_m1") and a[2][1:2] == (ios_pub,) or (a[0] == "list" and ("tuple", (const(hap.TLV_PUBLIC_KEY), ios_pub)) in a[1]) for a in others)
        ck.check("C01.T2", okres, "the resume form of M1 carries the same fresh public key", f"{ctx.fkey(f)}:m1-resume-request",
                 f"get_session_keys: the resume M1 is {[show(a, 120) for a in others]}", ctx.loc(f, ys[0][1]))


def _k1(ctx: Context) -> None:
    ck = ctx.ck
    f, cfg, T, pd, r0, ios_priv, ios_pub, acc_pub, shared, skey, dec = _vocab(ctx)
    # hkdf_derive binding
    h = ctx.func(pp.HKDF)
    hcfg = ctx.cfg(pp.HKDF)
    T0 = ctx.terms
    rets = [n for n in hcfg.nodes if n.kind == "return" and n.exprs]
    ok = False
    if len(rets) == 1 and len(h.pos_params) >= 4:
        inp, salt, info, length = [("param", p) for p in h.pos_params[:4]]
        t = strip_sites(T0.of(hcfg, rets[0], rets[0].exprs[0]))
        if t[0] == "call" and t[1][0] == "attr" and t[1][2] == "derive" and t[2] == (inp,):
            ctor = t[1][1]
            if ctor[0] == "call" and ctor[1] == glob("cryptography.hazmat.primitives.kdf.hkdf.HKDF"):
                kw = dict(ctor[3])
                ok = (kw.get("salt") == salt and kw.get("info") == info and kw.get("length") == length
                      and kw.get("algorithm") == call(glob("cryptography.hazmat.primitives.hashes.SHA512")) and not ctor[2])
        dflt = ctx.const(h, h.node.args.defaults[-1], None) if h.node.args.defaults else None
        ok = ok and dflt == 32
    ck.check("C01.K1", ok, "hkdf_derive(input, salt, info, length=32) = HKDF(SHA-512, length, salt, info).derive(input)", f"{ctx.fkey(h)}:binding",
             "hkdf_derive no longer binds its parameters to HKDF-SHA-512(length, salt, info).derive(input)", h.loc())
    # every hkdf_derive call in the protocol module uses a specification row
    rows = set(hap.HKDF_LABELS.values())
    n_calls = 0
    for q in (Q,):  # pair-setup's derivations belong to C03 (its own transcript rules), not to this property
        g = ctx.func(q)
        gcfg = ctx.cfg(q)
        for n in gcfg.nodes:
            for c in ctx.calls(n):
                if ctx.resolve_name(g, c.func) == pp.HKDF and len(c.args) >= 3:
                    n_calls += 1
                    s, i = T.of(gcfg, n, c.args[1]), T.of(gcfg, n, c.args[2])
                    ck.check("C01.K1", s[0] == "const" and i[0] == "const" and (s[1], i[1]) in rows, f"{g.name}: HKDF labels {s[1] if s[0] == 'const' else '?'!r}/{i[1] if i[0] == 'const' else '?'!r} are a specification row",
                             f"{ctx.fkey(g)}:hkdf-labels:{show(s, 40)}", f"{g.name}: hkdf_derive is called with salt {show(s, 60)} / info {show(i, 60)}, which is not a (salt, info) pair of the HAP specification",
                             ctx.loc(g, n))
    ck.require_min("C01.K1", "hkdf_derive calls with literal labels in get_session_keys", n_calls, 1)
    # the session key of pair-verify
    full = _full_return(cfg, T)
    if full is None:
        ck.unknown("C01.K1", "full return not found", f.loc())
        return
    rt = T.of(cfg, full, full.exprs[0])
    cl = ctx.func(rt[1][1][1])
    ccfg = ctx.cfg(cl.qualname)
    crs = [n for n in ccfg.nodes if n.kind == "return" and n.exprs]
    okc = len(crs) == 1 and strip_sites(T.of(ccfg, crs[0], crs[0].exprs[0])) == call(
        glob(pp.HKDF), shared, ("param", cl.pos_params[0]), ("param", cl.pos_params[1]), ("param", cl.pos_params[2]))
    ck.check("C01.K1", okc, "returned derive(salt, info, length) = hkdf_derive(X25519 shared secret of THIS exchange, salt, info, length)", f"{ctx.fkey(cl)}:closure",
             "get_session_keys: the returned derivation closure is not HKDF over this exchange's X25519 shared secret", cl.loc())
    sid = strip_sites(rt[1][0])
    want_sid = call(("closure", cl.qualname), const(hap.HKDF_LABELS["resume-session-id"][0]), const(hap.HKDF_LABELS["resume-session-id"][1]), const(8))
    inl = call(glob(pp.HKDF), shared, const(hap.HKDF_LABELS["resume-session-id"][0]), const(hap.HKDF_LABELS["resume-session-id"][1]), const(8))
    ck.check("C01.K1", sid in (want_sid, inl), "session id = derive(Pair-Verify-ResumeSessionID-Salt/Info, 8 bytes) of the same secret", f"{ctx.fkey(f)}:session-id",
             f"get_session_keys: the resume session id is {show(sid, 200)}", ctx.loc(f, full))
    # shared secret and session key terms appear where expected (decrypt key) - checked in T1; nonce table
    for name, where in (("PV-Msg02", Q), ("PV-Msg03", Q), ("PR-Msg01", f"{pp.P}.resume_m1"), ("PR-Msg02", f"{pp.P}.resume_m3")):
        g = ctx.func(where)
        gcfg = ctx.cfg(where)
        found = False
        for meth in ("encrypt", "decrypt"):
            for _n, _c, _r, a in pp.method_calls(ctx, gcfg, T, meth):
                if len(a) == 3 and a[1] == const(hap.NONCES[name]):
                    found = True
        ck.check("C01.K1", found, f"nonce {name} = 0000|'{name}' is used in {g.name}", f"{ctx.fkey(g)}:nonce:{name}", f"{g.name}: no AEAD call uses the nonce 00 00 00 00 '{name}'", g.loc())
    # resume_m1 request key
    g = ctx.func(f"{pp.P}.resume_m1")
    gcfg = ctx.cfg(g.qualname)
    sidp, pubp, derp = [("param", p) for p in g.pos_params[:3]]
    okm = False
    for _n, _c, r, a in pp.method_calls(ctx, gcfg, T, "encrypt"):
        r = _norm_ctor(r)
        okm = r == call(glob(f"{pp.ENC}.__init__"), call(derp, ("add", (pubp, sidp)), const(hap.RESUME_REQUEST_INFO))) and a == [const(b""), const(hap.NONCES["PR-Msg01"]), const(b"")]
    ck.check("C01.K1", okm, "resume request tag = encrypt(empty) under derive(pub_key | session_id, Pair-Resume-Request-Info), nonce PR-Msg01", f"{ctx.fkey(g)}:request-key",
             "resume_m1: the request auth tag is not computed under the specified key/nonce", g.loc())
    rets = [n for n in gcfg.nodes if n.kind == "return" and n.exprs]
    okq = False
    if len(rets) == 1:
        t = strip_sites(T.of(gcfg, rets[0], rets[0].exprs[0]))
        if t[0] == "list" and len(t[1]) == 5:
            heads = [x[1][0] for x in t[1] if x[0] == "tuple"]
            okq = heads == [const(hap.TLV_STATE), const(hap.TLV_METHOD), const(hap.TLV_PUBLIC_KEY), const(hap.TLV_SESSION_ID), const(hap.TLV_ENCRYPTED_DATA)] and t[1][0][1][1] == const(hap.M[1]) and t[1][2][1][1] == pubp and t[1][3][1][1] == sidp
            m = t[1][1][1][1]
            okq = okq and (m == const(bytes([hap.METHOD_RESUME])) or (m[0] == "call" and m[1] == attr(const(hap.METHOD_RESUME), "to_bytes")))
    ck.check("C01.K1", okq, "resume M1 = [State M1, Method Resume, PublicKey, SessionID, EncryptedData(tag)]", f"{ctx.fkey(g)}:request-shape", "resume_m1: the request items changed", g.loc())


def _t3(ctx: Context) -> None:
    ck = ctx.ck
    T = ctx.terms
    W = hap.HKDF_LABELS["control-write"]
    R = hap.HKDF_LABELS["control-read"]
    E = hap.HKDF_LABELS["event-read"]

    def labels_of(t):
        t = strip_sites(t)
        if t[0] == "call" and "ChaCha20Poly1305" in str(t[1]) and t[2]:
            t = t[2][0]
        if t[0] == "call" and len(t[2]) >= 2 and t[2][0][0] == "const" and t[2][1][0] == "const":
            return (t[2][0][1], t[2][1][1])
        return None

    def ctor_args(q, clsname):
        g = ctx.func(q)
        gcfg = ctx.cfg(q)
        out = []
        for n in gcfg.nodes:
            for c in ctx.calls(n):
                if ctx.resolve_name(g, c.func) == clsname:
                    out.append((g, gcfg, n, c))
        return out

    n_inst = 0
    # IP
    SP = "aiohomekit.controller.ip.connection.SecureHomeKitProtocol"
    for g, gcfg, n, c in ctor_args("aiohomekit.controller.ip.connection.SecureHomeKitConnection._connect_once", SP):
        init = ctx.func(f"{SP}.__init__")
        params = init.pos_params[1:]
        bound = {params[i]: labels_of(T.of(gcfg, n, a)) for i, a in enumerate(c.args) if i < len(params)}
        bound.update({k.arg: labels_of(T.of(gcfg, n, k.value)) for k in c.keywords if k.arg})
        for pname, want, slot in (("c2a_key", W, "encryptor"), ("a2c_key", R, "decryptor")):
            n_inst += 1
            ck.check("C01.T3", bound.get(pname) == want, f"IP: {want[1].decode()} -> {pname} -> {slot}", f"{ctx.fkey(g)}:slot:{pname}",
                     f"IP: SecureHomeKitProtocol.{pname} receives the key derived with {bound.get(pname)}; it must be {want} ({slot})", ctx.loc(g, n))
        # __init__ stores the parameters under their own names
        stored = {ast.unparse(x.targets[0]): ast.unparse(x.value) for x in walk_own(init.node) if isinstance(x, ast.Assign) and isinstance(x.value, ast.Name)}
        ck.check("C01.T3", stored.get("self.a2c_key") == "a2c_key" and stored.get("self.c2a_key") == "c2a_key", "IP: the protocol stores each key under its own name",
                 f"{ctx.fkey(init)}:stores", f"SecureHomeKitProtocol.__init__ stores {stored}", init.loc())
    # BLE
    for cls, want in (("aiohomekit.controller.ble.key.EncryptionKey", W), ("aiohomekit.controller.ble.key.DecryptionKey", R)):
        for g, gcfg, n, c in ctor_args("aiohomekit.controller.ble.pairing.BlePairing._async_pair_verify", cls):
            n_inst += 1
            got = labels_of(T.of(gcfg, n, c.args[0])) if c.args else None
            ck.check("C01.T3", got == want, f"BLE: {want[1].decode()} -> {cls.rsplit('.', 1)[-1]}", f"{ctx.fkey(g)}:slot:{cls.rsplit('.', 1)[-1]}",
                     f"BLE: {cls.rsplit('.', 1)[-1]} receives the key derived with {got}; it must be {want}", ctx.loc(g, n))
    # BLE key classes: EncryptionKey encrypts, DecryptionKey decrypts
    for cls, ctor, meth in (("EncryptionKey", "Encryptor", "encrypt"), ("DecryptionKey", "Decryptor", "decrypt")):
        init = ctx.func(f"aiohomekit.controller.ble.key.{cls}.__init__")
        okc = any(isinstance(x, ast.Assign) and isinstance(x.value, ast.Call) and (ctx.resolve_name(init, x.value.func) or "").endswith(ctor) and ast.unparse(x.value.args[0]) == init.pos_params[1] for x in walk_own(init.node))
        ck.check("C01.T3", okc and meth in ctx.prog.cls(f"aiohomekit.controller.ble.key.{cls}").methods, f"BLE: {cls} wraps a {ctor} built from its key", f"aiohomekit.controller.ble.key.{cls}:wraps",
                 f"BLE: {cls} no longer wraps a ChaCha20Poly1305{ctor} of its key", init.loc())
    # CoAP
    EC = "aiohomekit.controller.coap.connection.EncryptionContext"
    for g, gcfg, n, c in ctor_args("aiohomekit.controller.coap.connection.CoAPHomeKitConnection.do_pair_verify", EC):
        init = ctx.func(f"{EC}.__init__")
        params = init.pos_params[1:]
        bound = {params[i]: labels_of(T.of(gcfg, n, a)) for i, a in enumerate(c.args) if i < len(params)}
        for pname, want, use in (("recv_ctx", R, "decrypt"), ("send_ctx", W, "encrypt"), ("event_ctx", E, "decrypt_event")):
            n_inst += 1
            ck.check("C01.T3", bound.get(pname) == want, f"CoAP: {want[1].decode()} -> {pname} -> {use}", f"{ctx.fkey(g)}:slot:{pname}",
                     f"CoAP: EncryptionContext.{pname} receives the key derived with {bound.get(pname)}; it must be {want}", ctx.loc(g, n))
            m = ctx.func(f"{EC}.{use}")
            mcfg = ctx.cfg(m.qualname)
            uses = set()
            for mn in mcfg.nodes:
                for x in ctx.calls(mn):
                    if isinstance(x.func, ast.Attribute) and x.func.attr in ("encrypt", "decrypt"):
                        rp = ctx.expr_path(mcfg, mn, x.func.value)  # receiver with local aliases resolved
                        if rp and rp.startswith(m.pos_params[0] + ".") and rp.count(".") == 1:
                            uses.add(rp.split(".", 1)[1])
            kind = "encrypt" if use == "encrypt" else "decrypt"
            okk = uses == {pname} and any(isinstance(x, ast.Call) and isinstance(x.func, ast.Attribute) and x.func.attr == kind for x in walk_own(m.node))
            ck.check("C01.T3", okk, f"CoAP: {use}() uses {pname}", f"{ctx.fkey(m)}:uses", f"CoAP: EncryptionContext.{use} uses {sorted(uses)}", m.loc())
        stored = {ast.unparse(x.targets[0]): ast.unparse(x.value) for x in walk_own(init.node) if isinstance(x, ast.Assign) and isinstance(x.value, ast.Name)}
        ck.check("C01.T3", all(stored.get(f"self.{p}") == p for p in ("recv_ctx", "send_ctx", "event_ctx")), "CoAP: the context stores each cipher under its own name",
                 f"{ctx.fkey(init)}:stores", f"EncryptionContext.__init__ stores {stored}", init.loc())
    ck.require_min("C01.T3", "label -> slot instances", n_inst, 7)


DRIVERS = [
    ("aiohomekit.controller.ip.connection.SecureHomeKitConnection._connect_once", "aiohomekit.controller.ip.connection.SecureHomeKitProtocol"),
    ("aiohomekit.controller.ble.client.drive_pairing_state_machine", None),
    ("aiohomekit.controller.coap.connection.CoAPHomeKitConnection.do_pair_verify", "aiohomekit.controller.coap.connection.EncryptionContext"),
]


def driver_check(ctx: Context, rule: str, q: str, install_cls: str | None) -> int:
    """keys/pairing data are taken only from the StopIteration value; no handler lets a failed exchange continue"""
    ck = ctx.ck
    f = ctx.func(q)
    cfg = ctx.cfg(q)
    short = q.split(".", 1)[1]
    sends = [(n, c) for n, c in ctx.nodes_calling_name(cfg, "send") if not isinstance(c.func.value, ast.Attribute) or True]
    sends = [(n, c) for n, c in sends if isinstance(c.func, ast.Attribute) and c.func.attr == "send" and any(l == "x" and x == "StopIteration" for (_d, l, x) in n.succ)]
    if not sends:
        ck.unknown(rule, f"{short}: no state_machine.send(...) call found", f.loc())
        return 0
    stop_handlers = [n for n in cfg.nodes if n.kind == "handler" and n.handler_classes == ["StopIteration"]]
    if not stop_handlers:
        ck.violated(rule, f"{ctx.fkey(f)}:no-stopiteration-handler", f"{short}: the result of the exchange is not taken from the generator's StopIteration", f.loc())
        return 0
    # install points: constructor of the session object, or a return of the StopIteration value
    installs = []
    if install_cls:
        for n in cfg.nodes:
            for c in ctx.calls(n):
                if ctx.resolve_name(f, c.func) == install_cls:
                    installs.append(n)
    for n in cfg.nodes:
        if n.kind == "return" and n.exprs and any(fr[0] == "try" and isinstance(fr[2], tuple) and fr[2][1] in [h.ast for h in stop_handlers] for fr in n.frames):
            installs.append(n)
    # variables bound in the handler from result.value (e.g. pairing = result.value; break) and returned later
    if not installs:
        for n in cfg.nodes:
            if n.kind == "return" and n.exprs:
                t = ctx.terms.of(cfg, n, n.exprs[0])
                if contains(t, lambda s: s[0] == "caught" and "StopIteration" in s[1]):
                    installs.append(n)
    if not installs:
        # the driver hands the result on in some other way: every value-carrying return is an install point
        installs = [n for n in cfg.nodes if n.kind == "return" and n.exprs]
    if not installs:
        ck.unknown(rule, f"{short}: no install point (session object construction / return of the result) found", f.loc())
        return 0
    hedges = [e for h in stop_handlers for e in ctx.normal_out(cfg, h)]
    for i in installs:
        ctx.must_pass(rule, cfg, i, "the StopIteration handler (the exchange completed)", hedges, desc=f"{short}: `{i.text()[:50]}` is reached only after the state machine finished")
    # failures never continue: for every non-StopIteration exception edge of a send / of the transport call, neither an install nor
    # the next send is reachable
    bad = None
    for n, c in sends:
        for d, l, x in n.succ:
            if l != "x" or x == "StopIteration":
                continue
            reach = cfg.reachable_from(d)
            if cfg.exit.id in reach or any(i.id in reach for i in installs) or any(s.id in reach for s, _ in sends):
                bad = (x, cfg.find_path(d, {cfg.exit.id} | {i.id for i in installs} | {s.id for s, _ in sends}))
    ck.check(rule, bad is None, f"{short}: every failure of the state machine leaves the driver (no handler swallows it)", f"{ctx.fkey(f)}:failure-swallowed",
             f"{short}: after the state machine raised {bad[0].rsplit('.', 1)[-1] if bad else ''} the driver continues (keys/pairing can still be installed or the exchange goes on)",
             ctx.loc(f, sends[0][0]), cfg.render_path(bad[1]) if bad and bad[1] else None)
    return 1


def _x1(ctx: Context) -> None:
    ck = ctx.ck
    n = 0
    for q, cls in DRIVERS:
        n += driver_check(ctx, "C01.X1", q, cls)
    ck.require_min("C01.X1", "pair-verify drivers", n, 3)
    # BLE: the keys are installed from the driver's return value in the same invocation
    q = "aiohomekit.controller.ble.pairing.BlePairing._async_pair_verify"
    f = ctx.func(q)
    cfg = ctx.cfg(q)
    T = ctx.terms
    oks = 0
    for n_ in cfg.nodes:
        for c in ctx.calls(n_):
            r = ctx.resolve_name(f, c.func) or ""
            if r.endswith("ble.key.EncryptionKey") or r.endswith("ble.key.DecryptionKey"):
                t = T.of(cfg, n_, c.args[0])
                if contains(t, lambda s: s[0] == "await" and contains(s, lambda z: z[0] == "glob" and z[1].endswith("drive_pairing_state_machine"))):
                    oks += 1
    ck.check("C01.X1", oks == 2, "BLE: both keys derive from the value awaited from drive_pairing_state_machine in this invocation", f"{ctx.fkey(f)}:keys-from-driver",
             "BLE: the session keys do not derive from this invocation's pair-verify result", f.loc())


MANIFEST = {
    "technique": "CFG must-pass-through with gates as edges (11 + 6 + drivers), provenance terms with value numbering matched against "
    "specification patterns (what is signed/verified/encrypted, with which key, in which order), constant tables from the HAP specification",
    "level_text": "Static, all paths: decides that session keys are returned only through every authentication gate (including exception "
    "edges of decrypt/verify), that the verified signature covers exactly reply key | authenticated identifier | this "
    "invocation's fresh key under the STORED long-term key, the controller proof's shape, all key-schedule labels/nonces and "
    "the label-to-cipher-slot binding on IP/BLE/CoAP, and that drivers install keys only from a completed exchange. Bit-level "
    "behaviour of the primitives under corruption is delegated to them.",
    "level_note": "Trusted: cryptography, chacha20poly1305-reuseable, TLV decoding (C15). 'Both ends hold identical keys' is decided only "
    "as label/slot agreement with the specification.",
}

TWIN_FILES = [
    "aiohomekit/protocol/__init__.py",
    "aiohomekit/crypto/hkdf.py",
    "aiohomekit/controller/ip/connection.py",
    "aiohomekit/controller/ble/pairing.py",
    "aiohomekit/controller/ble/client.py",
    "aiohomekit/controller/ble/key.py",
    "aiohomekit/controller/coap/connection.py",
]
_PF = "aiohomekit/protocol/__init__.py"
VARIANTS = [
    {"name": "signature check deleted", "file": _PF,
     "old": "    try:\n        accessory_ltpk.verify(bytes(accessory_sig), bytes(accessory_info))\n    except cryptography_exceptions.InvalidSignature:\n        raise InvalidSignatureError(\"step 3\")\n", "new": "", "expect": "C01.G1"},
    {"name": "signature failure only logged", "file": _PF,
     "old": "    except cryptography_exceptions.InvalidSignature:\n        raise InvalidSignatureError(\"step 3\")", "new": "    except cryptography_exceptions.InvalidSignature:\n        logger.debug(\"bad signature\")", "expect": "C01.G1"},
    {"name": "identifier comparison removed", "file": _PF, "old": "    if pairing_data[\"AccessoryPairingID\"] != accessory_name:\n        raise IncorrectPairingIdError(\"step 3\")\n", "new": "", "expect": "C01.G1"},
    {"name": "identifier comparison inverted", "file": _PF, "old": "    if pairing_data[\"AccessoryPairingID\"] != accessory_name:", "new": "    if pairing_data[\"AccessoryPairingID\"] == accessory_name:", "expect": "C01.G1"},
    {"name": "M4 step check removed", "file": _PF, "old": "    response_tlv = dict(response_tlv)\n    handle_state_step(response_tlv, TLV.M4)\n\n    # return function", "new": "    response_tlv = dict(response_tlv)\n\n    # return function", "expect": "C01.G1"},
    {"name": "auth-tag failure swallowed", "file": _PF, "old": "    except DecryptionError:\n        raise InvalidAuthTagError(\"step 3\")\n    d1 = dict(TLV.decode_bytes(decrypted))", "new": "    except DecryptionError:\n        decrypted = b\"\"\n    d1 = dict(TLV.decode_bytes(decrypted))", "expect": "C01.G1"},
    {"name": "resume: plaintext check removed", "file": _PF, "old": "    if plaintext != b\"\":\n        logger.debug(\"M3: Failure to resume existing session: Could not decrypt kTLVType_EncryptedData\")\n        return None\n", "new": "", "expect": "C01.G2"},
    {"name": "resume: decrypt failure accepted", "file": _PF, "old": "        logger.debug(\"M3: Failure to resume existing session: Could not decrypt kTLVType_EncryptedData\")\n        return None\n\n    if plaintext", "new": "        plaintext = b\"\"\n\n    if plaintext", "expect": "C01.G2"},
    {"name": "resume: method test dropped", "file": _PF, "old": "    if int.from_bytes(method, \"little\") != TLV.kTLVMethod_Resume:", "new": "    if False:", "expect": "C01.G2"},
    {"name": "verify with the key from the reply", "file": _PF, "old": "Ed25519PublicKey.from_public_bytes(bytes.fromhex(pairing_data[\"AccessoryLTPK\"]))", "new": "Ed25519PublicKey.from_public_bytes(bytes(response_tlv[TLV.kTLVType_PublicKey]))", "expect": "C01.T1"},
    {"name": "signed transcript permuted", "file": _PF, "old": "    accessory_info = accessory_session_pub_key_bytes + accessory_name.encode() + ios_key_pub", "new": "    accessory_info = ios_key_pub + accessory_name.encode() + accessory_session_pub_key_bytes", "expect": "C01.T1"},
    {"name": "identifier taken from the stored record instead of the reply", "file": _PF, "old": "    accessory_info = accessory_session_pub_key_bytes + accessory_name.encode() + ios_key_pub", "new": "    accessory_info = accessory_session_pub_key_bytes + pairing_data[\"AccessoryPairingID\"].encode() + ios_key_pub", "expect": "C01.T1"},
    {"name": "static exchange key", "file": _PF, "old": "    ios_key = x25519.X25519PrivateKey.generate()\n    ios_key_pub", "new": "    ios_key = _STATIC_KEY\n    ios_key_pub", "expect": ["C01.T1", "C01.G1"]},
    {"name": "controller proof without the accessory key", "file": _PF, "old": "    ios_device_info = ios_key_pub + pairing_data[\"iOSPairingId\"].encode() + accessorys_session_pub_key_bytes", "new": "    ios_device_info = ios_key_pub + pairing_data[\"iOSPairingId\"].encode()", "expect": "C01.T2"},
    {"name": "PV-Msg02 used for M3", "file": _PF, "old": "b\"\", NONCE_PADDING + b\"PV-Msg03\", bytes(sub_tlv)", "new": "b\"\", NONCE_PADDING + b\"PV-Msg02\", bytes(sub_tlv)", "expect": ["C01.T2", "C01.K1"]},
    {"name": "label typo", "file": _PF, "old": "hkdf_derive(shared_secret, b\"Pair-Verify-Encrypt-Salt\", b\"Pair-Verify-Encrypt-Info\")", "new": "hkdf_derive(shared_secret, b\"Pair-Verify-Encrypt-Salt\", b\"Pair-Verify-Encrypt-Salt\")", "expect": ["C01.K1", "C01.T1"]},
    {"name": "HKDF with SHA-256", "file": "aiohomekit/crypto/hkdf.py", "old": "algorithm=hashes.SHA512()", "new": "algorithm=hashes.SHA256()", "expect": "C01.K1"},
    {"name": "session keys derived from the encryption key instead of the shared secret", "file": _PF,
     "old": "    def derive(salt: bytes, info: bytes, length: int = 32) -> bytes:\n        return hkdf_derive(shared_secret, salt, info, length=length)\n\n    session_id = derive(",
     "new": "    def derive(salt: bytes, info: bytes, length: int = 32) -> bytes:\n        return hkdf_derive(session_key, salt, info, length=length)\n\n    session_id = derive(", "expect": "C01.K1"},
    {"name": "IP: read/write labels swapped", "file": "aiohomekit/controller/ip/connection.py",
     "old": "                c2a_key = derive(b\"Control-Salt\", b\"Control-Write-Encryption-Key\")\n                a2c_key = derive(b\"Control-Salt\", b\"Control-Read-Encryption-Key\")",
     "new": "                c2a_key = derive(b\"Control-Salt\", b\"Control-Read-Encryption-Key\")\n                a2c_key = derive(b\"Control-Salt\", b\"Control-Write-Encryption-Key\")", "expect": "C01.T3"},
    {"name": "IP: constructor arguments swapped", "file": "aiohomekit/controller/ip/connection.py", "old": "            self,\n            a2c_key,\n            c2a_key,\n        )", "new": "            self,\n            c2a_key,\n            a2c_key,\n        )", "expect": "C01.T3"},
    {"name": "CoAP: event key from the control salt", "file": "aiohomekit/controller/coap/connection.py", "old": "derive(b\"Event-Salt\", b\"Event-Read-Encryption-Key\")", "new": "derive(b\"Control-Salt\", b\"Event-Read-Encryption-Key\")", "expect": "C01.T3"},
    {"name": "BLE driver swallows protocol errors", "file": "aiohomekit/controller/ble/client.py",
     "old": "        except StopIteration as result:\n            return result.value", "new": "        except StopIteration as result:\n            return result.value\n        except Exception:\n            return None, None", "expect": "C01.X1"},
    {"name": "CoAP driver continues after an error", "file": "aiohomekit/controller/coap/connection.py",
     "old": "                # clean up coap context\n                await coap_client.shutdown()\n                coap_client = None\n                # re-raise any exception\n                raise",
     "new": "                # clean up coap context\n                derive = self._last_derive\n                break", "expect": "C01.X1"},
]
