"""Shared by C05 / C06: the send counter advanced once per request by an arithmetic expression of the payload length.

`self.c2a_counter += len(payload) // 1024 + 1` reserves the nonces of a request up front.  The number of frames a request of
n bytes is cut into is ceil(n / 1024) (the framing loop: one frame per started 1024 bytes); the advance must be that number
for every n.  The advance is a closed arithmetic term over n - it is FOLDED here for a handful of lengths around the block
boundaries (no code of the package is run) and compared with the number of frames: a length where they differ is a witness
(the next request reuses a nonce, or skips one and the accessory cannot open it)."""

from __future__ import annotations

import ast
import math

from ..engine.terms import strip_sites

BLOCK = 1024
SAMPLES = (1, 1023, 1024, 1025, 2047, 2048, 2049, 3072, 5000)


class _NoValue(Exception):
    pass


def _eval(t, n: int, ctr_attr):
    k = t[0]
    if k == "const":
        if isinstance(t[1], (int, float)) and not isinstance(t[1], bool):
            return t[1]
        raise _NoValue
    if t == ctr_attr:
        return 0  # the counter at entry: everything is measured from it
    if k == "call" and t[1] == ("glob", "len") and len(t[2]) == 1 and t[2][0][0] == "param":
        return n
    if k == "add":
        return sum(_eval(x, n, ctr_attr) for x in t[1])
    if k == "binop":
        a, b = _eval(t[2], n, ctr_attr), _eval(t[3], n, ctr_attr)
        try:
            return {"Sub": lambda: a - b, "Mult": lambda: a * b, "FloorDiv": lambda: a // b, "Div": lambda: a / b, "Mod": lambda: a % b, "Add": lambda: a + b}[t[1]]()
        except (KeyError, ZeroDivisionError):
            raise _NoValue
    if k == "unop" and t[1] == "USub":
        return -_eval(t[2], n, ctr_attr)
    if k == "bool" and t[1] in ("Or", "And"):
        v = None
        for x in t[2]:
            v = _eval(x, n, ctr_attr)
            if (t[1] == "Or" and v) or (t[1] == "And" and not v):
                return v
        return v
    if k == "call" and t[1] in (("glob", "max"), ("glob", "min")) and t[2] and not t[3]:
        vals = [_eval(x, n, ctr_attr) for x in t[2]]
        return max(vals) if t[1][1] == "max" else min(vals)
    if k == "call" and t[1] in (("glob", "math.ceil"), ("glob", "math.floor"), ("glob", "int")) and len(t[2]) == 1:
        v = _eval(t[2][0], n, ctr_attr)
        return {"math.ceil": math.ceil, "math.floor": math.floor, "int": int}[t[1][1]](v)
    if k == "sub" and len(t) == 3 and t[2][0] == "const" and t[2][1] in (0, 1) and t[1][0] == "call" and t[1][1] == ("glob", "divmod") and len(t[1][2]) == 2:
        a, b = _eval(t[1][2][0], n, ctr_attr), _eval(t[1][2][1], n, ctr_attr)
        if not b:
            raise _NoValue
        return divmod(a, b)[t[2][1]]
    if k == "ifexp":
        raise _NoValue
    raise _NoValue


def advance_mismatch(ctx, f, cfg, T, ctr: str):
    """-> (node, n, advance, frames) for the first once-per-call write of self.<ctr> whose value is arithmetic over the payload
    length and differs from the number of frames for some sampled length; None when there is no such write or it agrees."""
    ctr_attr = ("attr", ("param", "self"), ctr)

    def writes_ctr(a_):
        return (isinstance(a_, ast.AugAssign) and isinstance(a_.target, ast.Attribute) and a_.target.attr == ctr) or (
            isinstance(a_, ast.Assign) and any(isinstance(y_, ast.Attribute) and y_.attr == ctr for tg_ in a_.targets for y_ in ast.walk(tg_)))

    all_writes = [m for m in cfg.nodes if m.kind == "stmt" and m.ast is not None and writes_ctr(m.ast)]
    # the attribute is written exactly once per call, outside every loop: that one write is the whole advance of the request
    if len(all_writes) != 1 or any(fr[0] == "loop" for fr in all_writes[0].frames):
        return None
    for n in all_writes:
        a = n.ast
        if isinstance(a, ast.AugAssign) and isinstance(a.op, ast.Add) and isinstance(a.target, ast.Attribute) and a.target.attr == ctr:
            t = ("add", (ctr_attr, strip_sites(T.of(cfg, n, a.value))))
        elif type(a) is ast.Assign and len(a.targets) == 1 and isinstance(a.targets[0], ast.Attribute) and a.targets[0].attr == ctr:
            t = strip_sites(T.of(cfg, n, a.value))
        else:
            continue
        # only an expression that looks at the length of the payload (a count computed apart from the loop)
        has_len = [False]

        def look(s_):
            if isinstance(s_, tuple):
                if s_[:2] == ("call", ("glob", "len")):
                    has_len[0] = True
                for y_ in s_:
                    look(y_)

        look(t)
        if not has_len[0] and not (isinstance(a, ast.AugAssign) and isinstance(a.value, ast.Constant)):
            continue  # (a constant advance per request is judged as well: `+= 1` behind the loop)
        try:
            for size in SAMPLES:
                adv = _eval(t, size, ctr_attr)
                frames = -(-size // BLOCK)
                if adv != frames:
                    return n, size, adv, frames
        except _NoValue:
            continue
    return None
