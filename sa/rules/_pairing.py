"""Shared helpers for the pairing-protocol rules (C01, C03): term builders, gate finders."""

from __future__ import annotations

import ast

from ..engine.context import Context, is_membership
from ..engine.loader import walk_expr
from ..engine.terms import Terms, contains, show, strip_sites, subterms

P = "aiohomekit.protocol"
HKDF = "aiohomekit.crypto.hkdf.hkdf_derive"
CH = "aiohomekit.crypto.chacha20poly1305"
ENC = f"{CH}.ChaCha20Poly1305Encryptor"
DEC = f"{CH}.ChaCha20Poly1305Decryptor"
NO_INLINE = {HKDF, f"{ENC}.encrypt", f"{DEC}.decrypt",
             "aiohomekit.crypto.srp.SrpClient.get_public_key_bytes", "aiohomekit.crypto.srp.SrpClient.get_proof_bytes",
             "aiohomekit.crypto.srp.SrpClient.get_session_key_bytes", "aiohomekit.crypto.srp.SrpClient.verify_servers_proof_bytes",
             "aiohomekit.crypto.srp.SrpClient.set_salt", "aiohomekit.crypto.srp.SrpClient.set_server_public_key"}
ED_PUB = "cryptography.hazmat.primitives.asymmetric.ed25519.Ed25519PublicKey"
ED_PRIV = "cryptography.hazmat.primitives.asymmetric.ed25519.Ed25519PrivateKey"
X_PRIV = "cryptography.hazmat.primitives.asymmetric.x25519.X25519PrivateKey"
X_PUB = "cryptography.hazmat.primitives.asymmetric.x25519.X25519PublicKey"


def terms(ctx: Context) -> Terms:
    return Terms(ctx.prog, ctx.res, ctx.flow, inline_depth=ctx.inline_depth, no_inline=NO_INLINE)


def call(fn, *args, kw=()):
    return ("call", fn, tuple(args), tuple(kw))


def glob(n):
    return ("glob", n)


def const(v):
    return ("const", v)


def attr(b, n):
    return ("attr", b, n)


def sub(b, i):
    return ("sub", b, i)


def hkdf(inp, salt: bytes, info: bytes, length=None):
    # (the loader puts keyword arguments of package functions where the parameter stands: `length=8` is the fourth argument)
    if length is None:
        return call(glob(HKDF), inp, const(salt), const(info))
    return call(glob(HKDF), inp, const(salt), const(info), length)


def reply(k: int):
    """dict(<value received from yield #k>)"""
    return call(glob("dict"), ("yield", k))


def yield_nodes(ctx: Context, cfg, T: Terms):
    out = []
    for n in cfg.nodes:
        for e in n.exprs:
            if e is None:
                continue
            for s in walk_expr(e):
                if isinstance(s, ast.Yield):
                    out.append((T.yield_ordinal(cfg.func, s), n, s))
    out.sort(key=lambda x: x[0])
    return out


def presence_edges(ctx: Context, cfg, T: Terms, key: int, container_ok):
    """edges certifying `key present in container` (membership or walrus/get truthiness)"""
    edges = []
    for n in cfg.nodes:
        if n.kind != "test":
            continue
        e = n.exprs[0]
        m = is_membership(e)
        if m is not None:
            # the key as a constant expression, or a local bound to it (parameter of an inlined helper)
            if (ctx.const(cfg.func, m[0], None) == key or strip_sites(T.of(cfg, n, m[0])) == ("const", key)) and container_ok(strip_sites(T.of(cfg, n, m[1]))):
                edges += cfg.out_edges(n, ("T",) if m[2] else ("F",))
            continue
        t = strip_sites(T.of(cfg, n, e))

        def is_get(x) -> bool:  # container.get(key) / container.get(key, None)
            return (x[0] == "call" and x[1][0] == "attr" and x[1][2] == "get" and x[2] and x[2][0] == ("const", key) and container_ok(x[1][1])
                    and (len(x[2]) == 1 or x[2][1] == ("const", None)) and not x[3])

        if is_get(t):
            edges += cfg.out_edges(n, ("T",))
        # `container.get(key) is None` / `is not None`
        if t[0] == "cmp" and len(t[1]) == 1 and t[1][0] in ("Is", "IsNot") and len(t[2]) == 2 and t[2][1] == ("const", None) and is_get(t[2][0]):
            edges += cfg.out_edges(n, ("T",) if t[1][0] == "IsNot" else ("F",))
    return edges


def get_as_item(t):
    """`d.get(K)` / `d.get(K, None)` read as the item `d[K]`: the same value wherever the key is present, and the rules that
    compare item terms always pair them with a presence gate of their own."""
    if not isinstance(t, tuple):
        return t
    if t and t[0] == "const":
        return t
    t = tuple(get_as_item(x) if isinstance(x, tuple) else x for x in t)
    if len(t) >= 4 and t[0] == "call" and isinstance(t[1], tuple) and len(t[1]) == 3 and t[1][0] == "attr" and t[1][2] == "get" and not t[3] \
            and (len(t[2]) == 1 or (len(t[2]) == 2 and t[2][1] == ("const", None))) and t[2][0][0] == "const":
        return ("sub", t[1][1], t[2][0])
    return t


def step_edges(ctx: Context, cfg, T: Terms, ordinal: int, state: bytes):
    edges = []
    for n, c in ctx.nodes_calling_name(cfg, "handle_state_step"):
        if len(c.args) == 2:
            a0 = strip_sites(T.of(cfg, n, c.args[0]))
            a1 = T.of(cfg, n, c.args[1])
            if a0 in (("yield", ordinal), reply(ordinal)) and a1 == ("const", state):
                edges += ctx.normal_out(cfg, n)
    return edges


def method_calls(ctx: Context, cfg, T: Terms, name: str):
    """[(node, call ast, receiver term, [arg terms])] for calls `<recv>.<name>(...)` (terms without sites)"""
    out = []
    for n in cfg.nodes:
        for c in ctx.calls(n):
            if isinstance(c.func, ast.Attribute) and c.func.attr == name:
                out.append((n, c, strip_sites(T.of(cfg, n, c.func.value)), [strip_sites(T.of(cfg, n, a)) for a in c.args]))
    return out


def fresh_in_function(t, fname: str, producer_suffix: str = "generate") -> bool:
    """the term contains a call to <...>.generate() whose call site lies in function ``fname``"""
    for s in subterms(t):
        if s[0] == "call" and len(s) == 5 and s[1][0] == "glob" and s[1][1].endswith("." + producer_suffix):
            if s[4][0] == fname:
                return True
    return False


def raw_public_bytes(priv):
    return call(attr(call(attr(priv, "public_key")), "public_bytes"), kw=(
        ("encoding", glob("cryptography.hazmat.primitives.serialization.Encoding.Raw")),
        ("format", glob("cryptography.hazmat.primitives.serialization.PublicFormat.Raw"))))


def step_check_effective(ctx: Context, rule: str) -> None:
    """The gate `handle_state_step(reply, Mk) returned normally` is a gate only if that function cannot return normally
    for a reply that carries an error item: in handle_state_step the error-present outcome can only raise, and
    error_handler - which turns the code into the exception - has no normal exit for ANY code (a look-up table without
    a fall-back returns for the codes it does not list; a reply altered in one bit of its error value then passes)."""
    from . import c04

    ck = ctx.ck
    hf = ctx.func(f"{P}.handle_state_step")
    hcfg = ctx.cfg(hf.qualname)
    tests = c04.error_tests(ctx, hcfg)
    absent = []
    for n, present, ab in tests:
        absent += ctx.edges(hcfg, n, ab)
    ctx.must_pass(rule, hcfg, hcfg.exit, "error-TLV test [absent outcome]", absent,
                  desc="handle_state_step (the step check of this exchange): returns normally only for a reply without an error item")
    for n, present, _ab in tests:
        for e in ctx.edges(hcfg, n, present):
            ok, _classes = c04.branch_always_raises(hcfg, e)
            ck.check(rule, ok, "handle_state_step: with an error item present it can only raise", f"{ctx.fkey(hf)}:step-check-passes-error",
                     "handle_state_step can return normally although the reply carries an error item (for some error values): the step check of this "
                     "exchange lets a rejected / altered reply pass", ctx.loc(hf, n), hcfg.render_path(hcfg.find_path(e[1], hcfg.exit.id) or []))
    ef = ctx.func(f"{P}.error_handler")
    ecfg = ctx.cfg(ef.qualname)
    path = ecfg.find_path(ecfg.entry.id, ecfg.exit.id)
    ck.check(rule, path is None, "error_handler has no normal exit (every error value raises)", f"{ctx.fkey(ef)}:returns",
             "error_handler can return normally for some error values: handle_state_step then treats that error reply as a good step",
             ef.loc(), ecfg.render_path(path) if path else None)
