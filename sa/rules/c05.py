"""C05  Encrypted IP session framing is exact outbound and segmentation-proof inbound."""

from __future__ import annotations

import ast
import struct as _struct

from ..engine.context import Context, compare_parts
from ..engine.loader import PartialConst, StructConst, StructMethod, dotted, walk_expr, walk_own
from ..engine.report import norm_stmt
from ..engine.terms import Terms, contains, show, strip_sites, subterms
from ..spec.hap import FRAME_LENGTH_BYTES, FRAME_MAX_PLAINTEXT, FRAME_TAG_BYTES

PROPERTY = "C05"
EXPLANATION = (
    "Static analysis of the IP session framing (HAP 6.5.2): (K1) the constants - 2-byte little-endian unsigned length "
    "struct, 16-byte tag, nonce = 4 zero bytes + LE64 counter; (T1) outbound: the chunk taken payload[:K] and the advance "
    "payload[K:] use the same K = 1024, per chunk the items emitted are, in order, pack(len(chunk)) and encrypt(aad = those "
    "length bytes, nonce = PACK_NONCE(send counter), plaintext = the chunk), the loop runs while the payload is non-empty "
    "and exactly one _send_lines(buffer) follows it; (T2) inbound byte accounting: the read is appended to the persistent "
    "buffer before anything else, the loop guard is len(buf) >= 2, the expected length is E = 2 + unpack(buf[:2]) + 16, the "
    "incomplete-frame test is exactly len(buf) < E -> return with no consumption before it, the ciphertext taken is "
    "buf[2:E] and the deletion buf[:E] with the same term E, AAD = the two length bytes, nonce = PACK_NONCE(receive "
    "counter); (G1) the plaintext is handed to the HTTP layer only after a successful decrypt, the failure handler can only "
    "raise (which ends the session), the counter advances between decrypt and delivery on the success path only; (T3) the "
    "wrapper classes pass (nonce, data, aad) to the library in the library's order. Quantifier: all paths; slice bounds are "
    "compared as terms, not on sample streams. Added from seeded faults: where the send counter is advanced once per request by an arithmetic term over the payload length, that term is folded for lengths around the 1024-byte boundaries and must equal the number of frames (a differing length is reported as a witness); a counter threaded through a local and written back is otherwise 'not decided'."
)
TRUSTED = [
    "asyncio closes the transport when data_received raises",
    "ChaCha20Poly1305Reusable.encrypt/decrypt(nonce, data, aad) implement RFC 8439 AEAD",
]

M = "aiohomekit.controller.ip.connection"
SP = f"{M}.SecureHomeKitProtocol"
CH = "aiohomekit.crypto.chacha20poly1305"
NO_INLINE = {f"{CH}.ChaCha20Poly1305Encryptor.encrypt", f"{CH}.ChaCha20Poly1305Decryptor.decrypt"}


def _u(e) -> str:
    return " ".join(ast.unparse(e).split())


def _terms(ctx: Context) -> Terms:
    return Terms(ctx.prog, ctx.res, ctx.flow, inline_depth=ctx.inline_depth, no_inline=NO_INLINE)


def _is_pack(t, fmt=None, method="pack") -> bool:
    return t[0] == "call" and t[1][0] == "const" and isinstance(t[1][1], StructMethod) and t[1][1].method == method and (
        fmt is None or t[1][1].struct.fmt == fmt)


def run(ctx: Context) -> None:
    ck = ctx.ck
    if ck.rule("C05.K1", "framing constants"):
        _k1(ctx)
    if ck.rule("C05.T1", "outbound chunking and per-chunk items"):
        _t1(ctx)
    if ck.rule("C05.T2", "inbound byte accounting"):
        _t2(ctx)
    if ck.rule("C05.G1", "authenticate before deliver; failure ends the session"):
        _g1(ctx)
    if ck.rule("C05.T3", "wrapper argument order"):
        _t3(ctx)


def _k1(ctx: Context) -> None:
    ck = ctx.ck
    P = ctx.prog
    loc = "aiohomekit/controller/ip/connection.py:1"
    blk = P.const_of(f"{M}.BLOCK_SIZE_LEN")
    ck.check("C05.K1", blk == FRAME_LENGTH_BYTES, "BLOCK_SIZE_LEN = 2", f"{M}:BLOCK_SIZE_LEN", f"BLOCK_SIZE_LEN is {blk}, HAP frames carry a 2-byte length", loc)
    tag = P.const_of(f"{M}.TAG_LENGTH")
    ck.check("C05.K1", tag == FRAME_TAG_BYTES, "TAG_LENGTH = 16", f"{M}:TAG_LENGTH", f"TAG_LENGTH is {tag}, the Poly1305 tag has 16 bytes", loc)
    for name, meth in (("PACK_UNSIGNED_SHORT_LITTLE", "pack"), ("UNPACK_UNSIGNED_SHORT_LITTLE", "unpack")):
        try:
            v = P.const_of(f"{M}.{name}")
        except Exception:  # noqa: BLE001 - the module no longer defines the constant (another spelling of the packer is used)
            ck.unknown("C05.K1", f"{name} is no longer a module constant: the layout of the length prefix is read where it is used (T1 / T2)", loc)
            continue
        ok = isinstance(v, StructMethod) and v.method == meth and v.struct.fmt == "<H"
        ck.check("C05.K1", ok, f"{name} = Struct('<H').{meth}", f"{M}:{name}", f"{name} is {v}: the length prefix must be an unsigned little-endian 16-bit value", loc)
    PROBE = 0x0102030405060708
    pn_q = f"{CH}.PACK_NONCE"
    if pn_q in P.functions:
        # the packer written as a function: its layout by folding the returned value on a probe counter
        g = P.functions[pn_q]
        gcfg = ctx.cfg(pn_q)
        rets = [n for n in gcfg.nodes if n.kind == "return" and n.exprs and n.exprs[0] is not None]
        probe = None
        if len(rets) == 1 and len(g.pos_params) == 1 and not g.is_async and not g.is_generator:
            from ..engine.terms import _subst_params, fold_term

            try:
                probe = fold_term(_subst_params(strip_sites(_terms(ctx).of(gcfg, rets[0], rets[0].exprs[0])), {g.pos_params[0]: ("const", PROBE)}))
            except Exception:  # noqa: BLE001 - not a constant layout: not decided
                probe = None
        if probe is None:
            ck.unknown("C05.K1", "PACK_NONCE is a function whose result is not a constant byte layout of its argument", g.loc())
        else:
            ck.check("C05.K1", bytes(probe) == b"\x00\x00\x00\x00" + PROBE.to_bytes(8, "little"), "PACK_NONCE(c) = 4 zero bytes + 64-bit little-endian counter (12 bytes)",
                     f"{CH}:PACK_NONCE", f"PACK_NONCE({PROBE:#x}) is {bytes(probe).hex()}: the nonce layout must be 4 zero bytes followed by the little-endian 64-bit counter", g.loc())
        npad = P.const_of(f"{CH}.NONCE_PADDING")
        ck.check("C05.K1", npad == b"\x00\x00\x00\x00", "NONCE_PADDING = 4 zero bytes", f"{CH}:NONCE_PADDING", f"NONCE_PADDING is {npad!r}", "aiohomekit/crypto/chacha20poly1305.py:1")
        return
    pn = P.const_of(pn_q)
    # any spelling of the packer is fine (partial(Struct("<LQ").pack, 0), Struct("<4xQ").pack ...): what counts is the layout
    # of the 12 bytes, obtained by folding the constant packer on a probe counter
    fmt, pre = None, ()
    if isinstance(pn, PartialConst) and isinstance(pn.func, StructMethod) and pn.func.method == "pack" and all(isinstance(a, int) for a in pn.args):
        fmt, pre = pn.func.struct.fmt, tuple(pn.args)
    elif isinstance(pn, StructMethod) and pn.method == "pack":
        fmt = pn.struct.fmt
    ok = fmt is not None
    nonce_ok = False
    if ok:
        try:
            probe = _struct.pack(fmt, *pre, 0x0102030405060708)
            nonce_ok = probe == b"\x00\x00\x00\x00" + (0x0102030405060708).to_bytes(8, "little")
        except _struct.error:
            nonce_ok = False
    ck.check("C05.K1", ok and nonce_ok, "PACK_NONCE(c) = 4 zero bytes + 64-bit little-endian counter (12 bytes)", f"{CH}:PACK_NONCE",
             f"PACK_NONCE is {pn}: the nonce layout must be 4 zero bytes followed by the little-endian 64-bit counter", "aiohomekit/crypto/chacha20poly1305.py:1")
    npad = P.const_of(f"{CH}.NONCE_PADDING")
    ck.check("C05.K1", npad == b"\x00\x00\x00\x00", "NONCE_PADDING = 4 zero bytes", f"{CH}:NONCE_PADDING", f"NONCE_PADDING is {npad!r}", "aiohomekit/crypto/chacha20poly1305.py:1")


def _t1(ctx: Context) -> None:
    ck = ctx.ck
    f = ctx.func(f"{SP}.send_bytes")
    cfg = ctx.cfg(f.qualname)
    T = _terms(ctx)
    payload = f.pos_params[1]
    # the framing loop: the innermost loop around the (possibly aliased) encrypt call
    enc_nodes = []
    for n in cfg.nodes:
        for c in ctx.calls(n):
            ft = T.of(cfg, n, c.func) if isinstance(c.func, (ast.Name, ast.Attribute)) else ("unknown", "")
            if ft[0] == "attr" and ft[2] == "encrypt":
                enc_nodes.append(n)
    if not enc_nodes:
        # the encryption may sit in a function send_bytes calls that the loader could not inline (a generator drained with
        # list(), a helper with a loop that is used in several places): then the framing is not in this function and not decided
        helpers = []
        for n in cfg.nodes:
            for c in ctx.calls(n):
                for q_ in ctx.callee_names(f, c):
                    g_ = ctx.prog.functions.get(q_)
                    if g_ is not None and not isinstance(g_.node, ast.Lambda) and any(isinstance(x_, ast.Call) and isinstance(x_.func, ast.Attribute) and x_.func.attr == "encrypt"
                                                                                      for x_ in ast.walk(g_.node)):
                        helpers.append(q_)
        if helpers:
            ck.unknown("C05.T1", f"send_bytes: the frames are encrypted in {sorted(set(helpers))[0].rsplit('.', 1)[-1]}, which is not read as part of send_bytes (generator / shared helper): framing not decided", f.loc())
        else:
            ck.violated("C05.T1", f"{ctx.fkey(f)}:no-encrypt", "send_bytes no longer encrypts the payload", f.loc())
        return
    # several encrypt sites (e.g. a single-frame fast path next to the framing loop): the framing loop is where one sits in a loop
    enc_nodes.sort(key=lambda n: not any(fr[0] == "loop" and fr[2] == "body" for fr in n.frames))
    loop_frames = [fr for fr in enc_nodes[0].frames if fr[0] == "loop" and fr[2] == "body"]
    if not loop_frames:
        ck.violated("C05.T1", f"{ctx.fkey(f)}:no-framing-loop", "send_bytes encrypts outside any loop: payloads above 1024 bytes are not split into frames", ctx.loc(f, enc_nodes[0]))
        return
    loop = loop_frames[-1][1]
    in_loop = lambda n: any(fr[0] == "loop" and fr[1] is loop and fr[2] == "body" for fr in n.frames)  # noqa: E731
    # the send counter is the attribute itself and advances by one per frame inside the loop - decided from the cipher call
    # alone, whatever form the framing loop has (the accessory's counter advances once per frame it receives)
    head = [n for n in cfg.nodes if n.kind in ("loop_head", "for") and n.ast is loop][0]
    en = enc_nodes[0]
    ecalls = [c for c in ctx.calls(en) if isinstance(c.func, (ast.Name, ast.Attribute)) and (lambda ft: ft[0] == "attr" and ft[2] == "encrypt")(T.of(cfg, en, c.func))]
    et = strip_sites(T.of(cfg, en, ecalls[0])) if ecalls else ("unknown", "")
    local_ctr = False
    if et[0] == "call" and len(et[2]) == 3:
        nonce = et[2][1]
        ctr_t = nonce[2][1] if _is_pack(nonce, "<LQ") and len(nonce[2]) == 2 else None
        direct = ctr_t is not None and ctr_t[0] == "attr" and ctr_t[1] == ("param", "self")
        local_ctr = ctr_t is not None and not direct and contains(ctr_t, lambda s_: isinstance(s_, tuple) and s_[:2] == ("attr", ("param", "self")))
        mm = None
        if local_ctr:
            from ._counter import advance_mismatch

            mm = advance_mismatch(ctx, f, cfg, T, "c2a_counter")
        if mm is not None:
            ck.violated("C05.T1", f"{ctx.fkey(f)}:reserved-nonces-differ-from-frames",
                        f"send_bytes advances the send counter once per request by `{mm[0].text()[:70]}`: for a request of {mm[1]} bytes that is {mm[2]}, but the request is cut "
                        f"into {mm[3]} frame(s) - the counter and the accessory's frame count diverge (the next request reuses a nonce or cannot be opened)", ctx.loc(f, mm[0]), None,
                        "the counter advances by the number of frames sent")
        elif local_ctr:
            # the counter threaded through a local and written back (see C06.G1): consecutive values are a fact about values
            # along the loop that is not computed here
            ck.unknown("C05.T1", f"send_bytes packs the nonce from a local computed from the send counter ({show(ctr_t, 60)}): the counter is threaded through a local - not decided", ctx.loc(f, en))
        else:
            ck.check("C05.T1", direct, "the nonce counter is the protocol's send counter attribute itself", f"{ctx.fkey(f)}:nonce-counter",
                 f"send_bytes builds the nonce from {show(ctr_t, 80) if ctr_t else 'a non-counter value'} instead of the send counter attribute: frame counters of "
                 "consecutive requests can overlap or skip", ctx.loc(f, en))
        if direct:
            incs = [m for m in cfg.nodes if in_loop(m) and m.kind == "stmt" and isinstance(m.ast, ast.AugAssign) and isinstance(m.ast.op, ast.Add)
                    and ctx.const(f, m.ast.value, None) == 1 and strip_sites(T.of(cfg, m, m.ast.target)) == ctr_t]
            okc = len(incs) == 1
            if okc:
                for e in ctx.normal_out(cfg, en):
                    if e[1] != incs[0].id and cfg.find_path(e[1], head.id, avoid_nodes=[incs[0].id]) is not None:
                        okc = False
            others = [m for m in cfg.nodes if m.kind == "stmt" and isinstance(m.ast, (ast.AugAssign, ast.Assign)) and m not in incs
                      and strip_sites(T.of(cfg, m, m.ast.target if isinstance(m.ast, ast.AugAssign) else m.ast.targets[0])) == ctr_t]
            ck.check("C05.T1", okc and not others, "the send counter advances by exactly one per frame, inside the loop", f"{ctx.fkey(f)}:counter-per-frame",
                     "send_bytes does not advance the send counter by exactly one per frame inside the framing loop (the accessory's counter advances once per frame)",
                     ctx.loc(f, en))
    take = adv = None
    if isinstance(loop, ast.While):
        loops = [n for n in cfg.nodes if n.kind == "loop_head" and n.ast is loop]
        # chunk taken / advance
        for n in cfg.nodes:
            a = n.ast
            if n.kind == "stmt" and in_loop(n) and isinstance(a, ast.Assign) and isinstance(a.value, ast.Subscript) and isinstance(a.value.slice, ast.Slice):
                sl = a.value.slice
                base = T.of(cfg, n, a.value.value)
                if not contains(base, lambda s: s == ("param", payload)):
                    continue
                if sl.lower is None and sl.upper is not None:
                    take = (n, T.of(cfg, n, sl.upper), a.targets[0])
                elif sl.upper is None and sl.lower is not None:
                    adv = (n, T.of(cfg, n, sl.lower), a.targets[0])
        if take is None or adv is None:
            ck.unknown("C05.T1", "send_bytes: chunk slice / advance slice of the payload not found", f.loc())
            return
        ck.check("C05.T1", take[1] == adv[1] == ("const", FRAME_MAX_PLAINTEXT), f"chunk = payload[:K], advance = payload[K:], K = {FRAME_MAX_PLAINTEXT}",
                 f"{ctx.fkey(f)}:chunk-constants", f"send_bytes takes payload[:{show(take[1])}] but advances by payload[{show(adv[1])}:] (HAP: frames of at most {FRAME_MAX_PLAINTEXT} plaintext bytes, every byte once)",
                 ctx.loc(f, take[0]))
        ck.check("C05.T1", isinstance(adv[2], ast.Name) and adv[2].id == payload or _u(adv[2]) == payload, "the advance is assigned back to the payload variable",
                 f"{ctx.fkey(f)}:advance-target", "send_bytes: the remainder is not assigned back to the payload", ctx.loc(f, adv[0]))
        # take before advance (both from the same payload value)
        p = cfg.find_path(loops[0].id, adv[0].id, avoid_nodes=[take[0].id])
        ck.check("C05.T1", p is None, "the chunk is taken before the payload is advanced", f"{ctx.fkey(f)}:take-before-advance",
                 "send_bytes advances the payload before taking the chunk (the first bytes are skipped)", ctx.loc(f, adv[0]))
        # loop guard: non-emptiness of the payload
        tests = [n for n in cfg.nodes if n.kind == "test" and n.ast is loop.test or (n.kind == "test" and any(n.exprs[0] is x for x in ast.walk(loop.test)))]
        okg = False
        for n in tests:
            t = strip_sites(T.of(cfg, n, n.exprs[0]))
            if t[0] == "cmp" and t[1] == ("Gt",) and t[2][1] == ("const", 0) and t[2][0][0] == "call" and t[2][0][1] == ("glob", "len"):
                okg = True
            if t[0] != "cmp" and contains(t, lambda s: s == ("param", payload)):
                okg = True  # truthiness
        ck.check("C05.T1", okg and len(tests) == 1, "the loop runs while the payload is non-empty", f"{ctx.fkey(f)}:loop-guard",
                 "send_bytes: the framing loop is not guarded by the payload being non-empty", ctx.loc(f, loops[0]))
    else:
        # for offset in range(0, len(payload), K): chunk = payload[offset : offset + K]
        loops = [n for n in cfg.nodes if n.kind == "for" and n.ast is loop]
        it = strip_sites(T.of(cfg, [n for n in cfg.nodes if n.kind == "for_iter" and n.ast is loop][0], loop.iter))
        okr = (it[0] == "call" and it[1] == ("glob", "range") and len(it[2]) == 3 and it[2][0] == ("const", 0)
               and it[2][1] == ("call", ("glob", "len"), (("param", payload),), ()) and it[2][2] == ("const", FRAME_MAX_PLAINTEXT))
        if not (it[0] == "call" and it[1] == ("glob", "range")):
            ck.unknown("C05.T1", "send_bytes: framing loop is neither `while payload` nor `for offset in range(...)`", ctx.loc(f, loops[0]))
            return
        ck.check("C05.T1", okr, f"frames start at range(0, len(payload), {FRAME_MAX_PLAINTEXT})", f"{ctx.fkey(f)}:chunk-constants",
                 f"send_bytes iterates {show(it, 100)}: frames must start every {FRAME_MAX_PLAINTEXT} bytes from 0 to len(payload)", ctx.loc(f, loops[0]))
        offv = loop.target.id if isinstance(loop.target, ast.Name) else None
        for n in cfg.nodes:
            a = n.ast
            if n.kind == "stmt" and in_loop(n) and isinstance(a, ast.Assign) and isinstance(a.value, ast.Subscript) and isinstance(a.value.slice, ast.Slice) and isinstance(a.targets[0], ast.Name):
                sl = a.value.slice
                if strip_sites(T.of(cfg, n, a.value.value)) == ("param", payload) and sl.lower is not None and sl.upper is not None:
                    take = (n, sl, a.targets[0])
        if take is None or offv is None:
            ck.unknown("C05.T1", "send_bytes: chunk slice payload[offset : offset + K] not found", f.loc())
            return
        sl = take[1]
        okc = _u(sl.lower) == offv and isinstance(sl.upper, ast.BinOp) and isinstance(sl.upper.op, ast.Add) and (
            (_u(sl.upper.left) == offv and ctx.const(f, sl.upper.right, None) == FRAME_MAX_PLAINTEXT) or (_u(sl.upper.right) == offv and ctx.const(f, sl.upper.left, None) == FRAME_MAX_PLAINTEXT))
        ck.check("C05.T1", okc, f"chunk = payload[offset : offset + {FRAME_MAX_PLAINTEXT}] with the loop's own offset", f"{ctx.fkey(f)}:chunk-slice",
                 f"send_bytes takes payload[{_u(sl.lower)}:{_u(sl.upper)}]: slice width and loop step must both be {FRAME_MAX_PLAINTEXT}", ctx.loc(f, take[0]))
    # emitted items, in order: pack(len(chunk)) then encrypt(aad=len bytes, nonce=PACK_NONCE(counter), chunk)
    chunk_t = strip_sites(T.var_after(cfg, take[0], take[2].id)) if isinstance(take[2], ast.Name) else None
    emits = []
    aug_bufs: set[str] = set()
    for n in sorted(cfg.nodes, key=lambda x: x.lineno):
        if not in_loop(n):
            continue
        for c in ctx.calls(n):
            if isinstance(c.func, ast.Attribute) and c.func.attr in ("append", "extend") and c.args:
                emits.append((n, strip_sites(T.of(cfg, n, c.args[0])), c.func.attr))
        if n.kind == "stmt" and isinstance(n.ast, ast.AugAssign) and isinstance(n.ast.op, ast.Add) and isinstance(n.ast.target, ast.Name) and isinstance(n.ast.value, (ast.Tuple, ast.List)):
            emits.append((n, strip_sites(T.of(cfg, n, n.ast.value)), "extend"))  # `frames += (a, b)` is `frames.extend((a, b))`
            aug_bufs.add(n.ast.target.id)
    flat = []
    for n, t, how in emits:
        if how == "extend" and t[0] in ("tuple", "list"):
            flat += [(n, x) for x in t[1]]
        else:
            flat.append((n, t))
    want_len = ("call", ("const", StructMethod(StructConst("<H"), "pack")), (("call", ("glob", "len"), (chunk_t,), ()),), ())
    ok_len = len(flat) == 2 and flat[0][1] == want_len
    ck.check("C05.T1", ok_len, "first item of a frame: pack('<H', len(chunk))", f"{ctx.fkey(f)}:length-item",
             f"send_bytes emits {[show(x[1], 70) for x in flat[:1]]} as the length prefix (expected the little-endian 16-bit length of the chunk); items per frame: {len(flat)}",
             ctx.loc(f, flat[0][0] if flat else loops[0]))
    ok_enc = False
    if len(flat) == 2:
        e = flat[1][1]
        if e[0] == "call" and e[1][0] == "attr" and e[1][2] == "encrypt" and len(e[2]) == 3:
            aad, nonce, pt = e[2]
            ctr_ok = _is_pack(nonce, "<LQ") and len(nonce[2]) == 2 and nonce[2][0] == ("const", 0) and ((nonce[2][1][0] == "attr" and nonce[2][1][1] == ("param", "self")) or local_ctr)
            ok_enc = aad == want_len and ctr_ok and pt == chunk_t and e[1][1][0] == "attr" and e[1][1][1] == ("param", "self")
    ck.check("C05.T1", ok_enc, "second item: encrypt(aad = the length bytes, nonce = PACK_NONCE(send counter), plaintext = the chunk)",
             f"{ctx.fkey(f)}:cipher-item", f"send_bytes: the encrypted item is {show(flat[1][1], 200) if len(flat) == 2 else 'missing'}", ctx.loc(f, flat[1][0] if len(flat) == 2 else loops[0]))
    # order: length item before cipher item on every path
    if len(flat) == 2 and flat[0][0] is not flat[1][0]:
        p = cfg.find_path(loops[0].id, flat[1][0].id, avoid_nodes=[flat[0][0].id])
        ck.check("C05.T1", p is None, "the length prefix is emitted before the ciphertext", f"{ctx.fkey(f)}:item-order",
                 "send_bytes emits the ciphertext before its length prefix", ctx.loc(f, flat[1][0]))
    # one _send_lines after the loop with the buffer
    sl = [(n, c) for n, c in ctx.nodes_calling_name(cfg, "_send_lines")]
    oks = len(sl) == 1 and not in_loop(sl[0][0])
    if oks:
        n, c = sl[0]
        arg = c.args[0] if c.args else None
        bufs = {_u(cc.func.value) for _n, cc in [(e[0], x) for e in emits for x in ctx.calls(e[0]) if isinstance(x.func, ast.Attribute) and x.func.attr in ("append", "extend")]}
        bufs |= aug_bufs
        oks = arg is not None and _u(arg) in bufs and len(bufs) == 1
        if not oks and arg is not None and len(bufs) == 1 and isinstance(arg, ast.Name) and strip_sites(T.of(cfg, n, arg)) in (("list", ()), ("sub", ("list", ()), ("const", 0))):
            # handed over under another name (returned by an inlined helper in a tuple and unpacked): the same list as far as its
            # definition goes, which list object it is is not followed
            ck.unknown("C05.T1", f"send_bytes hands `{_u(arg)}` to _send_lines, the frames are appended to `{sorted(bufs)[0]}`: that these name one list is not decided", ctx.loc(f, n))
            oks = True
    ck.check("C05.T1", oks, "exactly one _send_lines(buffer) after the loop, with the list the frames were appended to", f"{ctx.fkey(f)}:single-send",
             "send_bytes does not hand the complete frame list to _send_lines exactly once after the loop", ctx.loc(f, sl[0][0] if sl else loops[0]))


def _t2(ctx: Context) -> None:
    ck = ctx.ck
    f = ctx.func(f"{SP}.data_received")
    cfg = ctx.cfg(f.qualname)
    T = _terms(ctx)
    data = f.pos_params[1]
    # the persistent buffer: the attribute that receives `+= data`
    appends = [n for n in cfg.nodes if n.kind == "stmt" and isinstance(n.ast, ast.AugAssign) and isinstance(n.ast.op, ast.Add) and isinstance(n.ast.target, ast.Attribute)
               and T.of(cfg, n, n.ast.value) == ("param", data)]
    ext = [n for n in cfg.nodes for c in ctx.calls(n) if isinstance(c.func, ast.Attribute) and c.func.attr == "extend" and c.args and T.of(cfg, n, c.args[0]) == ("param", data)]
    if len(appends) + len(ext) != 1:
        repl = [n for n in cfg.nodes if n.kind == "stmt" and isinstance(n.ast, ast.Assign) and isinstance(n.ast.targets[0], ast.Attribute)
                and contains(T.of(cfg, n, n.ast.value), lambda s: s == ("param", data))]
        if repl and not appends and not ext:
            ck.violated("C05.T2", f"{ctx.fkey(f)}:read-not-appended",
                        f"data_received stores the read with `{repl[0].text()}` instead of appending it to the persistent buffer: the bytes of a frame "
                        "split across reads are lost", ctx.loc(f, repl[0]))
        else:
            ck.unknown("C05.T2", "data_received: the append of the read to the persistent buffer was not found", f.loc())
        return
    an = (appends + ext)[0]
    buf_ast = an.ast.target if appends else [c for c in ctx.calls(an)][0].func.value
    buf = strip_sites(T.of(cfg, an, buf_ast))
    first = [d for (d, l, x) in cfg.entry.succ]
    # appended before anything else: every path from entry to any other node passes the append
    others = [n for n in cfg.nodes if n.kind in ("test", "stmt", "return", "loop_head") and n.id != an.id and not (n.kind == "stmt" and isinstance(n.ast, ast.Expr) and isinstance(n.ast.value, ast.Constant))]
    bad = [n for n in others if cfg.find_path(cfg.entry.id, n.id, avoid_nodes=[an.id]) is not None]
    ck.check("C05.T2", not bad, "every read is appended to the persistent buffer before anything else", f"{ctx.fkey(f)}:append-first",
             f"data_received reaches `{bad[0].text() if bad else ''}` before the read was appended to the buffer", ctx.loc(f, bad[0] if bad else an))
    loops = [n for n in cfg.nodes if n.kind == "loop_head"]
    if len(loops) != 1:
        ck.unknown("C05.T2", f"data_received: expected one frame loop, found {len(loops)}", f.loc())
        return
    loop = loops[0].ast
    # ---- frames consumed by advancing a local offset, the buffer trimmed ONCE by `del buffer[:offset]`: whatever else this
    # form does, every normal way out of the function after the offset moved must pass that trim - an exit that skips it
    # (the classic: the untouched `return` of the "not enough data yet" test) leaves frames that were already delivered in
    # the buffer, and the next read decrypts them again with a counter that has moved on
    du0 = T.du(cfg)
    in_loop0 = lambda n_: any(fr[0] == "loop" and fr[1] is loop and fr[2] == "body" for fr in n_.frames)  # noqa: E731
    for dn_ in cfg.nodes:
        if dn_.kind != "stmt" or not isinstance(dn_.ast, ast.Delete) or in_loop0(dn_):
            continue
        for tg in dn_.ast.targets:
            if not (isinstance(tg, ast.Subscript) and isinstance(tg.slice, ast.Slice) and tg.slice.lower is None and isinstance(tg.slice.upper, ast.Name)
                    and strip_sites(T.of(cfg, dn_, tg.value)) == buf):
                continue
            off = tg.slice.upper.id
            moves = [cfg.nodes[i] for i, dd in du0.defs.items() if off in dd and i != cfg.entry.id and in_loop0(cfg.nodes[i])]
            if not moves:
                continue
            wit = None
            for mv in moves:
                for e_ in ctx.normal_out(cfg, mv):
                    wit = wit or cfg.find_path(e_[1], {cfg.exit.id}, avoid_nodes={dn_.id}, edge_ok=lambda u, d, l, x: l != "x")
            ck.check("C05.T2", wit is None, f"the buffer is trimmed by `del buffer[:{off}]` on every normal way out after `{off}` moved past a frame",
                     f"{ctx.fkey(f)}:deferred-trim-skipped",
                     f"data_received consumes frames by advancing `{off}` and trims the buffer once with `{dn_.text()}`, but a normal exit is reachable after `{off}` moved "
                     "without passing that trim: frames already decrypted and delivered stay in the buffer and are decrypted again on the next read (the counter has "
                     "moved on, so the session ends with a decryption error)", ctx.loc(f, dn_), cfg.render_path(wit) if wit else None)
    lenbuf = ("call", ("glob", "len"), (buf,), ())
    # guard
    gt = [n for n in cfg.nodes if n.kind == "test" and any(n.exprs[0] is x for x in ast.walk(loop.test))]
    # a conjunct that is a flag whose value at the loop test is known (`while not done and ..` with `done = True; break`) decides nothing
    gt = [n for n in gt if strip_sites(T.of(cfg, n, n.exprs[0]))[0] != "const" or len(gt) == 1]
    if isinstance(loop.test, ast.Constant) and loop.test.value is True:
        # `while True:` with the tests inside (the frame is taken by a helper that says "no complete frame" and the loop
        # breaks on that answer): the guard is the test of len(buffer) against a constant, wherever it stands - what it has
        # to do is the same: its "enough" outcome is the only way to the reads of the buffer, its other outcome ends the call
        gt = [n for n in cfg.nodes if n.kind == "test" and (lambda t: t[0] == "cmp" and len(t[2]) == 2 and lenbuf in t[2] and any(x[0] == "const" for x in t[2]))(strip_sites(T.of(cfg, n, n.exprs[0])))]
        for n in gt:
            t = strip_sites(T.of(cfg, n, n.exprs[0]))
            enough = {"GtE": "T", "Gt": "T", "Lt": "F", "LtE": "F"}.get(t[1][0]) if t[2][0] == lenbuf else {"GtE": "F", "Gt": "F", "Lt": "T", "LtE": "T"}.get(t[1][0])
            if enough is None or t[2][0] != lenbuf:
                ck.unknown("C05.T2", f"data_received: length test `{n.text()}` in a form not read", ctx.loc(f, n))
                return
            reads = [m for m in cfg.nodes if m.id != n.id and m.kind in ("stmt", "test") and m.ast is not None and any(
                isinstance(x, (ast.Subscript, ast.Delete)) for x in ast.walk(m.ast if m.kind == "stmt" else m.exprs[0])) and any(
                isinstance(x, ast.Subscript) and strip_sites(T.of(cfg, m, x.value)) == buf for x in ast.walk(m.ast if m.kind == "stmt" else m.exprs[0]))]
            for m in reads:
                ctx.must_pass("C05.T2", cfg, m, "len(buffer) covers the length prefix", cfg.out_edges(n, (enough,)), start=loops[0].id, desc=f"`{m.text()[:60]}` reads the buffer only after the length-prefix test of the same round")
            for e in cfg.out_edges(n, ("F" if enough == "T" else "T",)):
                reach = cfg.reachable_from(e[1]) | {e[1]}
                ck.check("C05.T2", loops[0].id not in reach and cfg.exit.id in reach and not any(m.id in reach for m in reads), "a buffer shorter than a length prefix ends the call, nothing read or consumed",
                         f"{ctx.fkey(f)}:short-buffer-continues", "data_received goes on (another round, or a read of the buffer) after finding the buffer shorter than a length prefix", ctx.loc(f, n))
    okg = False
    for n in gt:
        t = strip_sites(T.of(cfg, n, n.exprs[0]))
        okg = t in (("cmp", ("GtE",), (lenbuf, ("const", FRAME_LENGTH_BYTES))), ("cmp", ("Gt",), (lenbuf, ("const", FRAME_LENGTH_BYTES - 1))),
                    ("cmp", ("Lt",), (lenbuf, ("const", FRAME_LENGTH_BYTES))), ("cmp", ("LtE",), (lenbuf, ("const", FRAME_LENGTH_BYTES - 1))))
    gts = [strip_sites(T.of(cfg, n, n.exprs[0])) for n in gt]
    if not any(t[0] == "cmp" and lenbuf in t[2] for t in gts):
        # the loop is not driven by a test on the buffer length (frames taken by a helper, an index cursor ...): this
        # rule's byte accounting is written for the `while len(buffer) >= 2` form and does not decide other forms
        ck.unknown("C05.T2", f"data_received: the frame loop is not guarded by a test on len(buffer) (guard: {[show(t, 60) for t in gts]}): form not decided", ctx.loc(f, loops[0]))
        return
    ck.check("C05.T2", okg and len(gt) == 1, "loop guard: len(buffer) >= 2 (a complete length prefix)", f"{ctx.fkey(f)}:loop-guard",
             f"data_received: the frame loop guard is {[show(strip_sites(T.of(cfg, n, n.exprs[0])), 80) for n in gt]}", ctx.loc(f, loops[0]))
    # E
    LB = ("sub", buf, ("slice", None, ("const", FRAME_LENGTH_BYTES), None))
    unp = ("sub", ("call", ("const", StructMethod(StructConst("<H"), "unpack")), (LB,), ()), ("const", 0))
    E_forms = [("add", (("const", FRAME_LENGTH_BYTES), unp, ("const", FRAME_TAG_BYTES))), ("add", (unp, ("const", FRAME_LENGTH_BYTES + FRAME_TAG_BYTES))),
               ("add", (("const", FRAME_LENGTH_BYTES + FRAME_TAG_BYTES), unp)), ("add", (unp, ("const", FRAME_LENGTH_BYTES), ("const", FRAME_TAG_BYTES)))]
    # incomplete test
    inc = None
    for n in cfg.nodes:
        if n.kind == "test" and n not in gt:
            t = strip_sites(T.of(cfg, n, n.exprs[0]))
            if t[0] == "cmp" and len(t[1]) == 1 and (t[2][0] == lenbuf or t[2][1] == lenbuf):
                inc = (n, t)
    if inc is None:
        ck.unknown("C05.T2", "data_received: the incomplete-frame test was not found", f.loc())
        return
    n, t = inc
    op = t[1][0]
    l, r = t[2]
    if r == lenbuf:
        l, r = r, l
        op = {"Lt": "Gt", "Gt": "Lt", "LtE": "GtE", "GtE": "LtE"}.get(op, op)
    E = r
    def _is_E(e_):
        """2 + <the unsigned little-endian 16 bits at offset 0 of the buffer> + 16, in any spelling of the read and any order / grouping of the constants"""
        from ..engine.terms import byte_field

        parts_ = list(e_[1]) if e_[0] == "add" else [e_]
        consts_ = [p_[1] for p_ in parts_ if p_[0] == "const" and isinstance(p_[1], int)]
        rest_ = [p_ for p_ in parts_ if not (p_[0] == "const" and isinstance(p_[1], int))]
        if len(rest_) != 1 or sum(consts_) != FRAME_LENGTH_BYTES + FRAME_TAG_BYTES:
            return False
        bf_ = byte_field(rest_[0])
        return bf_ is not None and strip_sites(bf_[0]) == buf and bf_[1] == 0 and bf_[2] == 2 and bf_[3] in ("little", "<") and not bf_[4]

    ck.check("C05.T2", E in E_forms or _is_E(E), "expected length E = 2 + unpack('<H', buffer[:2])[0] + 16", f"{ctx.fkey(f)}:expected-length",
             f"data_received: the expected frame length is {show(E, 160)} (must be length prefix 2 + declared length + tag 16)", ctx.loc(f, n))
    ck.check("C05.T2", op == "Lt", "incomplete-frame test is exactly len(buffer) < E", f"{ctx.fkey(f)}:incomplete-operator",
             f"data_received: the incomplete-frame test is `len(buffer) {op} E`: with <= a frame that just arrived completely is left waiting for a byte that never comes, "
             "with > / >= complete frames are treated as incomplete", ctx.loc(f, n))
    # its 'incomplete' outcome returns, with no consumption before
    lab = "T" if op in ("Lt", "LtE") else "F"
    consume = [m for m in cfg.nodes if m.kind == "stmt" and (isinstance(m.ast, ast.Delete) or (isinstance(m.ast, ast.Assign) and any(strip_sites(T.of(cfg, m, tg)) == buf for tg in m.ast.targets if isinstance(tg, ast.Attribute))))]
    okr = True
    for e in cfg.out_edges(n, (lab,)):
        # the incomplete outcome ends this call without another round and without consuming: `return`, or `break` when
        # nothing but the end of the function follows the loop
        reach = cfg.reachable_from(e[1]) | {e[1]}
        okr &= loops[0].id not in reach and cfg.exit.id in reach and not any(c.id in reach for c in consume)
    p = None
    for c in consume:
        p = p or cfg.find_path(loops[0].id, n.id, avoid_nodes=[], edge_ok=None) and cfg.find_path(loops[0].id, n.id, avoid_nodes=[x.id for x in consume if x is not c]) and None
    pre = [c for c in consume if cfg.find_path(c.id, n.id, avoid_nodes=[loops[0].id]) is not None]
    ck.check("C05.T2", okr and not pre, "an incomplete frame returns without consuming anything", f"{ctx.fkey(f)}:incomplete-consumes",
             "data_received consumes buffer bytes before/when it finds the frame incomplete (the rest of the frame will be misparsed on the next read)", ctx.loc(f, n))
    # ciphertext taken buf[2:E], deletion buf[:E] with the same E
    # (the statement that slices the buffer itself - copies of the taken value into temporaries / helper parameters do not count)
    def _sliced(v):  # bytes(buffer[a:b]) slices the buffer just as buffer[a:b] does
        while isinstance(v, ast.Call) and isinstance(v.func, ast.Name) and v.func.id in ("bytes", "bytearray") and len(v.args) == 1 and not v.keywords:
            v = v.args[0]
        return v

    taken = [m for m in cfg.nodes if m.kind == "stmt" and isinstance(m.ast, ast.Assign) and isinstance(_sliced(m.ast.value), ast.Subscript)
             and strip_sites(T.of(cfg, m, m.ast.value)) == ("sub", buf, ("slice", ("const", FRAME_LENGTH_BYTES), E, None))]
    dels = []
    for m in cfg.nodes:
        if m.kind == "stmt" and isinstance(m.ast, ast.Delete):
            for tg in m.ast.targets:
                if isinstance(tg, ast.Subscript) and isinstance(tg.slice, ast.Slice) and strip_sites(T.of(cfg, m, tg.value)) == buf:
                    lo = T.of(cfg, m, tg.slice.lower) if tg.slice.lower is not None else None
                    hi = strip_sites(T.of(cfg, m, tg.slice.upper)) if tg.slice.upper is not None else None
                    dels.append((m, lo, hi))
    ck.check("C05.T2", len(taken) == 1, "ciphertext+tag taken = buffer[2:E]", f"{ctx.fkey(f)}:taken-slice",
             f"data_received does not take buffer[2:E] with the E of the completeness test ({len(taken)} matching statements)", ctx.loc(f, n))
    ck.check("C05.T2", len(dels) == 1 and dels[0][1] is None and dels[0][2] == E, "consumed = del buffer[:E] with the same E", f"{ctx.fkey(f)}:deleted-slice",
             f"data_received deletes {[(show(d[1]) if d[1] else '', show(d[2], 120) if d[2] else '') for d in dels]} - must be exactly buffer[:E]", ctx.loc(f, dels[0][0] if dels else n))
    if len(taken) == 1 and len(dels) == 1:
        p = cfg.find_path(loops[0].id, dels[0][0].id, avoid_nodes=[taken[0].id])
        ck.check("C05.T2", p is None, "the frame is taken before it is deleted from the buffer", f"{ctx.fkey(f)}:take-before-delete",
                 "data_received deletes the frame from the buffer before taking it", ctx.loc(f, dels[0][0]))
    # decrypt arguments
    decs = [(m, c) for m, c in ctx.nodes_calling_name(cfg, "decrypt")]
    okd = False
    if len(decs) == 1:
        m, c = decs[0]
        if len(c.args) == 3:
            aad, nonce, ct = [strip_sites(T.of(cfg, m, a)) for a in c.args]
            okd = aad == LB and _is_pack(nonce, "<LQ") and nonce[2][0] == ("const", 0) and nonce[2][1][0] == "attr" and nonce[2][1][1] == ("param", "self") and ct == (
                "sub", buf, ("slice", ("const", FRAME_LENGTH_BYTES), E, None))
    if len(decs) != 1:
        # the decryption is not (only) in this function - behind a helper the loader could not inline, or split: its
        # arguments cannot be compared here; not decided rather than reported
        ck.unknown("C05.T2", f"data_received: expected one decrypt(...) call in the frame loop, found {len(decs)}: its arguments are not decided", ctx.loc(f, n))
    else:
        ck.check("C05.T2", okd, "decrypt(aad = the two length bytes, nonce = PACK_NONCE(receive counter), data = buffer[2:E])", f"{ctx.fkey(f)}:decrypt-args",
                 "data_received: decrypt is not called with (length bytes, PACK_NONCE(counter), buffer[2:E])", ctx.loc(f, decs[0][0]))
    # the length bytes are read before the deletion
    lbs = [m for m in cfg.nodes if m.kind == "stmt" and isinstance(m.ast, ast.Assign) and strip_sites(T.of(cfg, m, m.ast.value)) == LB]
    if lbs and dels:
        p = cfg.find_path(loops[0].id, dels[0][0].id, avoid_nodes=[lbs[0].id])
        ck.check("C05.T2", p is None, "the length bytes (AAD) are copied before the buffer is consumed", f"{ctx.fkey(f)}:aad-before-delete",
                 "data_received consumes the buffer before copying the length bytes used as AAD", ctx.loc(f, dels[0][0]))


def _g1(ctx: Context) -> None:
    ck = ctx.ck
    f = ctx.func(f"{SP}.data_received")
    cfg = ctx.cfg(f.qualname)
    T = _terms(ctx)
    decs = [(m, c) for m, c in ctx.nodes_calling_name(cfg, "decrypt")]
    deliver = [(m, c) for m, c in ctx.nodes_calling_name(cfg, "data_received") if isinstance(c.func.value, ast.Call)]
    if len(decs) != 1 or len(deliver) != 1:
        ck.unknown("C05.G1", f"data_received: expected one decrypt and one hand-over, found {len(decs)}/{len(deliver)}", f.loc())
        return
    dn, dc = decs[0]
    hn, hc = deliver[0]
    ctx.must_pass("C05.G1", cfg, hn, "decrypt returned normally", ctx.normal_out(cfg, dn), desc="plaintext is handed to the HTTP layer only after a successful decrypt")
    arg = strip_sites(T.of(cfg, hn, hc.args[0])) if hc.args else ("unknown", "")
    ck.check("C05.G1", arg[0] == "call" and arg[1][0] == "attr" and arg[1][2] == "decrypt", "what is delivered is the decrypt result", f"{ctx.fkey(f)}:delivered-value",
             f"data_received hands {show(arg, 100)} to the HTTP layer, not the decrypted plaintext", ctx.loc(f, hn))
    # the failure can only raise
    failing = [(d, x) for (d, l, x) in dn.succ if l == "x"]
    ck.check("C05.G1", bool(failing), "decrypt is a raise site (InvalidTag)", f"{ctx.fkey(f)}:decrypt-raise-site", "decrypt is not modelled as raising", ctx.loc(f, dn))
    for d, x in failing:
        reach = cfg.reachable_from(d)
        ok = cfg.exit.id not in reach and hn.id not in reach and not any(cfg.nodes[y].kind == "loop_head" for y in reach)
        ck.check("C05.G1", ok, f"a frame failing authentication ({x.rsplit('.', 1)[-1]}) can only raise: it is neither delivered nor skipped", f"{ctx.fkey(f)}:auth-failure-continues",
                 "data_received continues after a frame failed authentication (the frame is skipped or delivered and the session goes on)", ctx.loc(f, cfg.nodes[d]),
                 cfg.render_path(cfg.find_path(d, {cfg.exit.id, hn.id}) or []))
    # counter: exactly between decrypt and delivery, success path only
    incs = [m for m in cfg.nodes if m.kind == "stmt" and isinstance(m.ast, ast.AugAssign) and isinstance(m.ast.op, ast.Add) and ctx.const(f, m.ast.value, None) == 1
            and isinstance(m.ast.target, ast.Attribute)]
    nonce = strip_sites(T.of(cfg, dn, dc.args[1])) if len(dc.args) == 3 else ("unknown", "")
    ctr = nonce[2][1] if nonce[0] == "call" and len(nonce[2]) == 2 else None
    incs = [m for m in incs if strip_sites(T.of(cfg, m, m.ast.target)) == ctr]
    ok = len(incs) == 1
    if ok:
        i = incs[0]
        ok = cfg.find_path(cfg.entry.id, i.id, avoid_edges=ctx.normal_out(cfg, dn)) is None and cfg.find_path(dn.id, hn.id, avoid_nodes=[i.id], edge_ok=lambda u, d, l, x: l != "x") is None
    ck.check("C05.G1", ok, "the receive counter advances exactly once, after a successful decrypt and before delivery", f"{ctx.fkey(f)}:counter-position",
             "data_received: the receive counter is not advanced exactly once between a successful decrypt and the delivery", ctx.loc(f, dn))
    # nobody upstream swallows the failure: the exception escapes data_received
    esc = ctx.flow.esc(f.qualname)
    ck.check("C05.G1", any(ctx.prog.is_subclass(e, "Exception") for e in esc), f"the authentication failure escapes data_received ({sorted(x.rsplit('.', 1)[-1] for x in esc)}) so the loop closes the transport",
             f"{ctx.fkey(f)}:failure-does-not-escape", "data_received swallows the authentication failure: the session continues with diverged counters", f.loc())


def _t3(ctx: Context) -> None:
    ck = ctx.ck
    T = ctx.terms
    for cls, meth in (("ChaCha20Poly1305Encryptor", "encrypt"), ("ChaCha20Poly1305Decryptor", "decrypt")):
        f = ctx.func(f"{CH}.{cls}.{meth}")
        cfg = ctx.cfg(f.qualname)
        params = f.pos_params[1:]
        rets = [n for n in cfg.nodes if n.kind == "return" and n.exprs]
        ok = False
        for r in rets:
            t = strip_sites(T.of(cfg, r, r.exprs[0]))
            if t[0] == "call" and t[1][0] == "attr" and t[1][2] == meth and len(t[2]) == 3 and len(params) == 3:
                # our order: (aad, nonce, data); library order: (nonce, data, aad)
                aad, nonce, data = [("param", p) for p in params]
                ok = params[0] == "aad" and params[1] == "nonce" and t[2] == (nonce, data, aad)
        ck.check("C05.T3", ok, f"{cls}.{meth}(aad, nonce, data) -> library {meth}(nonce, data, aad)", f"{ctx.fkey(f)}:argument-order",
                 f"{cls}.{meth} does not pass (nonce, data, aad) to the library in the library's parameter order", f.loc())
        init = ctx.func(f"{CH}.{cls}.__init__")
        ok2 = any(isinstance(x, ast.Assign) and _u(x.targets[0]) == "self.chacha" and isinstance(x.value, ast.Call) and (ctx.resolve_name(init, x.value.func) or "").endswith("ChaCha20Poly1305Reusable")
                  and len(x.value.args) == 1 and _u(x.value.args[0]) == init.pos_params[1] for x in walk_own(init.node))
        ck.check("C05.T3", ok2, f"{cls}: the library cipher is built from the key given", f"{ctx.fkey(init)}:cipher-key", f"{cls}.__init__ does not build the cipher from its key parameter", init.loc())
    # the protocol binds encryptor to c2a and decryptor to a2c (label binding itself is C01.T3)
    init = ctx.func(f"{SP}.__init__")
    binds = {}
    for x in walk_own(init.node):
        if isinstance(x, ast.Assign) and isinstance(x.value, ast.Call) and isinstance(x.targets[0], ast.Attribute):
            r = ctx.resolve_name(init, x.value.func) or ""
            if r.endswith("Encryptor") or r.endswith("Decryptor"):
                binds[x.targets[0].attr] = (r.rsplit(".", 1)[-1], _u(x.value.args[0]) if x.value.args else "")
    ok = binds.get("encryptor") == ("ChaCha20Poly1305Encryptor", "self.c2a_key") and binds.get("decryptor") == ("ChaCha20Poly1305Decryptor", "self.a2c_key")
    ck.check("C05.T3", ok, "SecureHomeKitProtocol: encryptor <- controller-to-accessory key, decryptor <- accessory-to-controller key", f"{ctx.fkey(init)}:key-binding",
             f"SecureHomeKitProtocol.__init__ binds {binds}", init.loc())


MANIFEST = {
    "technique": "term comparison of slice bounds / AAD / nonce across take, test and delete (same term E), constant agreement with HAP 6.5.2, "
    "must-pass-through of decrypt before delivery with exception edges",
    "level_text": "Static, all paths: decides the byte accounting of the outbound chunker and the inbound frame parser (one E for the "
    "completeness test, the slice and the deletion; exact operators), what is authenticated (AAD/nonce terms) and that an "
    "unauthenticated frame is never delivered and ends the session. This is a necessary structural condition of "
    "segmentation-independence and exactness, not a proof of them over all streams.",
    "level_note": "Trusted: asyncio's reaction to an exception in data_received; the AEAD library. Equality of decoded and sent data over all "
    "inputs and cut points is NOT decided (DESIGN section 8).",
}

TWIN_FILES = ["aiohomekit/controller/ip/connection.py", "aiohomekit/crypto/chacha20poly1305.py"]
_F = "aiohomekit/controller/ip/connection.py"
_CF = "aiohomekit/crypto/chacha20poly1305.py"
VARIANTS = [
    {"name": "advance one byte short", "file": _F, "old": "            payload = payload[1024:]", "new": "            payload = payload[1023:]", "expect": "C05.T1"},
    {"name": "chunk size 1025", "file": _F, "old": "            current = payload[:1024]\n            payload = payload[1024:]", "new": "            current = payload[:1025]\n            payload = payload[1025:]", "expect": "C05.T1"},
    {"name": "AAD dropped outbound", "file": _F, "old": "self.encryptor.encrypt(len_bytes, PACK_NONCE(self.c2a_counter), current)", "new": "self.encryptor.encrypt(b\"\", PACK_NONCE(self.c2a_counter), current)", "expect": "C05.T1"},
    {"name": "length of the remaining payload announced", "file": _F, "old": "            len_bytes = PACK_UNSIGNED_SHORT_LITTLE(len(current))", "new": "            len_bytes = PACK_UNSIGNED_SHORT_LITTLE(len(payload))", "expect": "C05.T1"},
    {"name": "one send per frame", "file": _F, "old": "            self.c2a_counter += 1\n\n        return await self._send_lines(buffer)", "new": "            self.c2a_counter += 1\n            await self._send_lines(buffer)\n\n        return await self._send_lines(buffer)", "expect": "C05.T1"},
    {"name": "expected length without the tag", "file": _F, "old": "            exp_length = BLOCK_SIZE_LEN + block_length + TAG_LENGTH", "new": "            exp_length = BLOCK_SIZE_LEN + block_length", "expect": "C05.T2"},
    {"name": "<= in the incomplete test", "file": _F, "old": "            if incoming_len < exp_length:", "new": "            if incoming_len <= exp_length:", "expect": "C05.T2"},
    {"name": "deletion without the length prefix", "file": _F, "old": "            del self._incoming_buffer[:exp_length]", "new": "            del self._incoming_buffer[: exp_length - BLOCK_SIZE_LEN]", "expect": "C05.T2"},
    {"name": "ciphertext slice starts at 0", "file": _F, "old": "            block_and_tag = self._incoming_buffer[BLOCK_SIZE_LEN:exp_length]", "new": "            block_and_tag = self._incoming_buffer[0:exp_length]", "expect": "C05.T2"},
    {"name": "buffer consumed before the completeness test", "file": _F,
     "old": "            exp_length = BLOCK_SIZE_LEN + block_length + TAG_LENGTH\n", "new": "            exp_length = BLOCK_SIZE_LEN + block_length + TAG_LENGTH\n            del self._incoming_buffer[:BLOCK_SIZE_LEN]\n", "expect": "C05.T2"},
    {"name": "read not appended (buffer replaced)", "file": _F, "old": "        self._incoming_buffer += data\n", "new": "        self._incoming_buffer = bytearray(data)\n", "expect": "C05.T2"},
    {"name": "big-endian length", "file": _F, "old": "UNSIGNED_SHORT_LITTLE = Struct(\"<H\")", "new": "UNSIGNED_SHORT_LITTLE = Struct(\">H\")", "expect": ["C05.K1", "C05.T1"]},
    {"name": "tag length 12", "file": _F, "old": "TAG_LENGTH = 16", "new": "TAG_LENGTH = 12", "expect": ["C05.K1", "C05.T2"]},
    {"name": "nonce layout changed", "file": _CF, "old": "PACK_NONCE = partial(Struct(\"<LQ\").pack, 0)", "new": "PACK_NONCE = partial(Struct(\"<QL\").pack, 0)", "expect": "C05.K1"},
    {"name": "failed frame skipped", "file": _F, "old": "            except DecryptionError as err:\n                raise RuntimeError(\"Could not decrypt block\") from err", "new": "            except DecryptionError as err:\n                continue", "expect": "C05.G1"},
    {"name": "deliver the ciphertext", "file": _F, "old": "            super().data_received(decrypted)", "new": "            super().data_received(bytes(block_and_tag))", "expect": "C05.G1"},
    {"name": "counter advanced after delivery", "file": _F, "old": "            self.a2c_counter += 1\n\n            super().data_received(decrypted)", "new": "            super().data_received(decrypted)\n\n            self.a2c_counter += 1", "expect": "C05.G1"},
    {"name": "wrapper swaps aad and data", "file": _CF, "old": "        return self.chacha.encrypt(nonce, plaintext, aad)", "new": "        return self.chacha.encrypt(nonce, aad, plaintext)", "expect": "C05.T3"},
    {"name": "decryptor built from the write key", "file": _F, "old": "        self.decryptor = ChaCha20Poly1305Decryptor(self.a2c_key)", "new": "        self.decryptor = ChaCha20Poly1305Decryptor(self.c2a_key)", "expect": "C05.T3"},
]
